"""sidecar contracts for fkie-cad/TLExport (nothing in /repo is annotated or copied).

PROPERTIES maps a property id to the contract modules that decide it and to what the evidence
must say about level, assumptions and what is not reached."""

COMMON_ASSUMPTIONS = [
    "Python int is a mathematical integer (no machine arithmetic gap); shifts/masks encoded as div/mod by constants",
    "every byte string has length < 2^53; elements are 0..255 (asserted at each read)",
    "evaluation order left-to-right; exception classes as in CPython 3.12",
    "dropped from the verified text: docstrings, annotations, typing.cast (identity), the EFFECT of logging.*/print (arguments are still evaluated)",
    "z3 5.1.0 (python3-vt) is sound on the generated QF_/quantified LIA+UF queries; cvc5 1.0.3 and z3 4.8.12 are consulted only for unknowns",
]

PROPERTIES = {}


def _p(pid, **kw):
    PROPERTIES[pid] = kw


_p("C17", modules=["quic_varint", "quic_frame"], level="proof",
   explanation="",
   assumptions=[], trusted_base=[], not_under_contract=[])
