"""sidecar contracts for fkie-cad/TLExport (nothing in /repo is annotated or copied).

PROPERTIES maps a property id to the contract modules that decide it and to what the evidence
must say about level, assumptions and what is not reached."""

COMMON_ASSUMPTIONS = [
    "Python int is a mathematical integer (no machine arithmetic gap); shifts/masks encoded as div/mod by constants",
    "every byte string has length < 2^53; elements are 0..255 (asserted at each read)",
    "evaluation order left-to-right; exception classes as in CPython 3.12",
    "dropped from the verified text: docstrings, annotations, typing.cast (identity), the EFFECT of logging.*/print (arguments are still evaluated)",
    "z3 5.1.0 (python3-vt) is sound on the generated QF_/quantified LIA+UF queries; cvc5 1.0.3 and z3 4.8.12 are consulted only for unknowns",
]

PROPERTIES = {}


def _p(pid, **kw):
    PROPERTIES[pid] = kw


NOT_APPLICABLE = {}

_p("C17", modules=["quic_varint", "quic_frame"], level="proof",
   level_text="Every obligation generated from the real source of quic_decode.py and quic_frame.py is discharged by z3 with no bound on "
              "payload length, field values, number of frames or number of ACK ranges: the two varint helpers equal their RFC 9000 "
              "section 16 spec; each of the 22 constructors satisfies its well-formed contract (all varint widths, non-minimal included) and its "
              "arbitrary-bytes contract (IndexError or length >= 1, data attributes are windows of the packet); parse_frames terminates "
              "(variant len(payload)), dispatches every first byte as RFC 9000/9221 say, and splits a well-formed sequence of symbolic length "
              "into exactly its frames (tiling invariant). The property statement is these postconditions.",
   level_note="trusted: z3; the encoding assumptions of DESIGN 3.2 (ints mathematical, len < 2^53); ghost description of a well-formed "
              "sequence (pos strictly increasing = partial sums of positive lengths) is an assumed arithmetic lemma; a maximal PADDING run counts as one frame; "
              "ack_ranges contents and GenericFrame payload are not specified by the property and not checked",
   design_ref="DESIGN.md 4 C17",
   explanation="",
   assumptions=["lemma (not machine-checked): partial sums of positive frame lengths are strictly increasing (used once, at loop exit of parse_frames.wf)",
                "RFC 9000 19.1 PADDING: a maximal run of 0x00 bytes is treated as one frame of that length"],
   trusted_base=[], not_under_contract=["PseudoVersionNegotiationFrame (not an RFC frame type; not in the dispatch table)"])

_p("C16", modules=["quic_pkn", "quic_session_c"], level="proof",
   level_text="get_full_packet_number is proved equal to RFC 9000 A.3 (transcribed over the integers) for every largest < 2^62, every "
              "encoded length 1-4 and every truncated value, in all 4 packet types x 2 directions; the entry of the packet's own space and "
              "direction becomes max(old, result) and every other entry of both tables is unchanged; PACKET_TYPE_MAP is checked to put "
              "0-RTT/1-RTT in one space; QuicDecryptor.decrypt is proved to call the direction's AEAD with iv XOR left-padded packet number.",
   level_note="float arithmetic (if present in the function) is modelled as integer-valued binary64 with round-half-even to 53 bits (DESIGN 3.2); "
              "xor is an uninterpreted commutative function; the AEAD object is a recorder (assumed: cryptography's AEAD.decrypt(nonce, data, aad)); "
              "the call site in decrypt_packet (result passed on unchanged) is covered by C02's contracts, not here",
   design_ref="DESIGN.md 4 C16", explanation="", assumptions=[], trusted_base=["cryptography AEAD objects: decrypt(nonce, ciphertext, aad) - recorder stand-in"],
   not_under_contract=["QuicSession.decrypt_packet (call site: passes the result to QuicDecryptor.decrypt)"])

_p("C11", modules=["checksums", "main_run", "packet_c"], level="proof",
   level_text="ones_complement_checksum is proved (two loop invariants + variant) to return 0xFFFF - fold(sum16(pad(a))) for arrays of any length without "
              "raising; calculate_checksum_tcp/udp are proved, for IPv4 and IPv6, any segment length and any checksum value, to return True exactly when the "
              "RFC 1071 receiver rule accepts pseudo-header ++ segment, with the pseudo-header checked field by field against RFC 793/768/8200; the two "
              "arithmetic lemmas about sum16 are proved by induction (base+step obligations).",
   level_note="dpkt record model assumed: bytes(packet.tcp|udp) is the captured segment, len() its length, .sum its checksum field, ip.p/ip.nxt the protocol "
              "number (non-zero); UDP over IPv4 with an all-zero checksum field (RFC 768 'no checksum') is outside the claim; the -c branch in main.run that "
              "drops packets on a False verdict is covered by its own harness (cksum.run_branch) when present",
   design_ref="DESIGN.md 4 C11", explanation="", assumptions=["sum over pseudo-header ++ segment is positive (the protocol number is non-zero)"],
   trusted_base=["dpkt.tcp.TCP / dpkt.udp.UDP / dpkt.ip.IP / dpkt.ip6.IP6 attribute model"],
   not_under_contract=[])


def _c14_extra(tier, seed):
    from contracts.cipher_suites import enumerate_all
    return enumerate_all(tier, seed)


_p("C14", modules=["cipher_suites", "record_protection", "quic_session_c", "keys"], level="proof", extra=[_c14_extra],
   technique="proof by exhaustion: the real split_cipher_suite evaluated on all 65 536 code points against a frozen IANA registry + independent name parser; KeyError path by VC",
   level_text="The domain is finite (2-byte code points): the real function is evaluated on all 65 536 inputs and every accepted code point must be the "
              "IANA-registered code point of its name with bulk cipher, key length, mode/AEAD-ness, tag length and hash equal to what an independent token "
              "parser derives from the IANA name; all others must be rejected without exception. A loop-free check over the full domain is complete. "
              "The not-in-table path is additionally a symbolic obligation for ids of any length.",
   level_note="oracle: specs/iana_tls_cipher_suites.json (frozen copy from dpkt 1.9.8 + scapy 2.7.0 registries, 10 entries from RFC 8442/8492/6655 text); "
              "the oracle's own correctness is trusted; class identity of cryptography objects is compared by class name",
   design_ref="DESIGN.md 4 C14", explanation="", assumptions=[], trusted_base=["specs/iana_tls_cipher_suites.json is a faithful copy of the IANA registry"],
   not_under_contract=["Decryptor.decrypt dispatch totality (dispatch_total) is part of C01's contracts"])

_p("C10", modules=["ports", "main_run", "quic_output"], level="proof",
   level_text="Each sentence of the property is a postcondition proved for all ports and ALL port maps (an uninterpreted map): both output builders compute "
              "server_port' = keep ? p : (p in map ? map[p] : 8080) and leave the client port alone; get_port_map turns 'a:b' items into {a: b}; bare -m stores "
              "['443:8080'] and clears keep_original_ports; the real add_argument/set_defaults calls give -m the SUPPRESS default and keep_original_ports=True; "
              "the side on a server port becomes the server (TLS and QUIC); main.handle_packet creates a TLS session iff sport or dport is a server port; run() hands the -m pairs to both "
              "handlers exactly as parsed (frame obligation: run has no statement that changes the map; concrete two-pair map incl. a port that is not a -p port); every datagram the QUIC "
              "builder emits - in each of its eight IPv4/IPv6 x direction x flush-site branches - carries the computed server port on the server's side and the client port on the client's "
              "(quic_out.build: per-iteration transition relation and final flush).",
   level_note="argparse's own behaviour (SUPPRESS, set_defaults, nargs) is an assumed contract; only the calls made by arg_parser_init are checked; strings are piece lists "
              "(decimal renderings of non-negative integers and literals); the threading of keep_original_ports/portmap from run() to the builders is a call-site "
              "obligation checked for main.handle_packet here and for the QUIC path in ports.quic_threading",
   design_ref="DESIGN.md 4 C10", explanation="", assumptions=[], trusted_base=["argparse (ArgumentParser.add_argument/set_defaults/parse_args semantics)"],
   not_under_contract=[])


BOUNDED_FRAMING = [{"function": "tlexport.session.Session.get_tls_records (the history: which segments are in the buffer when), and a second, bounded run of "
                                "extract_server_buf / extract_client_buf with list.sort executed (framing.extract)",
                    "bound": "at most 3 buffered TCP segments carrying at most 14 stream bytes (up to 2 complete records); contents, cut points, "
                             "sequence numbers (mod 2^32) and arrival order symbolic; all loops unrolled completely within the bound",
                    "counted_as": "bounded (exhaustive within the bound), NOT as an unbounded proof; the per-call contract of extract_*_buf itself is discharged WITHOUT bound by "
                                  "framing.unbounded (four loop invariants, two variants, sort-key obligation, three induction lemmas)"}]
UNBOUNDED_FRAMING_ASSUMPTIONS = ["list.sort(key=k) leaves a permutation of the list in non-decreasing key order (stable)",
                                 "framing.unbounded describes its input by ghost functions (prefix sums off, record starts bpos, first gap G, record count R, carrying segments A/Z); "
                                 "their defining facts are instantiated by hand at the indices each loop touches; existence of R (the record scan of a finite string ends) is by "
                                 "well-founded recursion on len(D) and is not machine-checked",
                                 "the three lemmas of framing.lemmas are proved by induction: z3 discharges base case and step, the induction schema is applied on paper",
                                 "buffered segments are non-empty (run() skips empty segments: run.packet_branches) and a chain spans < 2^31 bytes (sort-key obligation only)",
                                 "history.unbounded: the callee contract of extract_*_buf is used in a set-level form (see contracts/framing_history.py for its derivation); its per-step "
                                 "history preconditions are relative to the ghost state; a direction's stream is shorter than 2^31 bytes"]

_p("C06", modules=["tcp_output", "quic_output", "framing", "framing_unbounded", "main_run"], level="other",
   technique="contract-based deductive verification (pyvc: loop invariants incl. nonlinear split arithmetic, callee contracts) + one bounded stand-in",
   level_text="Proved without bound on the real bodies: build_ack_handshake (SYN/SYN-ACK/ACK, seq 0/0/1, orientation, IPv4 and IPv6); build_server_packet / "
              "build_client_packet for symbolic record length n and symbolic number k of carrying packets (two loop invariants: the parts tile decrypted[0:n), "
              "frame j has seq = old + offset_j, ack = peer's counter, each ACK acknowledges exactly the bytes sent, sender counter += n); build() for a record list of "
              "symbolic length (handshake exactly once and first, direction dispatch, sequence numbers = 1 + bytes sent before, via prefix-sum ghost); "
              "QUICOutputbuilder.build's per-iteration transition relation and final flush (UDP datagram per capture timestamp, orientation, payload); "
              "QuicSession.build_output returns only builder frames. Every frame is built from Ether/IP|IPv6/TCP|UDP[/Raw] with no length or checksum field set.",
   level_note="NOT implied by the discharged obligations and therefore level 'other': (1) byte-level well-formedness (lengths, checksums, pcapng container) is scapy's and "
              "dpkt's assumed contract; (2) the precondition 'every exported record has >= 1 carrying packet' is the metadata clause of the UNBOUNDED framing contract (framing.unbounded: A(q) <= Z(q)); (3) the step from the per-call "
              "contracts to 'a standard reassembler recovers the streams' is the composition argument of DESIGN 4 C06 (concatenation of consistent segments); (4) 32-bit "
              "sequence wrap of the OUTPUT (more than 4 GiB per direction) is outside the claim.",
   design_ref="DESIGN.md 4 C06",
   explanation="Per-function contracts proved (see level_text); the end-to-end sentence 'the output file is a valid pcapng ... a standard reassembler recovers exactly the "
               "exported streams' additionally needs scapy/dpkt's serialisers (assumed) and the paper composition of the per-call sequence-number contracts.",
   assumptions=UNBOUNDED_FRAMING_ASSUMPTIONS + ["scapy fills in every length/checksum field that was not set explicitly; str and bytes spellings of an address denote the same address",
                "dpkt.pcapng.Writer writes a valid pcapng for (bytes, float timestamp) pairs",
                "A-FLOORDIV: floor(fl(n/k)) == n div k for 0 <= n, 1 <= k, n + k < 2^53 (paper proof in DESIGN 3.2)"],
   trusted_base=["scapy layer constructors and serialiser", "dpkt.pcapng.Writer"], bounded=BOUNDED_FRAMING,
   composition_assumptions=["concatenating per-record frame groups whose first sequence number equals 1 + bytes sent before yields gap-free, non-overlapping sequence space per direction"],
   not_under_contract=["main.run writer loop (bytes(buf), ts) -> dpkt (covered by the run() contracts of C18/C11 when built)"])

_p("C07", modules=["tcp_output", "quic_output", "framing", "framing_unbounded", "ports", "robustness", "packet_c", "main_run", "container_unbounded"], level="other",
   technique="contract-based deductive verification (pyvc) + one bounded stand-in",
   level_text="Proved on the real bodies: every frame the TLS builder emits is oriented sender->receiver with the session's MACs, IPs (IP version as the session's) and "
              "ports, the client port unchanged (tcp_out.* orientation clauses, all 22 scapy constructions); data frame j of a record carries the timestamp of the j-th packet "
              "that carried the record, ACKs the same; the handshake carries the time of the first exported record's first packet; QUIC datagrams carry the "
              "timestamp and direction of the input datagram whose frames they hold; roles are taken from the first packet as documented (ports.roles); a record's "
              "metadata is exactly the buffered segments overlapping its byte range, in stream order (framing.unbounded: proved for any number of segments and records; framing.extract repeats it within a bound with list.sort executed); "
              "the wrapper built for every captured frame keeps the decoder's endpoints and the reader's timestamp ITSELF (packet.init, run.packet_branches); the pcapng reader gives every packet block, "
              "wherever it sits among any number of other blocks, the time if_tsoffset + ticks / divisor of the resolution fixed at the first interface description (container.unbounded.iter).",
   level_note="microsecond preservation = the float timestamp passing unchanged from dpkt's reader to dpkt's writer (trusted); metadata exactness is proved without bound per extract call (framing.unbounded)",
   design_ref="DESIGN.md 4 C07",
   explanation="Orientation and timestamp clauses are postconditions proved per builder call for symbolic sizes; the metadata clause is an unbounded loop contract; timestamp resolution is a "
               "library property (dpkt reader/writer) and not reached.",
   assumptions=UNBOUNDED_FRAMING_ASSUMPTIONS + ["timestamps are opaque tokens that the code only copies (modelled as integers; equality only)"],
   trusted_base=["scapy layer constructors", "dpkt readers/writers (timestamp resolution)"], bounded=BOUNDED_FRAMING,
   not_under_contract=["dpkt_dsb.Reader timestamp arithmetic (C12)"])

_p("C05", modules=["framing", "framing_unbounded", "framing_history", "main_run", "prefix", "ports", "packet_c"], level="other",
   technique="contract-based deductive verification: unbounded loop contract (four invariants, two variants, quantifier-free VCs over spec-function lists) for the framing "
             "functions + unbounded dedupe contract; the capture-order history is a bounded stand-in",
   level_text="UNBOUNDED (any number of buffered segments, any payloads, any number of records): extract_server_buf / extract_client_buf release records iff the sorted buffer is one "
              "contiguous chain modulo 2^32 and its concatenation D ends on a record boundary; then exactly frame(D) is appended, in order, each record being its window of D with "
              "exactly its carrying segments as metadata, and the buffer is emptied; otherwise nothing changes; both framing loops terminate; the real sort key orders every "
              "contiguous chain (< 2^31 bytes) in stream order from any base segment; Session.handle_packet buffers a segment iff its sequence number was not seen in its "
              "direction. UNBOUNDED inductive step of the history (history.unbounded, any number of packets and any interleaving of the two directions): get_tls_records puts each "
              "segment into its own direction's buffer only, and the records it hands on are always exactly records 0..r-1 of the stream, in order, once, with the direction's flag - "
              "whenever the buffered windows become gap-free up to a record boundary all records up to it are delivered in that very iteration; a raising record handler is contained. "
              "BOUNDED (<= 3 segments, <= 14 stream bytes): the composed end-to-end statement - for every cut of a stream into <= 3 segments, every initial sequence number and "
              "every capture order outside the recorded finding's region, a prefix of frame(S) is delivered and all of it when S ends on a boundary.",
   level_note="level 'other': the per-call framing contract and the inductive step of the history are proved without bound; the history step uses extract's contract in a SET-level "
              "form whose derivation from the per-call contract rests on two induction lemmas (machine-checked base and step) plus paper arguments (sort order = offset order and "
              "contiguity mod 2^32 = exact contiguity below 2^31 bytes), and its per-step preconditions (arriving window disjoint from the buffer, not before the delivered position, "
              "no early arrival at an empty buffer) follow from 'disjoint segments' by a coverage argument that is not machine-checked; one open finding (early segment at an empty buffer) is excluded by region and re-confirmed natively on every run",
   design_ref="DESIGN.md 4 C05, 8.8",
   explanation="Segmentation independence per extract call (the buffer's concatenation is framed the same however it is cut into segments) is proved for all inputs; retransmission is the "
               "dedupe contract; reordering across calls (the history) is exhaustive for <= 3 segments / <= 14 bytes and silent beyond.",
   assumptions=UNBOUNDED_FRAMING_ASSUMPTIONS, trusted_base=["list.sort (stable, total order by key)"], bounded=BOUNDED_FRAMING, not_under_contract=[])


_p("C09", modules=["keylog", "keylog_unbounded", "main_run", "demux", "container", "container_unbounded"], level="other",
   technique="contract-based deductive verification: regular-language inclusion (z3 re theory) for the key-log pattern, VCs for the parsers and run()'s DSB/-s branches",
   level_text="Proved: every line of the NSS key-log grammar (nine labels, upper- or lower-case hex) is accepted by the REAL pattern and yields exactly its three fields "
              "(language inclusion oracle <= pattern, decided by z3); any other line is rejected or parsed without exception; get_keys_from_string returns the keys of "
              "the key lines in order for texts of ANY number of lines (loop contract over a filtered spec list; str.replace/split assumed) and, cross-checked with real string "
              "operations, for LF and CRLF files with comment, blank and foreign lines (bounded to 3 lines); a connection selects exactly the lines whose "
              "client random spells its own, case-insensitively, in key-log order, for key logs of ANY length (loop contract); -s has no default and without it no file is read; a DSB's text goes "
              "to the same parser, extends the run's key list and never reaches the packet parser.",
   level_note="level 'other': byte identity of two output FILES (the property's wording) is a relational statement over the whole pipeline and is not derived; what is proved is "
              "that both sources produce the same key list and that consumers depend only on (label, client random bytes, value); Python's str.split/replace and re.match are assumed "
              "(regular-language model); DSB placement inside the pcapng (dpkt_dsb.Reader) is not under contract (C12)",
   design_ref="DESIGN.md 4 C09",
   explanation="Parser-level and call-site obligations are discharged; invariance under line order/duplicates follows from the selection contract (first match per label) only "
               "on paper; reader-level DSB handling (where in the file the block sits) is not covered.",
   assumptions=["str.split / str.replace / str.lower / bytes.fromhex behave as in CPython on regular-language-typed strings"],
   trusted_base=["re (pattern semantics translated to z3 RegLan)"],
   bounded=[{"function": "keylog_reader.get_keys_from_string with CPython's real str.replace / str.split (keylog.file_text)", "bound": "<= 3 lines of key-log text", "counted_as": "bounded cross-check; the loop itself is discharged without bound by keylog.unbounded.*"}],
   not_under_contract=["dpkt_dsb.Reader / DecryptionSecretBlock.unpack (DSB position and byte order)", "dpkt_dsb.DecryptionSecretBlock.unpack field decoding (dpkt's Packet.unpack assumed)"])

_p("C18", modules=["main_run", "demux", "keylog", "keylog_unbounded", "quic_output"], level="other",
   technique="contract-based deductive verification of run() against recorder contracts + syntactic frame obligations",
   level_text="Determinism of sequential Python is the absence of a few things, each proved as an obligation: run() resets every module-level list before use (state of an earlier run "
              "cannot reach this one); run() opens exactly the input and output file and reads a key-log file iff -s is given (no cwd-relative defaults for -s); every (frame, ts) "
              "handed to dpkt's writer has its own non-None timestamp (dpkt would otherwise substitute the wall clock); the QUIC connection-ID lookup does not depend on set "
              "iteration order (longest non-empty match; demux.quic_routing); no per-connection class or helper writes module-level state; no ambient reads (time, random, environ).",
   level_note="byte identity of the written file additionally needs scapy/dpkt to be deterministic (assumed); -i keeps a cwd-relative default (an explicit -i is required for cwd independence); "
              "tie order inside sorted(set, key=len) is argued (equal-length distinct IDs cannot both match) rather than proved",
   design_ref="DESIGN.md 4 C18",
   explanation="Five named sources of nondeterminism are excluded by discharged obligations; determinism of the libraries and of CPython itself is assumed.",
   assumptions=["scapy and dpkt serialise deterministically"], trusted_base=["dpkt.pcapng.Writer", "scapy serialiser"],
   not_under_contract=["set_logger (log output is not part of the export)"])

_p("C04", modules=["demux", "ports", "keylog", "keylog_unbounded", "framing", "packet_c"], level="other",
   technique="contract-based deductive verification (routing contracts, exact-match contract) + syntactic frame obligations",
   level_text="Proved: matches_session / matches_session_dgram hold iff the packet's 4-tuple equals the session's in one of the two directions (IPv4 and IPv6); main.handle_packet "
              "hands a packet to the first matching session only and creates a session only if none matches; main.handle_quic_packet hands a datagram to exactly one session - "
              "the owner of its non-empty destination connection ID (longest match) or else the address match - and a zero-length ID never attracts packets; "
              "Session.handle_packet buffers per direction; key selection uses exactly the lines with the session's client random; frame obligations: no method of a "
              "per-connection class and no shared helper writes module-level state or class-level mutables.",
   level_note="level 'other': 'exported as if alone' is a whole-run relational statement; it follows from routing + isolation frames by the fold argument in DESIGN 4 C04 (not machine-checked). "
              "4-tuple reuse over time and QUIC connection migration are outside the claim.",
   design_ref="DESIGN.md 4 C04",
   explanation="Routing and isolation obligations discharged per function; the lifting to 'union of per-connection outputs' is the paper fold invariant delivered(S) = subsequence of the capture with S's identity.",
   assumptions=[], trusted_base=[], bounded=BOUNDED_FRAMING, composition_assumptions=["fold invariant over the capture (DESIGN 4 C04)"],
   not_under_contract=["QuicSession.handle_packet's own CID learning (C02)"])


_p("C15", modules=["keys", "quic_session_c", "quic_tls_c", "demux"], level="proof",
   technique="contract-based deductive verification with the cryptographic primitives as uninterpreted functions; per parameter class all PRF loops unroll completely",
   level_text="For all secrets and randoms (symbolic) and every parameter class (12 cipher classes x MAC/PRF hashes; 18 representative suites x valid versions x key-log "
              "label for the installed state): the real key_derivator functions return exactly the RFC 6101 / 2246 / 5246 / 8446 schedules (master secret, key block, "
              "partition with the suite's MAC, key and IV lengths, HKDF-Expand-Label with 'key'/'iv'); Session.generate_keys installs them in the connection's Decryptor "
              "(CLIENT_RANDOM and RSA lines, TLS 1.3 handshake keys first, update_keys switches exactly one direction); quic_key_generation returns the RFC 9001 "
              "Initial / handshake / 0-RTT / 1-RTT / hp / key-update values (HkdfLabel encoding included) and QuicSession installs them in the positions QuicDecryptor "
              "reads, the Initial keys once and for all. The RFC side is written from the RFC text with the same uninterpreted primitives.",
   level_note="proof modulo: hash/HMAC/HKDF are uninterpreted (that `cryptography` implements them is assumed); equality of key material is structural equality of byte terms; "
              "the installed-state harness runs 18 representative suites in the quick tier (all parameter classes) and every table entry in the thorough tier; "
              "QUIC v2 labels and QuicSession.check_key_epoch's epoch bookkeeping are not under contract",
   design_ref="DESIGN.md 4 C15", explanation="",
   assumptions=["cryptography's Hash/HMAC/HKDFExpand/HKDF._extract are functions of their inputs only"],
   trusted_base=["cryptography.hazmat.primitives (hashes, hmac, kdf.hkdf)"],
   not_under_contract=["QuicSession.check_key_epoch (epoch counting)", "QUIC v2 label set"])

_p("C03", modules=["robustness", "demux", "ports", "quic_output", "main_run", "quic_session_c", "quic_keystate", "checksums", "container", "keylog", "keylog_unbounded", "tcp_output", "keys", "framing", "framing_unbounded", "quic_tls_c"], level="other",
   technique="contract-based deductive verification: exception freedom for arbitrary bytes / states with library calls allowed to fail; representation invariant of the QUIC key state; routing + frame obligations for isolation",
   level_text="Proved: for ANY TLS record (>= its 5 header bytes), ANY session flag state, ANY version state and a decryptor that fails or returns arbitrary bytes, the "
              "record reaches handle_tls_record through get_tls_records without an exception leaving get_tls_records (all nine record handlers executed from their real "
              "ASTs, the two parsing loops cut at invariants with variants); without a decryptor an application-data record adds nothing to the export (the gate) and "
              "only (decryptor output, the record, its direction) is ever exported; main.handle_quic_packet raises nothing for any non-empty UDP payload; Session.generate_keys raises at most ValueError (a secret with an odd number of hex "
              "digits) for any subset of key-log lines, labels and suites, and that exception is stopped by the per-record barrier; a DSB's text "
              "never reaches the packet parser; a QUIC session without output contributes nothing. QUIC: the key-state invariant 'a usable header-protection key of a level "
              "implies that level's decryptor' is preserved by set_tls_decryptors for EVERY subset of the connection's key-log lines and every suite (dev_quic_keys and "
              "QuicDecryptor.__init__ executed inline); under it decrypt_packet raises nothing for any packet the dissector can produce; QuicSession.handle_packet's loop over "
              "coalesced packets raises nothing and terminates given the dissector's progress contract; QUICOutputbuilder.build raises nothing for every frame kind handle_frame "
              "buffers, including the Version Negotiation pseudo frame (source packets built by the real constructors); isolation = C04's routing, frame and separation obligations.",
   level_note="level 'other': the dissector's own exception freedom / progress / 'protected packet only with a usable hp key' is discharged in the THOROUGH tier only (about 7 minutes); "
              "the 'at most a prefix of the true plaintext' clause for wrong keys is a statement about AEAD/CBC and is not reached; the lifting from per-function exception freedom to "
              "'the run never fails' is the composition obligation robust.call_graph: the barrier-aware call graph of run() is rebuilt from the sources on every run; every function enterable "
              "outside a try/except-Exception has an exception-freedom contract (several discharged in other properties' runs) or is a stated assumption (Packet.__init__ on truncated "
              "frames = dpkt's parser; read_keylog_from_file exits when the -s file is missing), every function allowed to raise stays behind a barrier; call resolution is syntactic",
   design_ref="DESIGN.md 4 C03, 8.8",
   explanation="Every function between run()'s packet loop and the writers is exception-free by a discharged contract (TLS path, QUIC key state, QUIC builder) except the dissector, whose contract runs in the thorough tier.",
   assumptions=["every library call may raise on any input (cryptography, dpkt), except: AEAD constructors accept keys of their allowed lengths, HKDFExpand(length).derive returns `length` bytes"], trusted_base=[],
   bounded=[{"function": "QuicSession.set_tls_decryptors (key-state invariant)", "bound": "each of the five QUIC-relevant labels at most once per connection (all 32 subsets), one foreign label", "counted_as": "bounded in the multiplicity of labels, unbounded in all values"}],
   not_under_contract=["extract_quic_packet in the QUICK tier (thorough only)"])

_p("C01", modules=["record_protection", "framing", "framing_unbounded", "framing_history", "keys", "cipher_suites", "tcp_output", "robustness", "metadata", "compose_tls", "ports", "packet_c", "demux"], level="other",
   technique="contract-based deductive verification of every link of the TLS pipeline (per-function contracts; primitives uninterpreted); composition on paper",
   level_text="The pipeline is decomposed into links and each link's obligation is discharged on the real code: framing (records released by one extract call = frame(buffered stream), UNBOUNDED loop contract; capture-order history BOUNDED); ServerHello parsing "
              "(random, suite, compression, version rule, and the extension map for ANY number of extensions: hello.server_hello_unbounded, loop contract with the map as the ghost fold 'type -> last "
              "extension of that type'; hello.server_hello repeats it with real dicts for <= 2 extensions incl. zero-length last ones); the wrapper every segment passes through keeps exactly "
              "the decoder's payload, ports and sequence number (packet.init); a session sees secrets appended to the run's key log after it was created; suite resolution (C14, exhaustive); key "
              "schedules and installed keys (C15); handshake state machine (an encrypted handshake record advances exactly its sender's cipher state, iff that sender sent "
              "ChangeCipherSpec); dispatch (finite: version x cipher class -> RFC record-protection function, total); record protection - for every decrypt_* function the "
              "library primitive receives exactly the RFC's key (by direction), nonce, additional data and ciphertext, the result is the content with explicit IV, padding "
              "and MAC removed, only the own direction's state advances and an authentication failure leaves the state unchanged; TLS 1.3 inner plaintext (content || type || "
              "zeros -> content exported exactly for type 23); the TLS 1.3 handshake-message walk (any number of messages of any type: keys switched once per Finished, UNBOUNDED loop contract); "
              "isolation (no mutable state shared between connections or hanging on classes / modules); output (C06/C07).",
   level_note="level 'other': the induction over the record sequence of a direction - the receiver's cipher state follows the sender's and every application record is exported exactly, "
              "in order, once - IS discharged for every cipher class (compose.application_phase: TLS 1.2 / 1.3 AEADs; compose.application_phase_cbc_rc4: explicit-IV CBC, chained-IV CBC of "
              "SSL 3.0 / TLS 1.0 with the residue invariant, RC4 with the keystream-position invariant): loop contracts over any number of records with handle_tls_record, the handlers, "
              "Decryptor.decrypt and decrypt_* executed from their real bodies, the primitives modelled as 'returns the sealed plaintext iff key, nonce / IV / position, ciphertext "
              "(and additional data) are the sender's', frame obligation on everything else; the remaining composition "
              "(handshake phase -> installed keys -> application phase -> output builder) links discharged contracts by their stated pre/postconditions (DESIGN 4 C01); "
              "AES/HMAC/etc. are uninterpreted; ClientHello parsing is a single slice (client random) and not separately contracted; compression (zlib) is not claimed",
   design_ref="DESIGN.md 4 C01",
   explanation="Every listed link is proved per function; what is not machine-checked is their composition into the whole-connection invariant and the cryptography itself.",
   assumptions=UNBOUNDED_FRAMING_ASSUMPTIONS + ["dec(enc(x)) = x for CBC/stream contexts; AEAD decrypt returns the protected plaintext or raises InvalidTag"],
   trusted_base=["cryptography (AEAD, Cipher, modes)"], bounded=BOUNDED_FRAMING,
   composition_assumptions=["the handshake phase ends in the state the application phase starts from (keys.installed post-state = compose.application_phase pre-state)"],
   not_under_contract=["Decryptor.inflate (compression)", "Session.handle_tls_client_hello (one slice)"])

_p("C02", modules=["quic_session_c", "quic_crypto_unbounded", "quic_keystate", "quic_dissector_c", "quic_tls_c", "quic_output", "demux", "quic_pkn", "keys", "quic_varint", "quic_frame", "robustness"], level="other",
   technique="contract-based deductive verification of the links of the QUIC pipeline (dissector field extraction and CRYPTO reassembly loop included); one bounded composition cross-check",
   level_text="Links discharged on the real code: routing by connection ID / address (demux.quic_routing, any IDs incl. zero-length); header-protection removal and packet-number "
              "reconstruction (C16); keys (C15: Initial once and for all, handshake/0-RTT/1-RTT, key update generations); decrypt_packet opens each packet with the decryptor "
              "of its type/epoch, the reconstructed packet number and the RFC 9001 5.3 associated data (header through packet number) and handles the parsed frames once, in "
              "order; frames (C17, unbounded); handle_frame appends STREAM (and CRYPTO) frames in order and registers NEW_CONNECTION_ID for its sender; Retry resets exactly the "
              "handshake state; CRYPTO reassembly: UNBOUNDED per-call loop contract of update_session (quic.crypto_unbounded: any number of buffered fragments, gaps and duplicates "
              "included - what is handed on is always the stream's next contiguous piece, consumed fragments leave the buffer, a gap-free run is delivered completely), the "
              "composition over whole arrival orders BOUNDED to 3 fragments; output grouping per capture timestamp "
              "with direction and payload (transition relation + final flush).",
   level_note="level 'other': extract_quic_packet is under contract for datagrams laid out as RFC 9000 17.2/17.3 say (quic.dissector.*: every field, the Length-delimited payload, the "
              "bytes left for the next coalesced packet, the header-protection sample/key/algorithm; all connection-ID lengths, varint widths, packet-number lengths) and, in the "
              "thorough tier, for arbitrary bytes (no exception, progress); QuicSession.handle_packet (every coalesced packet dissected with the CURRENT keys and suite), handle_crypto_frame "
              "(keys follow the negotiated suite) and check_key_epoch are under contract; the composition into 'one output datagram per input datagram' is on paper; AEADs are uninterpreted",
   design_ref="DESIGN.md 4 C02",
   explanation="All links are proved per function (the CRYPTO reassembly scan without bound per call; its composition over arrival orders within a bound); the end-to-end composition is a paper argument.",
   assumptions=["struct.unpack_from splits a buffer by a format of B and <n>s items (assumed contract of the struct module)",
                "quic.crypto_unbounded: list.sort(key) leaves a stable permutation in key order; every buffered CRYPTO fragment carries the bytes of one stream at its offset and "
                "crypto_length = len(crypto) (frame contract, C17); the fold cur(i)/took(i) is a ghost definition instantiated at the indices the loop touches; lifting the per-call "
                "contract to 'all fragments of a cut, in any order' is a paper induction over the calls (cross-checked by the bounded harness)"], trusted_base=["cryptography AEADs", "struct"],
   bounded=[{"function": "QuicTlsSession.update_session composed over a whole arrival order (quic.crypto_reassembly)", "bound": "a CRYPTO stream prefix cut into <= 3 fragments (any cut points, any order)",
            "counted_as": "bounded cross-check of the composition; the per-call contract of the scan loop is discharged WITHOUT bound by quic.crypto_unbounded.update_session (list.sort's contract assumed)"}],
   not_under_contract=["QuicTlsSession.get_extensions / get_quic_transport_parameters (ALPN, grease bit: not needed for the exported data)"])

_p("C13", modules=["metadata", "quic_output", "tcp_output", "robustness", "record_protection", "compose_tls"], level="other",
   technique="contract-based deductive verification: two-run (product) contract on the record handler + builder contracts parametrised by the flag",
   level_text="Proved: for every non-hello record, session state and decryptor behaviour, handle_tls_record run with exp_meta False and True ends with identical flags, identical "
              "decryptor call sequence and identical application-data entries; with -a the only additions are entries carrying that very record (ChangeCipherSpec and alert "
              "records verbatim); -a never turns a quiet record into an exception; OutputBuilder.build hands every record to the builder of its direction with its own plaintext, "
              "in list order, whatever else is in the list; QUICOutputbuilder.build keeps every STREAM frame's data, in order and direction, for both values of the flag "
              "(the kept-data clause of its transition relation); the TLS 1.3 inner-plaintext handler exports exactly the content for type 23.",
   level_note="level 'other': the ClientHello/ServerHello branch (hello parsing + key generation) is excluded from the product harness by precondition; that it cannot depend on -a is a "
              "discharged frame obligation (metadata.flag_is_read_only_where_it_may_add_packets: the flag is written by the constructor only and read only in the functions under the "
              "product contract; builder, decryptor and records never see it); 'same payloads in the same order' for whole runs is the composition of these per-call contracts",
   design_ref="DESIGN.md 4 C13", explanation="Per-record and per-builder obligations discharged for both values of the flag; the whole-run subsequence statement is their composition (paper).",
   assumptions=[], trusted_base=[], not_under_contract=["handle_tls_client_hello / handle_tls_server_hello under the product harness"])

_p("C08", modules=["quic_crypto_unbounded", "prefix", "framing", "framing_unbounded", "framing_history", "tcp_output", "quic_output", "main_run", "demux", "compose_tls"], level="other",
   technique="syntactic frame obligations (append-only accumulators, no look-ahead) + bounded product contract + builder transition relations",
   level_text="The export is a left fold over the capture. Discharged: every accumulating list (packet_buffer, application_traffic, output_buffer, the builders' out lists, "
              "main's session/key lists after the reset) is append-only; each fold loop reads its input only through its loop variable (no look-ahead, no second pass); "
              "records delivered from the first k captured segments are a prefix of those from all segments (product contract, bounded to 3 segments / 14 bytes, all "
              "orders incl. the open finding's region); the builders' per-iteration transition relations depend on the current element and the accumulated state only; "
              "records are released only when whole (framing.unbounded, proved for any number of segments).",
   level_note="level 'other': the prefix property of the DECRYPTED bytes needs 'decrypting a prefix of the records yields a prefix of the plaintext' - true for the record-at-a-time "
              "protection proved in C01 (state advances per record) but the end-to-end statement is not derived; QUIC's last datagram group is flushed at end of input and a cut "
              "inside a group cannot occur (datagrams are atomic); frame obligations are syntactic and conservative",
   design_ref="DESIGN.md 4 C08", explanation="Causality of the fold is established by frame obligations and a bounded product contract; the crypto step is per record (C01) and the lifting is on paper.",
   assumptions=UNBOUNDED_FRAMING_ASSUMPTIONS, trusted_base=[], bounded=BOUNDED_FRAMING, not_under_contract=[])


_p("C12", modules=["container", "container_unbounded", "main_run", "packet_c"], level="other",
   technique="contract-based deductive verification: unbounded loop contracts for Reader.__iter__ (ghost block list) and Reader.__init__ (search for the first interface description over any "
             "number of blocks; option scan over any number of options); a byte-level file model within a stated bound as cross-check; dpkt block classes as assumed records",
   level_text="UNBOUNDED (container.unbounded.iter: a file of ANY number of blocks, both byte orders): per block, Reader.__iter__ stands at the block's offset, yields exactly one "
              "(if_tsoffset + ((ts_high << 32) | ts_low) / divisor, packet data) for an Enhanced Packet or obsolete Packet block, exactly one (-1, secrets) for a decryption-secrets block "
              "wherever it sits, nothing for any other block, then stands at the next block; iteration ends only at the end of the file. "
              "UNBOUNDED (container.unbounded.init): Reader.__init__ skips ANY number of non-interface blocks, decodes exactly the first Interface Description Block in the section's byte "
              "order, and over ANY number of its options leaves divisor = 10^6 / 10^v / 2^(v & 0x7f) of the LAST if_tsresol option and offset = 0 / signed 64-bit value of the LAST "
              "if_tsoffset option (ghost fold, defaults pinned by the invariant at loop entry). "
              "BOUNDED cross-check (one section, one interface, <= 2 blocks before and <= 3 after the interface description; block sizes, contents, field values, option values symbolic; "
              "both byte orders): tlexport.dpkt_dsb.Reader.__init__ and __iter__ executed from their real ASTs over a byte-level file yield, in file order, one item per packet "
              "block (EPB and obsolete PB) with timestamp if_tsoffset + ((ts_high << 32) | ts_low) / divisor - divisor 10^v, or 2^(v & 0x7f) when the MSB of if_tsresol is set, "
              "default 10^6 - and the block's packet data, one (-1, secrets) per decryption-secrets block WHEREVER it sits (also before the interface description), and nothing for "
              "other block types. UNBOUNDED: everything run() does after the reader depends on (ts, buf) alone, and the reader class is chosen by -l only (run.packet_branches).",
   level_note="level 'other' and bounded: floating-point timestamp arithmetic is an uninterpreted expression compared structurally (the last-ulp difference between nanosecond and "
              "microsecond captures noted in DESIGN 4 C12 is not analysed); dpkt.pcap.Reader (legacy pcap) and dpkt's block classes are assumed; multiple sections / interfaces "
              "are outside the bound",
   design_ref="DESIGN.md 4 C12", explanation="The pcapng reader is checked against the block grammar within a bound; legacy pcap equivalence lives entirely inside dpkt and is assumed.",
   assumptions=["dpkt.pcapng block classes decode the fields the pcapng specification names, in the byte order of the class",
                "dpkt.Packet(buf) == unpack(buf) on a fresh instance with __hdr__ decoded in __byte_order__"],
   trusted_base=["dpkt.pcapng block classes", "dpkt.pcap.Reader"],
   bounded=[{"function": "tlexport.dpkt_dsb.Reader.__init__/__iter__, DecryptionSecretBlock.unpack", "bound": "1 section, 1 interface, <= 2 + 3 further blocks", "counted_as": "bounded"}],
   not_under_contract=["dpkt.pcap.Reader", "Reader.dispatch/loop/readpkts (unused by run)"])

from . import common  # noqa: E402,F401  (registers the real-constructor completers for ctx.obj)
