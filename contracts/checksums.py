"""C11: Internet checksum (RFC 1071) and the TCP/UDP verdict under -c (RFC 793 3.1, RFC 768, RFC 8200 8.1).

Oracle (receiver rule): a segment is intact iff the one's-complement sum over pseudo-header ++ segment,
checksum field INCLUDED, folds to 0xFFFF.  sum16 is an uninterpreted function S with S(0)=0 and
S(k+1) = S(k) + word(k); proofs use ghost unfolding at the loop counter, the two arithmetic lemmas about
S are proved by induction in lemma harnesses (base + step obligations)."""
from pyvc.api import harness, summary, len_, ite, cat, const, be, eq, band, bor, implies, bnot

CK = "tlexport.checksums"


def fold(s):
    """end-around carry, closed form: the representative of s modulo 0xFFFF in 1..0xFFFF (0 only for 0)"""
    return ite(s == 0, 0, (s - 1) % 65535 + 1)


def word(a, k):
    return a[2 * k] * 256 + a[2 * k + 1]


def pad(c, a):
    n = len_(a)
    if n % 2 == 0:
        return a
    return cat(a, const(b"\x00"))


def native_sum16(a):
    a = bytes(a)
    if len(a) % 2:
        a += b"\x00"
    return sum(a[i] * 256 + a[i + 1] for i in range(0, len(a), 2))


@harness("C11", "cksum.ones_complement", functions=[CK + ".ones_complement_checksum"])
def h_ones(c):
    """result = be2(0xFFFF - fold(sum16(pad(a)))), never raises, argument not modified"""
    a = c.bytes("byte_arr")
    arg = c.bytearray_of(a)
    ap = pad(c, a)
    m = len_(ap) // 2
    if c.native:
        s = native_sum16(a)
    else:
        S = c.uf("sum16")
        c.assume(S(0) == 0)
        s = S(m)

        def unfold(phase, e):
            if phase == "havoc":
                k = e.it
                c.assume(implies(k < m, (S(k + 1) == S(k) + word(ap, k)) & (S(k) >= 0)))
        c.loop(CK + ".ones_complement_checksum", "for i in range(0, len(checksum_arr), 2)",
               invariant=lambda e: (e.checksum == S(e.it)) & (e.checksum >= 0), ghost_step=unfold)
        c.loop(CK + ".ones_complement_checksum", "while checksum >",
               invariant=lambda e: (e.checksum % 65535 == s % 65535) & (e.checksum >= 0) & (e.checksum <= s)
               & ((e.checksum == 0) == (s == 0)),
               decreases=lambda e: e.checksum)
        c.assume(s >= 0)
    if c.native:
        # follow-up search around the model: arrays whose sums sit on the folding boundaries
        for cand in (b"\xff\xff\x00\x01", b"\xff\xff\xff\xff\x00\x01", b"\xff\xff", b"\xff\xff\xff\xff", b"", b"\x01",
                     b"\xff\xfe\x00\x01", b"\xff\xff\x00\x02", bytes(a) + b"\xff\xff\x00\x01"):
            o2 = c.call(CK + ".ones_complement_checksum", bytearray(cand))
            c.ensure("no_raise", o2.exc is None, kind="raises")
            if o2.exc is None:
                c.ensure("value", be(o2.value) == 65535 - fold(native_sum16(cand)))
    out = c.call(CK + ".ones_complement_checksum", arg)
    c.ensure("no_raise", out.exc is None, kind="raises")
    if out.exc is not None:
        return
    c.ensure("length", len_(out.value) == 2)
    c.ensure("value", be(out.value) == 65535 - fold(s))
    c.ensure("argument_unchanged", eq(c.bytes_val(arg), a))
    c.cover("reached")


h_ones.must_cover = ["reached"]


@summary(CK + ".ones_complement_checksum")
def s_ones(ctx, byte_arr):
    """call-site contract (proved by cksum.ones_complement): returns the two bytes of 0xFFFF - fold(s) where
    s = sum16 of the padded argument; the sum is exposed to the caller as ghost state."""
    a = ctx.bytes_val(byte_arr)
    s = ctx.fresh_int("sum16", 0, None)
    ctx.ghost.setdefault("sums", []).append((a, s))
    v = 65535 - fold(s)
    return ctx.bytearray_of(ctx.encode_be("cks", v, 2))


@harness("C11", "lemma.sum16_update", functions=[])
def h_lemma_update(c):
    """lemma (induction on k): if arrays A and B agree on every 16-bit word except word w, then
    S_B(k) = S_A(k) + (k > w ? word_B(w) - word_A(w) : 0).  Base and step are two obligations."""
    if c.native:
        return
    SA, SB, WA, WB = c.uf("SA"), c.uf("SB"), c.uf("wordA"), c.uf("wordB")
    w = c.int("w", 0, None)
    k = c.int("k", 0, None)
    d = WB(w) - WA(w)

    def P(j):
        return SB(j) == SA(j) + ite(j > w, d, 0)
    c.assume((SA(0) == 0) & (SB(0) == 0))
    c.ensure("base", P(0), kind="lemma")
    c.assume(P(k))                                              # induction hypothesis
    c.assume((SA(k + 1) == SA(k) + WA(k)) & (SB(k + 1) == SB(k) + WB(k)))   # definition of sum16 at k
    c.assume(implies(k != w, WA(k) == WB(k)))                   # arrays agree off w
    c.ensure("step", P(k + 1), kind="lemma")


@harness("C11", "lemma.field_vs_receiver", functions=[])
def h_lemma_field(c):
    """for a positive sum s0 over everything but the checksum field f (0 <= f <= 0xFFFF):
    the receiver accepts (fold(s0 + f) == 0xFFFF)  <=>  f == 0xFFFF - fold(s0), or fold(s0) == 0xFFFF and f in {0, 0xFFFF}."""
    if c.native:
        return
    s0 = c.int("s0", 1, None)
    f = c.int("f", 0, 65535)
    calc = 65535 - fold(s0)
    recv = fold(s0 + f) == 65535
    c.ensure("iff", recv == bor(f == calc, band(calc == 0, f == 65535)), kind="lemma")


def make_packet(c, l4, ipv6):
    alen = 16 if ipv6 else 4
    src, dst = c.bytes("ip_src", length=alen), c.bytes("ip_dst", length=alen)
    proto = c.int("proto", 1, 255)          # next-header / protocol number of the pseudo-header (6 or 17 in practice)
    seg = c.bytes("segment", min_len=20 if l4 == "tcp" else 8, max_len=65535)
    off = 16 if l4 == "tcp" else 6
    field = be(seg[off:off + 2])            # dpkt: tcp.sum / udp.sum is the checksum field of the captured segment
    l4rec = c.record("dpkt." + l4, sum=field, __bytes__=seg)
    ip = c.record("dpkt.ip6" if ipv6 else "dpkt.ip", data=l4rec, **({"nxt": proto} if ipv6 else {"p": proto, "sum": c.int("ip_header_checksum", 0, 65535)}))
    if c.native:
        c.set(ip, "data", l4rec)     # (records have no dpkt behaviour natively: a model that needs dpkt's write-back does not replay)
        ip = c.record("dpkt.ip6" if ipv6 else "dpkt.ip", data=l4rec, __bytes__=b"\x45" + bytes(19), **({"nxt": proto} if ipv6 else {"p": proto, "sum": 0}))
    if not c.native:
        # assumed contract of dpkt 1.9.8 (read from its source): serialising an IP / IP6 object is NOT pure - when the transport
        # checksum field of the parsed segment is zero (and, for IPv4, the header checksum is zero too) __bytes__ computes the
        # correct checksum and WRITES IT BACK into ip.data.sum, which is the very object Packet exposes as .tcp / .udp
        def ip_bytes(I, o):
            d = o.attrs["data"]
            may = d.attrs["sum"] == 0
            if not ipv6:
                may = band(may, o.attrs["sum"] == 0)
            if I.truth(may):
                d.attrs["sum"] = c.fresh_int("checksum_written_back_by_dpkt", 0, 65535)
            return c.bytes_fresh("ip_packet_bytes", 20, None)
        c.lib_model_raw("dpkt.ip6.__bytes__" if ipv6 else "dpkt.ip.__bytes__", ip_bytes)
    attrs = dict(ipv6_packet=ipv6, ip_src=src, ip_dst=dst, ip=ip)
    attrs[l4] = l4rec
    pkt = c.obj("tlexport.packet.Packet", **attrs)
    if ipv6:   # RFC 8200 8.1: src, dst, 32-bit upper-layer length, 3 zero bytes, next header
        ph = cat(src, dst, c.encode_be("ulen", len_(seg), 4), const(b"\x00\x00\x00"), c.bytes_of([proto]))
    else:      # RFC 793 3.1 / RFC 768: src, dst, zero, protocol, 16-bit length
        ph = cat(src, dst, const(b"\x00"), c.bytes_of([proto]), c.encode_be("ulen", len_(seg), 2))
    return pkt, ph, seg, off, field


def _pseudo(ph, seglen, ipv6):
    ph = bytes(ph)
    if ipv6:
        return ph[:32] + seglen.to_bytes(4, "big") + ph[36:]
    return ph[:10] + seglen.to_bytes(2, "big")


@harness("C11", "cksum.verdict", functions=[CK + ".calculate_checksum_tcp", CK + ".calculate_checksum_udp"],
         cases=[(l4, v6) for l4 in ("tcp", "udp") for v6 in (False, True)])
def h_verdict(c, l4, ipv6):
    """calculate_checksum_<l4>(packet) never raises and returns True exactly when the receiver rule accepts
    the segment (pseudo-header per RFC, any length, any checksum value)."""
    pkt, ph, seg, off, field = make_packet(c, l4, ipv6)
    if l4 == "udp" and not ipv6:
        c.assume(field != 0)     # RFC 768: an all-zero field means 'no checksum'; outside the claim (DESIGN C11)
    c.ghost = {}
    out = c.call(CK + ".calculate_checksum_" + l4, pkt)
    c.ensure("no_raise", out.exc is None, kind="raises")
    if out.exc is not None:
        return
    full = cat(ph, seg)
    if c.native:
        s_full = native_sum16(full)
        c.assume(s_full - field > 0)
        c.ensure("verdict_is_receiver_rule", bool(out.value) == (fold(s_full) == 65535))
        # follow-up search around the model: same packet with a trailing word chosen so that the sum without
        # the field folds to 0xFFFF / 0x0001 / ..., and the field set to each interesting value
        base = bytearray(seg)
        base[off:off + 2] = b"\x00\x00"
        if len(base) % 2:
            base += b"\x00"
        for target in (65535, 1, 2, 65534):
            for fld in (None, 0, 65535, 1):
                s2 = bytearray(base) + b"\x00\x00"
                # pseudo-header length field changes with the segment length: recompute through the real code path
                m2 = dict(c.model)
                probe = bytes(s2)
                ph2 = _pseudo(ph, len(probe), ipv6)
                s0 = native_sum16(ph2 + probe)
                wv = (target - s0) % 65535
                s2[-2:] = wv.to_bytes(2, "big")
                s0 = native_sum16(ph2 + bytes(s2))
                f = (65535 - fold(s0)) if fld is None else fld
                if l4 == "udp" and not ipv6 and f == 0:
                    continue
                s2[off:off + 2] = f.to_bytes(2, "big")
                m2["segment"] = {"hex": bytes(s2).hex()}
                c2 = type(c)(m2, c.harness, c.case)
                pkt2, ph3, seg2, _, field2 = make_packet(c2, l4, ipv6)
                o2 = c.call(CK + ".calculate_checksum_" + l4, pkt2)
                c.ensure("no_raise", o2.exc is None, kind="raises")
                if o2.exc is None:
                    c.ensure("verdict_is_receiver_rule", bool(o2.value) == (fold(native_sum16(ph3 + seg2)) == 65535))
        return
    sums = c.ghost.get("sums", [])
    c.ensure("sums_once", len(sums) == 1)
    if len(sums) != 1:
        return
    A, s_code = sums[0]
    # the code summed pseudo-header ++ segment with the checksum field zeroed: same bytes as the RFC's
    # data except the 16-bit word holding the field (aligned: pseudo-header and offset are even)
    woff = len_(ph) + off
    c.ensure("summed.length", len_(A) == len_(full))
    from pyvc.api import forall
    c.ensure("summed.same_bytes_off_field",
             forall(lambda i: bor((i >= woff) & (i < woff + 2), A[i] == full[i]), 0, len_(full)))
    c.ensure("summed.field_zeroed", (A[woff] == 0) & (A[woff + 1] == 0))
    c.ensure("summed.field_aligned", woff % 2 == 0)
    # lemma.sum16_update (proved by induction) with word_A(w) = 0, word_B(w) = field:
    s_full = s_code + field
    c.assume(s_code > 0)       # the pseudo-header contains the non-zero protocol number, all words are >= 0
    # lemma.field_vs_receiver then gives the receiver rule; here it is simply re-proved on the instance
    c.ensure("verdict_is_receiver_rule", eq(c.truth(out.value), fold(s_full) == 65535))
    c.cover("reached")


h_verdict.must_cover = ["reached"]
