"""C14: finite-domain enumeration (complete) of split_cipher_suite on the real code + the symbolic
obligation for the KeyError path (any 2-byte id outside the table -> None, no exception)."""
import json
import os
import subprocess
import time

from pyvc.api import harness, len_

CSP = "tlexport.cipher_suite_parser"
HERE = os.path.dirname(os.path.dirname(os.path.abspath(__file__)))


def enumerate_all(tier, seed):
    t0 = time.time()
    env = dict(os.environ)
    env["PYTHONPATH"] = HERE
    p = subprocess.run([os.environ.get("TLEXPORT_NATIVE_PY", "/venv/bin/python"), "-m", "contracts.cipher_suites_native"],
                       cwd=HERE, env=env, capture_output=True, text=True, timeout=600)
    dt = time.time() - t0
    obs = []
    try:
        doc = json.loads(p.stdout.strip().splitlines()[-1])
    except Exception:
        return [{"name": "cipher_suite.enumeration", "verdict": "unknown", "time_s": dt, "backend": "enumeration",
                 "kind": "dispatch", "detail": "native enumeration failed: " + p.stderr[-1500:]}]
    failing = {f["code"]: f for f in doc["failures"]}
    for code in doc["accepted"]:
        f = failing.pop(code, None)
        ob = {"name": "cipher_suite.accepted[%s]" % code, "verdict": "refuted" if f else "discharged",
              "time_s": 0.0, "backend": "enumeration", "kind": "dispatch"}
        if f:
            ob["model"] = {"suite_id": code}
            ob["native"] = {"reproduced": True, "input": code, "observed": f}
        obs.append(ob)
    rest_bad = list(failing.values())
    ob = {"name": "cipher_suite.all_other_code_points_rejected_without_exception", "verdict": "refuted" if rest_bad else "discharged",
          "time_s": dt, "backend": "enumeration", "kind": "dispatch",
          "detail": "%d code points evaluated on the real function, %d accepted" % (doc["evaluations"], len(doc["accepted"]))}
    if rest_bad:
        ob["model"] = {"suite_id": rest_bad[0]["code"]}
        ob["native"] = {"reproduced": True, "observed": rest_bad[:5]}
    obs.append(ob)
    ok = doc["evaluations"] == 65536 and len(doc["accepted"]) >= 1
    obs.append({"name": "cipher_suite.vacuity(65536 evaluated, >=1 accepted)", "verdict": "discharged" if ok else "unknown",
                "time_s": 0.0, "backend": "enumeration", "kind": "cover"})
    return obs


@harness("C14", "cipher_suite.keyerror_path", functions=[CSP + ".split_cipher_suite"])
def h_unknown(c):
    """symbolic: for ANY byte string that is not a key of the table (any length, not just 2 bytes) the
    function returns None and raises nothing (the hex() in the log message is evaluated)."""
    sid = c.bytes("suite_id", max_len=8)
    table = c.const_of(CSP + ".cipher_suites")
    for k in table:
        c.assume(sid != k) if len(k) != 2 else c.assume((len_(sid) != 2) | (sid[0] != k[0]) | (sid[1] != k[1]))
    out = c.call(CSP + ".split_cipher_suite", sid)
    c.ensure("no_raise", out.exc is None, kind="raises")
    if out.exc is None:
        c.ensure("returns_none", out.value is None)
