"""C14: finite-domain enumeration (complete) of split_cipher_suite on the real code + the symbolic
obligation for the KeyError path (any 2-byte id outside the table -> None, no exception)."""
import json
import os
import subprocess
import time

from pyvc.api import harness, len_, eq, bnot

CSP = "tlexport.cipher_suite_parser"
HERE = os.path.dirname(os.path.dirname(os.path.abspath(__file__)))


def enumerate_all(tier, seed):
    t0 = time.time()
    env = dict(os.environ)
    env["PYTHONPATH"] = HERE
    p = subprocess.run([os.environ.get("TLEXPORT_NATIVE_PY", "/venv/bin/python"), "-m", "contracts.cipher_suites_native"],
                       cwd=HERE, env=env, capture_output=True, text=True, timeout=600)
    dt = time.time() - t0
    obs = []
    try:
        doc = json.loads(p.stdout.strip().splitlines()[-1])
    except Exception:
        return [{"name": "cipher_suite.enumeration", "verdict": "unknown", "time_s": dt, "backend": "enumeration",
                 "kind": "dispatch", "detail": "native enumeration failed: " + p.stderr[-1500:]}]
    failing = {f["code"]: f for f in doc["failures"]}
    for code in doc["accepted"]:
        f = failing.pop(code, None)
        ob = {"name": "cipher_suite.accepted[%s]" % code, "verdict": "refuted" if f else "discharged",
              "time_s": 0.0, "backend": "enumeration", "kind": "dispatch"}
        if f:
            ob["model"] = {"suite_id": code}
            ob["native"] = {"reproduced": True, "input": code, "observed": f}
        obs.append(ob)
    rest_bad = list(failing.values())
    ob = {"name": "cipher_suite.all_other_code_points_rejected_without_exception", "verdict": "refuted" if rest_bad else "discharged",
          "time_s": dt, "backend": "enumeration", "kind": "dispatch",
          "detail": "%d code points evaluated on the real function, %d accepted" % (doc["evaluations"], len(doc["accepted"]))}
    if rest_bad:
        ob["model"] = {"suite_id": rest_bad[0]["code"]}
        ob["native"] = {"reproduced": True, "observed": rest_bad[:5]}
    obs.append(ob)
    unstable = doc.get("unstable", [])
    ob = {"name": "cipher_suite.same_answer_on_every_later_call(3 sweeps, both orders)", "verdict": "refuted" if unstable else "discharged", "time_s": 0.0,
          "backend": "enumeration", "kind": "dispatch"}
    if unstable:
        ob["model"] = {"suite_id": unstable[0]["code"]}
        ob["native"] = {"reproduced": True, "observed": unstable[:5]}
    obs.append(ob)
    ok = doc["evaluations"] == 65536 and len(doc["accepted"]) >= 1
    obs.append({"name": "cipher_suite.vacuity(65536 evaluated, >=1 accepted)", "verdict": "discharged" if ok else "unknown",
                "time_s": 0.0, "backend": "enumeration", "kind": "cover"})
    return obs


@harness("C14", "cipher_suite.keyerror_path", functions=[CSP + ".split_cipher_suite"])
def h_unknown(c):
    """symbolic: for ANY byte string that is not a key of the table (any length, not just 2 bytes) the
    function returns None and raises nothing (the hex() in the log message is evaluated)."""
    sid = c.bytes("suite_id", max_len=8)
    table = c.const_of(CSP + ".cipher_suites")
    for k in table:
        c.assume(bnot(eq(sid, k)))
    out = c.call(CSP + ".split_cipher_suite", sid)
    c.ensure("no_raise", out.exc is None, kind="raises")
    if out.exc is None:
        c.ensure("returns_none", out.value is None)


QSESS = "tlexport.quic.quic_session.QuicSession"
_AEAD = "cryptography.hazmat.primitives.ciphers.aead."


@harness("C14", "cipher_suite.quic_selection", functions=[QSESS + ".set_tls_decryptors"])
def h_quic_selection(c):
    """the QUIC path has its own code-point switch: for ANY 2-byte id it either reports the suite as unsupported
    (can_decrypt False, nothing selected) or selects AEAD class, key length and hash that the IANA name of that
    code point denotes - with the AEAD's full 16-byte tag, which excludes CCM_8 (RFC 9001 5.3)."""
    import json
    import os
    from contracts.cipher_suites_native import params_of_name
    oracle = json.load(open(os.path.join(HERE, "specs", "iana_tls_cipher_suites.json")))["suites"]
    sid = c.bytes("ciphersuite", length=2)
    s = c.obj(QSESS, keylog=[], hash_fun=None, cipher=None, key_length=None, can_decrypt=True, keys={}, decryptors={},
              quic_version=c.enum("tlexport.quic.quic_decode.QuicVersion", "V1"), early_traffic_keys=False)
    c.summary_override("tlexport.quic.quic_key_generation.dev_quic_keys", lambda ctx, *a, **k: {})
    out = c.method(s, "set_tls_decryptors", c.bytes("client_random", length=32), sid)
    c.ensure("no_raise", out.exc is None, kind="raises")
    sel = c.get(s, "cipher")
    if sel is None:
        c.ensure("rejected.flagged", c.get(s, "can_decrypt") is False)
        c.ensure("rejected.nothing_selected", c.get(s, "hash_fun") is None and c.get(s, "key_length") is None)
        c.cover("rejected")
        return
    code = c.concrete(sid[0]) * 256 + c.concrete(sid[1])
    name = oracle.get("%04X" % code)
    want = params_of_name(name) if name else None
    c.ensure("accepted.registered_and_supported[%04x]" % code, want is not None)
    if want is None:
        return
    cls = {"GCM": "AESGCM", "CCM": "AESCCM", "POLY1305": "ChaCha20Poly1305"}[want["mode"]]
    c.ensure("accepted.aead_class[%04x]" % code, c.is_external(sel, _AEAD + cls))
    c.ensure("accepted.key_length[%04x]" % code, c.get(s, "key_length") == want["key_len"])
    c.ensure("accepted.hash[%04x]" % code, c.is_external(c.get(s, "hash_fun"), "cryptography.hazmat.primitives.hashes." + want["hash"]))
    c.ensure("accepted.full_tag[%04x]" % code, want["tag"] == 16)      # QuicDecryptor builds the AEAD with its default 16-byte tag
    c.cover("accepted")


h_quic_selection.must_cover = ["accepted", "rejected"]
