"""C14 by exhaustion: evaluates the REAL split_cipher_suite on all 65 536 code points (run under
/venv/bin/python) and compares with parameters derived from the IANA name by an independent token parser.
Prints one JSON document: {"evaluations":..., "failures":[...], "accepted":[...]}"""
import json
import logging
import os
import sys
import warnings

warnings.simplefilter("ignore")
REPO = os.environ.get("TLEXPORT_REPO", "/repo")
sys.path.insert(0, REPO)
HERE = os.path.dirname(os.path.dirname(os.path.abspath(__file__)))

SUPPORTED_BULK = {"AES", "CAMELLIA", "3DES", "IDEA", "RC4", "CHACHA20"}


def params_of_name(name):
    """independent token parser: IANA name -> (bulk, key_len, mode, aead, tag_len, hash) or None if the
    bulk cipher is outside TLExport's documented support (RC4/3DES/IDEA/AES/Camellia/ChaCha20)"""
    if not name.startswith("TLS_"):
        return None
    body = name[4:]
    if "_WITH_" in body:
        body = body.split("_WITH_", 1)[1]
    toks = body.split("_")
    bulk = toks[0]
    if bulk not in SUPPORTED_BULK:
        return None
    i = 1
    key_len = None
    if bulk in ("AES", "CAMELLIA"):
        key_len = {"128": 16, "256": 32}.get(toks[i])
        i += 1
    elif bulk == "3DES":
        if toks[i] != "EDE":
            return None
        key_len = 24
        i += 1
    elif bulk == "IDEA":
        key_len = 16
    elif bulk == "RC4":
        key_len = {"128": 16}.get(toks[i])      # RC4_40 (export) is not a supported key length
        i += 1
    elif bulk == "CHACHA20":
        key_len = 32
    if key_len is None:
        return None
    mode, aead, tag = None, 0, 16
    if bulk == "RC4":
        mode = None
    else:
        mode = toks[i]
        i += 1
        if mode not in ("CBC", "GCM", "CCM", "POLY1305"):
            return None
        aead = 1 if mode in ("GCM", "CCM", "POLY1305") else 0
        if mode == "CCM" and i < len(toks) and toks[i] == "8":
            tag = 8
            i += 1
    rest = toks[i:]
    if not rest:
        h = "SHA256"            # RFC 6655: CCM suites use the TLS 1.2 default PRF hash
    elif rest == ["SHA"]:
        h = "SHA1"
    elif rest in (["SHA256"], ["SHA384"], ["MD5"]):
        h = rest[0]
    else:
        return None
    return {"bulk": bulk, "key_len": key_len, "mode": mode, "aead": aead, "tag": tag, "hash": h}


def observed(res):
    """project the real function's result onto the same vocabulary"""
    algo, algo_aead = res["CryptoAlgo"]
    mode = res["Mode"][0]
    an = algo.__name__
    bulk = {"AES": "AES", "AESGCM": "AES", "AESCCM": "AES", "TripleDES": "3DES", "Camellia": "CAMELLIA", "IDEA": "IDEA",
            "ARC4": "RC4", "ChaCha20Poly1305": "CHACHA20"}.get(an, an)
    mn = None if mode is None else {"CBC": "CBC", "GCM": "GCM", "AESCCM": "CCM", "ChaCha20Poly1305": "POLY1305"}.get(mode.__name__, mode.__name__)
    if an == "AESGCM":
        mn = "GCM" if mn in ("GCM", None) else mn
    aead = 1 if (algo_aead or res["Mode"][1]) else 0
    return {"bulk": bulk, "key_len": res["KeyLength"], "mode": mn, "aead": aead, "tag": res["TagLength"],
            "hash": res["MAC"].__name__, "algo_class": an}


def main():
    logging.disable(logging.CRITICAL)
    from tlexport import cipher_suite_parser as csp
    oracle = json.load(open(os.path.join(HERE, "specs", "iana_tls_cipher_suites.json")))["suites"]
    failures, accepted = [], []
    first = {}
    n = 0
    for code in range(65536):
        sid = code.to_bytes(2, "big")
        n += 1
        try:
            res = csp.split_cipher_suite(sid)
            first[code] = None if res is None else json.dumps(observed(res), sort_keys=True)
        except Exception as e:
            first[code] = "raised " + type(e).__name__
            failures.append({"code": sid.hex(), "what": "raised %s: %s" % (type(e).__name__, e)})
            continue
        name = oracle.get("%04X" % code)
        want = params_of_name(name) if name else None
        if res is None:
            continue        # 'reported as unsupported': always allowed by the property
        accepted.append(sid.hex())
        given = csp.cipher_suites.get(sid)
        if name is None:
            failures.append({"code": sid.hex(), "what": "accepted but not an IANA-registered code point", "given_name": given})
            continue
        if given != name:
            failures.append({"code": sid.hex(), "what": "name differs from the IANA name", "given_name": given, "iana": name})
            continue
        if want is None:
            failures.append({"code": sid.hex(), "what": "accepted although the bulk cipher/parameters are outside the supported set", "iana": name})
            continue
        got = observed(res)
        diff = {k: (got[k], want[k]) for k in want if got[k] != want[k]}
        # class-level consistency: AEAD suites must carry the AEAD class of their mode
        cls_ok = {"GCM": "AESGCM", "CCM": "AESCCM", "POLY1305": "ChaCha20Poly1305"}.get(want["mode"])
        if cls_ok and got["algo_class"] != cls_ok:
            diff["algo_class"] = (got["algo_class"], cls_ok)
        if diff:
            failures.append({"code": sid.hex(), "what": "parameters differ from what the IANA name denotes", "iana": name, "diff": diff})
    # the exhaustion argument needs the function to be a FUNCTION of the code point: two more sweeps in the same process
    # (ascending, then descending) must give every code point the answer of its FIRST evaluation above (no memoised or
    # otherwise carried state)
    def answer(code):
        try:
            r = csp.split_cipher_suite(code.to_bytes(2, "big"))
            return None if r is None else json.dumps(observed(r), sort_keys=True)
        except Exception as e:
            return "raised " + type(e).__name__
    unstable = []
    for order in (range(65536), range(65535, -1, -1)):
        for code in order:
            again = answer(code)
            if again != first[code] and len(unstable) < 50:
                unstable.append({"code": "%04x" % code, "what": "the answer depends on earlier calls in the same process", "first": first[code], "later": again})
    print(json.dumps({"evaluations": n, "accepted": accepted, "failures": failures, "table_size": len(csp.cipher_suites), "unstable": unstable}))


if __name__ == "__main__":
    main()
