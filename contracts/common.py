"""shared helpers of the contract modules"""
SE = "tlexport.session.Session"


def full_session(c, **overrides):
    """a Session with EVERY attribute the real constructor sets (built by the real __init__, symbolically or natively), then put into the
    state a contract quantifies over.  Contracts that assemble objects attribute by attribute break - as spurious AttributeErrors - as soon
    as the code gains a new field; this keeps them about behaviour."""
    pkt = c.obj("tlexport.packet.Packet", ipv6_packet=False, ip_src=b"\x0a\x00\x00\x02" if c.native else c.bytes_of([10, 0, 0, 2]),
                ip_dst=b"\x0a\x00\x00\x01" if c.native else c.bytes_of([10, 0, 0, 1]), sport=50000, dport=443,
                ethernet_src=b"\x02\x00\x00\x00\x00\x02" if c.native else c.bytes_of([2, 0, 0, 0, 0, 2]),
                ethernet_dst=b"\x02\x00\x00\x00\x00\x01" if c.native else c.bytes_of([2, 0, 0, 0, 0, 1]), seq=0,
                tls_data=b"\x16" if c.native else c.bytes_of([0x16]), timestamp=1.0)
    r = c.new(SE, pkt, [443], [], {}, True, False)
    assert r.exc is None, r
    for k, v in overrides.items():
        c.set(r.value, k, v)
    return r.value


QS = "tlexport.quic.quic_session.QuicSession"
QT = "tlexport.quic.quic_tls_parser.QuicTlsSession"


def _packet(c):
    return c.obj("tlexport.packet.Packet", ipv6_packet=False, ip_src=b"\x0a\x00\x00\x02" if c.native else c.bytes_of([10, 0, 0, 2]),
                 ip_dst=b"\x0a\x00\x00\x01" if c.native else c.bytes_of([10, 0, 0, 1]), sport=50000, dport=443,
                 ethernet_src=b"\x02\x00\x00\x00\x00\x02" if c.native else c.bytes_of([2, 0, 0, 0, 0, 2]),
                 ethernet_dst=b"\x02\x00\x00\x00\x00\x01" if c.native else c.bytes_of([2, 0, 0, 0, 0, 1]), seq=0,
                 tls_data=b"\x16" if c.native else c.bytes_of([0x16]), timestamp=1.0)


def _complete(qualname, args):
    def mk(c):
        r = c.new(qualname, *args(c))
        assert r.exc is None, (qualname, r)
        return r.value
    return mk


def install_completers():
    """ctx.obj(<per-connection class>, **state) starts from an instance built by the REAL constructor (see full_session)"""
    from pyvc import api
    api.COMPLETERS[SE] = _complete(SE, lambda c: (_packet(c), [443], [], {}, True, False))
    api.COMPLETERS[QS] = _complete(QS, lambda c: (_packet(c), [443], [], {}, True))
    api.COMPLETERS[QT] = _complete(QT, lambda c: ())


install_completers()
