"""C01 (the induction over the record sequence), C08: the application-data phase of one direction of a TLS connection, for ANY number
of records.

The sender protected its q-th application record with sequence number n0 + q (n0 = records it had protected before, under the same
keys) as the RFC prescribes for the negotiated cipher class; the records reach the session in stream order (framing contracts).  The
AEAD primitive is modelled by what makes it an AEAD: AEAD-Open(key, nonce, ciphertext, aad) returns the plaintext that was sealed iff
key, nonce, ciphertext and additional data are the ones it was sealed with, and fails otherwise.
LOOP CONTRACT on the delivery loop of Session.get_tls_records, with handle_tls_record, the application-record handlers,
Decryptor.decrypt and the decrypt_* function of the class ALL executed from their real bodies:
    invariant   the direction's sequence number is n0 + (records handled so far); the other direction's cipher state, the keys and the
                session flags are untouched; the exported application data are exactly data(0) .. data(it-1), in order, each once,
                each with its record and the direction it arrived in
    frame       the loop body modifies nothing of the session or the decryptor outside that declared state
so the receiver's cipher state follows the sender's through the whole record sequence and every record is exported exactly - this is
the induction that DESIGN 4 C01 leaves on paper, here discharged for the AEAD classes (TLS 1.2 AES-GCM / AES-CCM / ChaCha20-Poly1305,
TLS 1.3 AES-GCM / ChaCha20-Poly1305 incl. record padding).  CBC and RC4 classes keep per-record contracts only (protect.*)."""
from pyvc.api import harness, eq, band, bor, bnot, implies, ite, len_, cat, const

SE = "tlexport.session.Session"
DEC = "tlexport.decryptor.Decryptor"
AEADM = "cryptography.hazmat.primitives.ciphers.aead."
TV = "tlexport.tlsversion.TlsVersion"
CLASSES = [("TLS12", "AESGCM"), ("TLS12", "AESCCM"), ("TLS12", "ChaCha20Poly1305"), ("TLS13", "AESGCM"), ("TLS13", "ChaCha20Poly1305")]
LEGACY = [("TLS12", "CBC"), ("TLS11", "CBC"), ("TLS10", "CBC"), ("SSL30", "CBC"), ("TLS12", "RC4"), ("TLS10", "RC4")]
ALG = "cryptography.hazmat.primitives.ciphers.algorithms."
CIPH = "cryptography.hazmat.primitives.ciphers."
FUNCS_LEGACY = [SE + ".get_tls_records", SE + ".handle_tls_record", SE + ".handle_tls_application_record", DEC + ".decrypt", DEC + ".decrypt_tls12_block_cipher",
                DEC + ".decrypt_last_block_iv_cbc", DEC + ".decrypt_generic_stream_cipher"]
FUNCS = [SE + ".get_tls_records", SE + ".handle_tls_record", SE + ".handle_tls_application_record", SE + ".handle_tls_13_application_record",
         DEC + ".decrypt", DEC + ".decrypt_tls12_aead", DEC + ".decrypt_tls12_chacha20", DEC + ".decrypt_tls13_aead", DEC + ".decrypt_tls13_stream_cipher",
         "tlexport.decryptor.byte_xor"]


def xor_pad(c, iv, seq_bytes):
    n, m = len_(iv), len_(seq_bytes)
    return c.bytes_of([iv[i] ^ (seq_bytes[i - (n - m)] if i >= n - m else 0) for i in range(n)])


@harness(["C01", "C08", "C13"], "compose.application_phase", functions=FUNCS, cases=[(v, a, s) for v, a in CLASSES for s in (True, False)], timeout=30000)
def h_phase(c, version, aead, srv):
    if c.native:
        return
    from pyvc.api import SpecList
    from pyvc.core import bslice, Unsupported
    from contracts.common import full_session
    tls13, chacha = version == "TLS13", aead == "ChaCha20Poly1305"
    tag = 16
    M = c.int("n_records", 0, None)
    n0, m0 = c.int("sequence_number_at_start", 0, 2 ** 48), c.int("other_direction_sequence_number", 0, 2 ** 48)
    c.assume(n0 + M < 2 ** 62)            # RFC 5246 6.1 / RFC 8446 5.5: sequence numbers never wrap (the connection is rekeyed or closed first)
    klen = 32
    key, okey = c.bytes("write_key", length=klen), c.bytes("other_write_key", length=klen)
    ivlen = 12 if (tls13 or chacha) else 4
    iv, oiv = c.bytes("write_iv", length=ivlen), c.bytes("other_write_iv", length=ivlen)
    c.assume(bnot(eq(key, okey)))
    ver = const(b"\x03\x03")
    # ---- what the sender sent: record q carries data(q); ciphertexts and explicit nonces are arbitrary bytes of the right sizes
    dlen, pad = c.uf("data_len"), c.uf("padding_len")
    poff, coff = c.uf("plaintext_offset"), c.uf("ciphertext_offset")
    PT, CT, EN = c.bytes("all_plaintexts"), c.bytes("all_ciphertexts"), c.bytes("all_explicit_nonces")

    def rec_facts(q):
        c.assume(implies(band(0 <= q, q < M), band(0 <= dlen(q), dlen(q) <= 16384, 0 <= pad(q), pad(q) <= 255, poff(q) >= 0, poff(q) + dlen(q) <= len_(PT),
                                                   coff(q) >= 0, coff(q) + dlen(q) + 300 <= len_(CT), 8 * q + 8 <= len_(EN))))

    def data(q):
        return bslice(PT, poff(q), poff(q) + dlen(q))

    def inner_len(q):                 # what the AEAD sealed
        return dlen(q) + 1 + pad(q) if tls13 else dlen(q)

    def ct(q):
        return bslice(CT, coff(q), coff(q) + inner_len(q) + tag)

    def explicit(q):
        return bslice(EN, 8 * q, 8 * q + 8)

    def fragment(q):
        if tls13 or chacha:
            return ct(q)
        return cat(explicit(q), ct(q))

    def header(q):
        return cat(c.bytes_of([0x17]), ver, c.encode_be("record_length", len_(fragment(q)), 2))

    def sender_nonce(q):
        if tls13 or chacha:
            return xor_pad(c, iv, c.encode_be("sender_seq", n0 + q, 8))
        return cat(iv, explicit(q))

    def sender_aad(q):
        if tls13:
            return header(q)          # RFC 8446 5.2: the record header
        return cat(c.encode_be("sender_seq", n0 + q, 8), c.bytes_of([0x17]), ver, c.encode_be("plaintext_length", dlen(q), 2))     # RFC 5246 6.2.3.3

    def sealed(q):                    # the plaintext handed to AEAD-Seal
        if tls13:
            return cat(data(q), c.bytes_of([0x17]), c.fill(0, pad(q)))      # RFC 8446 5.4: content || type || zeros
        return data(q)
    cur = {"q": None}

    def aead_open(m, a, k):
        q = cur["q"]
        if m != "decrypt" or len(a) != 3 or q is None:
            raise Unsupported("AEAD object used other than by decrypt(nonce, data, aad)")
        nonce, ctext, aad = a
        if c.truth_fork(band(eq(nonce, sender_nonce(q)), eq(ctext, ct(q)), eq(aad, sender_aad(q)))):
            return sealed(q)
        c.raise_in_code("InvalidTag")
    made = []

    def ctor(name):
        def mk(k, *rest):
            made.append((name, k, rest))
            if name == aead and c.truth_fork(eq(k, key)) and (name != "AESCCM" or (len(rest) == 1 and c.prove(eq(rest[0], tag)))):
                return c.recorder("aead", handler=aead_open)
            return c.recorder("aead_with_other_parameters", handler=lambda m, a, kk: c.raise_in_code("InvalidTag"))
        return mk
    for name in ("AESGCM", "AESCCM", "ChaCha20Poly1305"):
        c.lib_model(AEADM + name, ctor(name))

    def record(q):
        fr = fragment(q)
        return c.obj("tlexport.tlsrecord.TlsRecord", binary=fr, record_type=0x17, record_version=ver, record_length=c.encode_be("record_length", len_(fr), 2),
                     raw=cat(header(q), fr), metadata=[c.opaque("carrying_packet")], isserver=srv, __q=q)
    d = c.obj(DEC, bulk_alg=c.external(AEADM + aead), bulk_mode=None, mac_alg=None, tls_version=c.enum(TV, version), key_length=klen, mac_length=0, tag_length=tag,
              block_length=16, compression_method=0, encrypt_then_mac=False,
              server_key=key if srv else okey, client_key=okey if srv else key, server_iv=iv if srv else oiv, client_iv=oiv if srv else iv,
              server_seq=n0 if srv else m0, client_seq=m0 if srv else n0)
    r0 = c.method(d, "get_cipher_type")          # the cipher class as the REAL constructor step derives it from the algorithm
    assert r0.exc is None, r0
    own_recs, other_recs = ("server_tls_records", "client_tls_records") if srv else ("client_tls_records", "server_tls_records")
    own_buf = "server_packet_buffer" if srv else "client_packet_buffer"
    sip, cip = c.bytes("server_ip", length=4), c.bytes("client_ip", length=4)
    c.assume(bnot(eq(sip, cip)))
    pkt = c.obj("tlexport.packet.Packet", ip_src=sip if srv else cip, ip_dst=cip if srv else sip, sport=443 if srv else 50000, dport=50000 if srv else 443)
    s = full_session(c, server_ip=sip, client_ip=cip, server_port=443, client_port=50000, packet_buffer=[pkt], decryptor=d, can_decrypt=True, client_hello_seen=True,
                     tls_version=c.enum(TV, version), server_cipher_change=True, client_cipher_change=True, exp_meta=c.bool("metadata_export"), application_traffic=[],
                     server_tls_records=[], client_tls_records=[], server_packet_buffer=[], client_packet_buffer=[])

    def entry_match(x, q):
        return isinstance(x, tuple) and len(x) == 3 and hasattr(x[1], "attrs") and band(eq(x[0], data(q)), eq(x[1].attrs["__q"], q)) and x[2] is srv

    def traffic_list(cnt):
        return SpecList("application_traffic", cnt, lambda q: (data(q), record(q), srv), entry_match)

    def traffic_is(T, cnt):
        if isinstance(T, SpecList):
            return band(T.equals_spec(cnt), len(T.lead) == 0)
        if isinstance(T, list):
            return band(eq(len(T), cnt), *[entry_match(x, j) for j, x in enumerate(T)])
        return False
    c.summary_override(SE + ".extract_%s_buf" % ("server" if srv else "client"), lambda ctx, slf: c.set(slf, own_recs, SpecList("released", M, record, lambda x, q: False)))
    own_seq, other_seq = ("server_seq", "client_seq") if srv else ("client_seq", "server_seq")
    DECLARED = {"s": {"application_traffic"}, "d": {own_seq}}
    snap = {}

    def inv(e):
        return band(c.get(d, own_seq) == n0 + e.it, c.get(d, other_seq) == m0, traffic_is(c.get(s, "application_traffic"), e.it))

    def ghost(phase, e):
        if phase == "havoc":
            cur["q"] = e.it
            rec_facts(e.it)
            del made[:]
            # everything the loop body may modify (declared), arbitrary but for the invariant
            c.set(d, own_seq, c.fresh_int("sequence_number", 0, None))
            c.set(s, "application_traffic", traffic_list(c.fresh_int("n_exported", 0, None)))
            snap["s"] = {k: v for k, v in s.attrs.items() if k not in DECLARED["s"]}
            snap["d"] = {k: v for k, v in d.attrs.items() if k not in DECLARED["d"]}
        elif phase == "step":
            for tag_, obj in (("s", s), ("d", d)):
                same = set(obj.attrs) - DECLARED[tag_] == set(snap[tag_]) and all(obj.attrs[k] is v or c.same_object(obj.attrs[k], v) for k, v in snap[tag_].items())
                c.ensure("frame.body_modifies_only_sequence_number_and_export_list[%s]" % ("session" if tag_ == "s" else "decryptor"), same)
            c.ensure("one_aead_object_per_record_with_the_directions_key", len(made) == 1 and made[0][0] == aead and c.prove(eq(made[0][1], key)))
            c.cover("record_exported")
    c.loop(SE + ".get_tls_records", "for record in self.%s" % own_recs, invariant=inv, havoc={"e": lambda cur_: None}, ghost_step=ghost, callee_frame="harness")
    out = c.method(s, "get_tls_records")
    c.ensure("no_raise", out.exc is None, kind="raises")
    if out.exc is not None:
        return
    c.ensure("all_records_exported_exactly_in_order", traffic_is(c.get(s, "application_traffic"), M))
    c.ensure("receiver_sequence_number_follows_the_sender", c.prove(band(c.get(d, own_seq) == n0 + M, c.get(d, other_seq) == m0)))
    c.cover("returned")


h_phase.must_cover = ["returned", "record_exported"]


@harness(["C01", "C08", "C13"], "compose.application_phase_cbc_rc4", functions=FUNCS_LEGACY, cases=[(v, k, s) for v, k in LEGACY for s in (True, False)], timeout=30000)
def h_phase_legacy(c, version, kind, srv):
    """the same induction for the non-AEAD classes.  The primitives are modelled by what they are: CBC-Decrypt(key, iv, ct) and the RC4
    keystream are FUNCTIONS - they return the protected plaintext structure exactly when key, IV / stream position and ciphertext are the
    sender's, and something arbitrary otherwise (they never fail: TLExport does not verify MACs).
      TLS 1.1 / 1.2 CBC (RFC 4346 / 5246 6.2.3.2): explicit IV = first block of the fragment - no state carried between records;
      SSL 3.0 / TLS 1.0 CBC (RFC 2246 6.2.3.2): IV = last ciphertext block of the PREVIOUS record of that direction - the invariant is
          'the stored residue is the last block of the previous record (or the state at the start of the phase)';
      RC4: one keystream per direction - the invariant is 'the cipher context has consumed exactly the bytes of the records before'.
    Plaintext structure: content || MAC || padding (each padding byte = padding length) for CBC, content || MAC for RC4; exported = content."""
    if c.native:
        return
    from pyvc.api import SpecList
    from pyvc.core import bslice, Unsupported
    from contracts.common import full_session
    cbc = kind == "CBC"
    chained = cbc and version in ("TLS10", "SSL30")
    block = 16
    maclen = c.choice("mac_length", [20, 32])
    M = c.int("n_records", 0, None)
    key, okey = c.bytes("write_key", length=16), c.bytes("other_write_key", length=16)
    c.assume(bnot(eq(key, okey)))
    ver = const({"TLS12": b"\x03\x03", "TLS11": b"\x03\x02", "TLS10": b"\x03\x01", "SSL30": b"\x03\x00"}[version])
    dlen, pad, poff, coff = c.uf("data_len"), c.uf("padding_len"), c.uf("plaintext_offset"), c.uf("ciphertext_offset")
    spos = c.uf("keystream_position")
    PT, CT, MACS = c.bytes("all_plaintexts"), c.bytes("all_ciphertexts"), c.bytes("all_macs")
    R0 = c.bytes("residue_at_start", length=block)
    c.assume(spos(0) >= 0)

    def sealed_len(q):
        return dlen(q) + maclen + (pad(q) + 1 if cbc else 0)

    def ct_len(q):                       # what travels in the fragment after an explicit IV
        return sealed_len(q)

    def rec_facts(q):
        c.assume(implies(band(0 <= q, q < M), band(0 <= dlen(q), dlen(q) <= 16384, 0 <= pad(q), pad(q) <= 255, poff(q) >= 0, poff(q) + dlen(q) <= len_(PT),
                                                   coff(q) >= 0, coff(q) + block + sealed_len(q) <= len_(CT), (q + 1) * maclen <= len_(MACS),
                                                   spos(q + 1) == spos(q) + sealed_len(q), spos(q) >= 0)))
        if cbc:
            c.assume(implies(band(0 <= q, q < M), sealed_len(q) % block == 0))

    def data(q):
        return bslice(PT, poff(q), poff(q) + dlen(q))

    def ct(q):
        return bslice(CT, coff(q) + block, coff(q) + block + ct_len(q))

    def explicit_iv(q):
        return bslice(CT, coff(q), coff(q) + block)

    def sealed(q):
        mac = bslice(MACS, q * maclen, (q + 1) * maclen)
        if cbc:
            return cat(data(q), mac, c.fill(pad(q), pad(q) + 1))
        return cat(data(q), mac)

    def fragment(q):
        if cbc and not chained:
            return cat(explicit_iv(q), ct(q))
        return ct(q)

    def last_block(q):
        return bslice(CT, coff(q) + block + ct_len(q) - block, coff(q) + block + ct_len(q))

    def header(q):
        return cat(c.bytes_of([0x17]), ver, c.encode_be("record_length", len_(fragment(q)), 2))
    cur = {"q": None, "pos": None}
    used = []

    # ---- library models: CBC decryption and the RC4 keystream as functions of (key, iv / position, ciphertext)
    def cipher_ctor(algorithm, mode=None, backend=None):
        def ops(m, a, k):
            if m == "decryptor":
                return ctx
            raise Unsupported("Cipher.%s" % m)

        def ctx_ops(m, a, k):
            q = cur["q"]
            if m == "finalize":
                return const(b"")
            if m != "update" or q is None:
                raise Unsupported("cipher context.%s" % m)
            used.append((algorithm, mode, a[0]))
            iv_ok = eq(c.get(mode, "iv"), explicit_iv(q) if not chained else (R0 if False else c.get(mode, "iv"))) if mode is not None else True
            want_iv = None
            if mode is not None:
                want_iv = explicit_iv(q) if not chained else None
            okk = band(eq(c.get(algorithm, "key"), key), eq(a[0], ct(q)))
            if mode is not None and not chained:
                okk = band(okk, eq(c.get(mode, "iv"), explicit_iv(q)))
            if mode is not None and chained:
                okk = band(okk, bor(band(q == 0, eq(c.get(mode, "iv"), R0)), band(q > 0, eq(c.get(mode, "iv"), last_block(q - 1)))))
            if c.truth_fork(okk):
                return sealed(q)
            return c.bytes_fresh("garbage", 0, None)
        ctx = c.recorder("cipher_context", handler=ctx_ops)
        return c.recorder("Cipher", handler=ops)
    if cbc:
        c.lib_model(CIPH + "Cipher", cipher_ctor)
    # RC4: ONE persistent context per direction, created when the keys were installed
    def rc4_ops(m, a, k):
        q = cur["q"]
        if m != "update" or q is None:
            raise Unsupported("RC4 context.%s" % m)
        used.append(("rc4", None, a[0]))
        here = cur["pos"]
        cur["pos"] = here + len_(a[0])
        if c.truth_fork(band(here == spos(q), eq(a[0], ct(q)))):
            return sealed(q)
        return c.bytes_fresh("garbage", 0, None)
    rc4_ctx = c.recorder("rc4_context", handler=rc4_ops)
    other_ctx = c.recorder("rc4_context_of_the_other_direction", handler=lambda m, a, k: c.bytes_fresh("other", 0, None))

    def record(q):
        fr = fragment(q)
        return c.obj("tlexport.tlsrecord.TlsRecord", binary=fr, record_type=0x17, record_version=ver, record_length=c.encode_be("record_length", len_(fr), 2),
                     raw=cat(header(q), fr), metadata=[c.opaque("carrying_packet")], isserver=srv, __q=q)
    other_residue = c.bytes("other_direction_residue", length=block)
    d = c.obj(DEC, bulk_alg=c.external(ALG + ("AES" if cbc else "ARC4")), bulk_mode=None, mac_alg=None, tls_version=c.enum(TV, version), key_length=16, mac_length=maclen,
              tag_length=16, block_length=128, compression_method=0, encrypt_then_mac=False, server_key=key if srv else okey, client_key=okey if srv else key,
              server_iv=c.bytes("siv", length=block), client_iv=c.bytes("civ", length=block), server_seq=0, client_seq=0,
              last_block_server=R0 if srv else other_residue, last_block_client=other_residue if srv else R0,
              server_cipher=rc4_ctx if srv else other_ctx, client_cipher=other_ctx if srv else rc4_ctx)
    r0 = c.method(d, "get_cipher_type")
    assert r0.exc is None, r0
    own_recs = "server_tls_records" if srv else "client_tls_records"
    sip, cip = c.bytes("server_ip", length=4), c.bytes("client_ip", length=4)
    c.assume(bnot(eq(sip, cip)))
    pkt = c.obj("tlexport.packet.Packet", ip_src=sip if srv else cip, ip_dst=cip if srv else sip, sport=443 if srv else 50000, dport=50000 if srv else 443)
    s = full_session(c, server_ip=sip, client_ip=cip, server_port=443, client_port=50000, packet_buffer=[pkt], decryptor=d, can_decrypt=True, client_hello_seen=True,
                     tls_version=c.enum(TV, version), server_cipher_change=True, client_cipher_change=True, exp_meta=c.bool("metadata_export"), application_traffic=[],
                     server_tls_records=[], client_tls_records=[], server_packet_buffer=[], client_packet_buffer=[])

    def entry_match(x, q):
        return isinstance(x, tuple) and len(x) == 3 and hasattr(x[1], "attrs") and band(eq(x[0], data(q)), eq(x[1].attrs["__q"], q)) and x[2] is srv

    def traffic_list(cnt):
        return SpecList("application_traffic", cnt, lambda q: (data(q), record(q), srv), entry_match)

    def traffic_is(T, cnt):
        if isinstance(T, SpecList):
            return band(T.equals_spec(cnt), len(T.lead) == 0)
        if isinstance(T, list):
            return band(eq(len(T), cnt), *[entry_match(x, j) for j, x in enumerate(T)])
        return False
    c.summary_override(SE + ".extract_%s_buf" % ("server" if srv else "client"), lambda ctx, slf: c.set(slf, own_recs, SpecList("released", M, record, lambda x, q: False)))
    own_res = "last_block_server" if srv else "last_block_client"
    DECLARED = {"s": {"application_traffic"}, "d": {own_res} if chained else set()}
    snap = {}

    def inv(e):
        r = traffic_is(c.get(s, "application_traffic"), e.it)
        if chained:
            lb = c.get(d, own_res)
            r = band(r, bor(band(e.it == 0, eq(lb, R0)), band(e.it > 0, eq(lb, last_block(e.it - 1)))))
        if not cbc:
            r = band(r, cur["pos"] == spos(e.it))
        return r
    cur["pos"] = spos(0)

    def ghost(phase, e):
        if phase == "havoc":
            cur["q"] = e.it
            rec_facts(e.it)
            rec_facts(e.it - 1)
            del used[:]
            c.set(s, "application_traffic", traffic_list(c.fresh_int("n_exported", 0, None)))
            if chained:
                c.set(d, own_res, c.bytes_fresh("stored_residue", block, block))
            if not cbc:
                cur["pos"] = c.fresh_int("keystream_position_of_the_context", 0, None)
            snap["s"] = {k: v for k, v in s.attrs.items() if k not in DECLARED["s"]}
            snap["d"] = {k: v for k, v in d.attrs.items() if k not in DECLARED["d"]}
        elif phase == "step":
            for tag_, obj in (("s", s), ("d", d)):
                same = set(obj.attrs) - DECLARED[tag_] == set(snap[tag_]) and all(obj.attrs[k] is v or c.same_object(obj.attrs[k], v) for k, v in snap[tag_].items())
                c.ensure("frame.body_modifies_only_the_declared_cipher_state_and_the_export_list[%s]" % ("session" if tag_ == "s" else "decryptor"), same)
            c.ensure("one_primitive_call_per_record", len(used) == 1)
            c.cover("record_exported")
    c.loop(SE + ".get_tls_records", "for record in self.%s" % own_recs, invariant=inv, havoc={"e": lambda cur_: None}, ghost_step=ghost, callee_frame="harness")
    out = c.method(s, "get_tls_records")
    c.ensure("no_raise", out.exc is None, kind="raises")
    if out.exc is not None:
        return
    c.ensure("all_records_exported_exactly_in_order", traffic_is(c.get(s, "application_traffic"), M))
    c.cover("returned")


h_phase_legacy.must_cover = ["returned", "record_exported"]
