"""C12 / C09 (DSB position): tlexport.dpkt_dsb.Reader walks the pcapng block list and yields, in file order, one
(timestamp, frame) per packet block and (-1, secrets) per decryption-secrets block - wherever the block sits (also
before the interface description) - in the section's byte order and with the interface's timestamp resolution and
offset.  BOUNDED: one section, one interface, <= 2 blocks before and <= 3 blocks after the interface description;
dpkt's block classes are an assumed record model (pyvc/dpktmodel.py); the file is a byte string read at byte level."""
from pyvc.api import harness, eq, band, bor, bnot, len_, cat, const, ite

RD = "tlexport.dpkt_dsb.Reader"
KINDS = ["EPB", "PB", "DSB", "OTHER"]
TYPE_CODE = {"EPB": 6, "PB": 2, "DSB": 10, "IDB": 1, "SHB": 0x0A0D0D0A}


def u32(c, name, v, le):
    b = c.encode_be(name, v, 4) if not isinstance(v, int) else const(v.to_bytes(4, "big"))
    return b if not le else c.bytes_of([b[3], b[2], b[1], b[0]])


def make_block(c, tag, kind, le, ghost):
    """type(4) total_length(4) body; the body is one symbolic byte string the dpkt class model recognises"""
    if kind == "DSB":
        # pcapng 4.7: secrets type(4) secrets length(4) secrets data, padded to 32 bits, [options], total length again
        L = c.int(tag + ".secrets_len", 0, 2000)
        secrets = c.bytes(tag + ".secrets", length=L)
        padlen = (4 - L % 4) % 4
        total = 8 + 4 + 4 + L + padlen + 4
        blk = cat(u32(c, tag + ".t", 10, le), u32(c, tag + ".l", total, le), u32(c, tag + ".st", 0x544c534b, le), u32(c, tag + ".sl", L, le),
                  secrets, c.fill(0, padlen), u32(c, tag + ".l2", total, le))
        return blk, {"secrets": secrets}, secrets
    body_len = c.int(tag + ".body_len", 4, 2000)
    body = c.bytes(tag + ".body", length=body_len)
    code = TYPE_CODE.get(kind)
    if code is None:
        code = c.int(tag + ".type", 3, 2 ** 31)
        c.assume((code != 6) & (code != 10) & (code != 1) & (code != 2))
    fields = {}
    if kind in ("EPB", "PB"):
        fields = {"ts_high": c.int(tag + ".ts_high", 0, 2 ** 32 - 1), "ts_low": c.int(tag + ".ts_low", 0, 2 ** 32 - 1), "pkt_data": c.bytes(tag + ".pkt_data", min_len=1)}
    ghost(body, {"kind": kind, "fields": fields, "tag": tag})
    return cat(u32(c, tag + ".t", code, le), u32(c, tag + ".l", body_len + 8, le), body), fields, body


@harness(["C12", "C09"], "container.reader", functions=[RD + ".__init__", RD + ".__iter__"],
         cases=[(le, pre, post) for le in (True, False) for pre in ((), ("DSB",), ("OTHER", "DSB")) for post in (("EPB",), ("OTHER", "EPB", "DSB"), ("PB", "OTHER"), ("DSB", "EPB", "EPB"))],
         timeout=20000)
def h_reader(c, le, pre, post):
    if c.native:
        return
    from pyvc import dpktmodel
    dpktmodel.GHOST.clear()

    def ghost(body, g):
        dpktmodel.GHOST[id(body)] = g
    # section header: 28 bytes, no options
    # version 1.0, section length -1, trailing total length
    shb_rest = cat(const(b"\x01\x00\x00\x00") if le else const(b"\x00\x01\x00\x00"), const(b"\xff" * 8), u32(c, "shb.len2", 28, le))
    bom = const(bytes.fromhex("4d3c2b1a")) if le else const(bytes.fromhex("1a2b3c4d"))
    shb = cat(const(bytes.fromhex("0a0d0d0a")), u32(c, "shb.len", 28, le), bom, shb_rest)
    blocks = []
    parts = [shb]
    for i, k in enumerate(pre):
        b, f, body = make_block(c, "pre%d" % i, k, le, ghost)
        parts.append(b)
        blocks.append((k, f, body))
    # interface description with optional if_tsresol / if_tsoffset
    has_res, has_off = c.choice("has_tsresol", [False, True]), c.choice("has_tsoffset", [False, True])
    res_byte = c.int("if_tsresol", 0, 255)
    off_val = c.int("if_tsoffset", -2 ** 40, 2 ** 40)
    opts = []
    if has_res:
        opts.append(c.record("opt", code=9, data=c.bytes_of([res_byte])))
    if has_off:
        ob = c.encode_be("tsoffset.bytes", ite(off_val >= 0, off_val, off_val + 2 ** 64), 8)
        opts.append(c.record("opt", code=14, data=ob if not le else c.bytes_of([ob[7 - i] for i in range(8)])))
    idb_body_len = c.int("idb.body_len", 12, 200)
    idb_body = c.bytes("idb.body", length=idb_body_len)
    ghost(idb_body, {"kind": "IDB", "fields": {"opts": opts, "linktype": 1, "snaplen": 65535}})
    parts.append(cat(u32(c, "idb.t", 1, le), u32(c, "idb.l", idb_body_len + 8, le), idb_body))
    for i, k in enumerate(post):
        b, f, body = make_block(c, "post%d" % i, k, le, ghost)
        parts.append(b)
        blocks.append((k, f, body))
    data = cat(*parts)
    pos = [0]

    def fileop(m, a, k):
        if m == "read":
            n = a[0]
            lo = pos[0]
            out = data[lo:lo + n]
            pos[0] = lo + len_(out)
            return out
        if m == "seek":
            pos[0] = a[0]
            return None
        if m == "tell":
            return pos[0]
        return None
    f = c.recorder("file", handler=fileop)
    f.attrs["name"] = "capture.pcapng"
    f.attrs["__class__"] = c.record("type", __name__="BufferedReader")
    out = c.new(RD, f)
    c.ensure("init.no_raise", out.exc is None, kind="raises")
    if out.exc is not None:
        return
    rd = out.value
    it = c.iterate(rd)
    c.ensure("iter.no_raise", it.exc is None, kind="raises")
    if it.exc is not None:
        return
    # pcapng: if_tsresol MSB set -> negative power of 2 of the low 7 bits, else negative power of 10; default 10^-6; if_tsoffset in seconds
    want = []
    for k, flds, body in blocks:
        if k in ("EPB", "PB"):
            want.append(("pkt", flds))
        elif k == "DSB":
            want.append(("dsb", body))
    got = it.value
    c.ensure("yields_one_item_per_packet_or_secrets_block", len(got) == len(want))
    if len(got) != len(want):
        return
    from pyvc.core import FloatExpr
    for (ts, buf), (kind, w) in zip(got, want):
        if kind == "dsb":
            c.ensure("dsb.marker_and_position", ts == -1)
            c.ensure("dsb.secrets_bytes", c.prove(eq(buf, w)))
        else:
            c.ensure("packet.data", buf is w["pkt_data"])
            ticks = w["ts_high"] * 2 ** 32 + w["ts_low"]
            if has_res:
                base = 2 if c.truth_fork(res_byte >= 128) else 10
                divisor = FloatExpr("float_pow", (base, res_byte % 128))
            else:
                divisor = 1e6
            want_ts = FloatExpr("add", (off_val if has_off else 0, FloatExpr("div", (ticks, divisor))))
            c.ensure("packet.timestamp", c.prove(ts.pyvc_eq(c.I, want_ts)) if isinstance(ts, FloatExpr) else False)
    c.cover("reached")


h_reader.must_cover = ["reached"]
