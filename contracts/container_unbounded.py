"""C12 / C09: tlexport.dpkt_dsb.Reader.__iter__ for a pcapng file with ANY number of blocks (the bounded harness container.reader stays
as the cross-check that also runs Reader.__init__ over a byte-level section header and interface description).

Ghost description of the file: fpos(q) = offset of block q, blen(q) its total length (fpos(q+1) = fpos(q) + blen(q), blen >= 12, a
multiple of 4), btype(q) its type code; the last block ends at the end of the file (or a tail shorter than a block header follows).
Loop contract, per block: the reader is positioned at fpos(r); an Enhanced Packet / (obsolete) Packet block yields exactly one item
(if_tsoffset + ((ts_high << 32) | ts_low) / divisor, packet data); a Decryption Secrets block yields (-1, secrets) wherever it sits;
any other block (section header, interface description, name resolution, statistics, custom ...) yields nothing; the reader then
stands at fpos(r+1).  Hence the items come out in file order, one per packet / secrets block - for files of any length.
dpkt's block classes are an assumed record model (pyvc/dpktmodel.py: a block class applied to the bytes of block r decodes the fields
the pcapng specification names, in the class's byte order); float arithmetic is an uninterpreted expression compared structurally."""
from pyvc.api import harness, eq, band, bor, bnot, implies, ite, len_, cat, const

RD = "tlexport.dpkt_dsb.Reader"


@harness(["C12", "C09", "C07"], "container.unbounded.iter", functions=[RD + ".__iter__"], cases=[(le, k) for le in (True, False) for k in ("EPB", "PB", "DSB", "OTHER")], timeout=20000)
def h_iter(c, le, kind):
    if c.native:
        return
    from pyvc import dpktmodel
    from pyvc.core import FloatExpr, bslice, Unsupported, to_bytes_val, BSlice, BCat
    dpktmodel.GHOST.clear()
    nb = c.int("n_blocks", 0, None)
    flen = c.int("file_len", 0, None)
    F = c.bytes("file", length=flen)
    fpos, blen = c.uf("block_offset"), c.uf("block_total_length")
    c.assume(fpos(0) == 0)
    c.assume(band(fpos(nb) <= flen, flen - fpos(nb) < 8))           # after the last block: nothing, or a tail shorter than a block header

    def u32(p):
        b = [F[p], F[p + 1], F[p + 2], F[p + 3]]
        if le:
            b.reverse()
        return ((b[0] * 256 + b[1]) * 256 + b[2]) * 256 + b[3]

    def block_def(q):
        c.assume(implies(band(0 <= q, q < nb), band(fpos(q) >= 0, blen(q) >= 12, fpos(q + 1) == fpos(q) + blen(q), fpos(q + 1) <= fpos(nb), u32(fpos(q) + 4) == blen(q))))
    gh = {"r": 0}
    code = {"EPB": 6, "PB": 2, "DSB": 10}.get(kind)
    from pyvc.core import FloatExpr as _FE
    divisor = _FE("float_pow", (c.choice("resolution_base", [10, 2]), c.int("resolution_exponent", 0, 127)))     # any divisor Reader.__init__ can compute
    tsoffset = c.int("if_tsoffset", -2 ** 40, 2 ** 40)
    ts_high, ts_low = c.int("ts_high", 0, 2 ** 32 - 1), c.int("ts_low", 0, 2 ** 32 - 1)
    pkt_data = c.bytes("pkt_data", min_len=1)
    secrets_len = c.int("secrets_length", 0, None)
    pos = {"p": 0}

    def fileop(m, a, k):
        if m == "read":
            n = a[0]
            lo = pos["p"]
            out = F[lo:lo + n]
            pos["p"] = lo + len_(out)
            return out
        if m == "seek":
            pos["p"] = a[0]
            return None
        raise Unsupported("file.%s" % m)
    f = c.recorder("file", handler=fileop)

    # dpkt block classes on the bytes of block r (assumed record model)
    def block_model(want_kind, fields):
        def mk(I, buf):
            b = to_bytes_val(buf)
            ok = c.prove(band(len_(b) == blen(gh["r"]), b[0] == F[fpos(gh["r"])], b[len_(b) - 1] == F[fpos(gh["r"] + 1) - 1]))
            c.ensure("block_class.applied_to_exactly_the_bytes_of_the_block", ok)
            c.ensure("block_class.matches_the_block_type_and_byte_order", kind == want_kind)
            return c.record("dpkt." + want_kind, **fields)
        return mk
    for cls, k2 in (("EnhancedPacketBlock", "EPB"), ("PacketBlock", "PB")):
        for suffix, is_le in (("", False), ("LE", True)):
            fn = block_model(k2, dict(ts_high=ts_high, ts_low=ts_low, pkt_data=pkt_data))
            c.lib_model_raw("dpkt.pcapng." + cls + suffix, (lambda fn, is_le: lambda I, buf: (c.ensure("block_class.byte_order", is_le == le), fn(I, buf))[1])(fn, is_le))
    # the DSB class is tlexport's own (executed from its real AST on top of dpkt.Packet.unpack)
    rd = c.obj(RD, _bare=True)
    for k2, v in (("__f", f), ("__le", le), ("_divisor", divisor), ("_tsoffset", tsoffset)):        # (the engine does not mangle private names)
        c.set(rd, k2, v)
    yields_at = {"frame": None}

    def ghost(phase, e):
        if phase == "havoc":
            gh["r"] = c.fresh_int("block_index", 0, None)
            block_def(gh["r"])
            pos["p"] = fpos(gh["r"])
            yields_at["frame"] = e._f
            e._f.yields = []
        elif phase == "step":
            r = gh["r"]
            got = e._f.yields
            if kind in ("EPB", "PB"):
                c.ensure("packet_block.yields_exactly_one_item", len(got) == 1)
                if len(got) == 1:
                    ts, data = got[0]
                    ticks = ts_high * 2 ** 32 + ts_low
                    want = FloatExpr("add", (tsoffset, FloatExpr("div", (ticks, divisor))))
                    c.ensure("packet_block.timestamp_is_offset_plus_ticks_over_divisor", isinstance(ts, FloatExpr) and c.prove(ts.pyvc_eq(c.I, want)))
                    c.ensure("packet_block.data", data is pkt_data)
            elif kind == "DSB":
                c.ensure("secrets_block.yields_exactly_one_item", len(got) == 1)
                if len(got) == 1:
                    ts, data = got[0]
                    c.ensure("secrets_block.marker", ts == -1)
                    lo = fpos(r) + 16
                    c.ensure("secrets_block.secrets_bytes", c.prove(eq(data, F[lo:lo + secrets_len])))
            else:
                c.ensure("other_block.yields_nothing", len(got) == 0)
            c.ensure("positioned_at_the_next_block", c.prove(eq(pos["p"], fpos(r + 1))))
            gh["r"] = r + 1
            e._f.yields = []
            c.cover("iteration")

    def inv(e):
        r = gh["r"]
        return band(0 <= r, r <= nb, pos["p"] == fpos(r))
    c.loop(RD + ".__iter__", "while 1", invariant=inv, decreases=lambda e: nb - gh["r"], ghost_step=ghost,
           havoc={"buf": lambda cur: None, "epb": lambda cur: None, "pb": lambda cur: None, "dsb": lambda cur: None, "ts": lambda cur: None})
    # the block the current iteration sees is of the case's kind
    r0 = c.fresh_int("any_block", 0, None)
    it = None

    def typed(q):
        t = u32(fpos(q))
        if code is not None:
            return t == code
        return band(t != 6, t != 2, t != 10)
    # (assumed for the block under the loop head only - the case split is over the kind of the CURRENT block)
    orig_block_def = block_def

    def block_def2(q):
        orig_block_def(q)
        c.assume(implies(band(0 <= q, q < nb), typed(q)))
        if kind == "DSB":
            c.assume(implies(band(0 <= q, q < nb), band(secrets_len >= 0, 20 + secrets_len <= blen(q), u32(fpos(q) + 12) == secrets_len)))
    block_def = block_def2
    out = c.iterate(rd)
    c.ensure("no_raise", out.exc is None, kind="raises")
    if out.exc is None:
        c.ensure("iteration_ends_only_at_the_end_of_the_file", c.prove(eq(gh["r"], nb)))
    c.cover("returned")


h_iter.must_cover = ["returned", "iteration"]


@harness(["C12", "C09", "C07"], "container.unbounded.init", functions=[RD + ".__init__"], cases=[(le,) for le in (True, False)], timeout=20000)
def h_init(c, le):
    """UNBOUNDED Reader.__init__: a section header, then ANY number of blocks that are not interface descriptions (secrets, name
    resolution, custom ...), then the first Interface Description Block with ANY number of options of any code, if_tsresol / if_tsoffset
    possibly repeated (the bounded harness container.reader stays as the byte-level cross-check with <= 2 blocks and <= 1 option of a kind).
    Loop contract of the search: the reader stands at block r <= J (J = index of the first IDB), no IDB seen; it stops AT the IDB.
    Loop contract of the option scan (ghost lastres(i) / lastoff(i) = index of the last if_tsresol / if_tsoffset option among the first i,
    definitional): the divisor is 10^6 if lastres(i) < 0, else base^(low seven bits) with base 2 iff the byte's top bit is set - of THAT
    option; the offset is 0 if lastoff(i) < 0, else the signed 64-bit value of that option in the section's byte order.  Hence, for any
    such file: resolution and offset are those of the first interface's LAST such options (pcapng 4.2), whatever surrounds them."""
    if c.native:
        return
    from pyvc import dpktmodel
    from pyvc.core import FloatExpr, Unsupported, to_bytes_val
    from pyvc.symlist import SpecList
    dpktmodel.GHOST.clear()
    J = c.int("blocks_before_the_first_interface_description", 0, None)
    flen = c.int("file_len", 0, None)
    F = c.bytes("file", length=flen)
    fpos, blen = c.uf("block_offset"), c.uf("block_total_length")

    def u32(p):
        b = [F[p], F[p + 1], F[p + 2], F[p + 3]]
        if le:
            b.reverse()
        return ((b[0] * 256 + b[1]) * 256 + b[2]) * 256 + b[3]
    # the section header: 28 bytes (no options), byte-order magic and version 1.x as the case's byte order writes them
    magic = [0x4d, 0x3c, 0x2b, 0x1a] if le else [0x1a, 0x2b, 0x3c, 0x4d]
    c.assume(band(flen >= 28, F[0] == 0x0a, F[1] == 0x0d, F[2] == 0x0d, F[3] == 0x0a, u32(4) == 28, *[F[8 + i] == magic[i] for i in range(4)]))
    c.assume(band(F[12] == (1 if le else 0), F[13] == (0 if le else 1)))                       # major version 1
    c.assume(fpos(0) == 28)

    def block_def(q):
        c.assume(implies(band(0 <= q, q <= J), band(fpos(q) >= 28, blen(q) >= 12, fpos(q + 1) == fpos(q) + blen(q), fpos(q + 1) <= flen, u32(fpos(q) + 4) == blen(q))))
        c.assume(implies(band(0 <= q, q < J), u32(fpos(q)) != 1))
        c.assume(u32(fpos(J)) == 1)
    pos = {"p": 0}

    def fileop(m, a, k):
        if m == "read":
            lo = pos["p"]
            out = F[lo:lo + a[0]]
            pos["p"] = lo + len_(out)
            return out
        if m == "seek":
            pos["p"] = a[0]
            return None
        if m == "tell":
            return pos["p"]
        raise Unsupported("file.%s" % m)
    f = c.recorder("file", handler=fileop)
    f.attrs["name"] = "capture.pcapng"
    f.attrs["__class__"] = c.record("type", __name__="BufferedReader")
    # options of the first interface description: any number, any codes
    N = c.int("n_options", 0, None)
    ocode, odata_len = c.uf("option_code"), c.uf("option_length")
    lastres, lastoff = c.uf("last_tsresol_before"), c.uf("last_tsoffset_before")
    OD = c.bytes("option_bytes", min_len=0)
    ostart = c.uf("option_data_offset")

    def odata(j):
        return OD[ostart(j):ostart(j) + odata_len(j)]

    def opt_def(j):
        inside = band(0 <= j, j < N)
        c.assume(implies(inside, band(ocode(j) >= 0, ocode(j) <= 65535, odata_len(j) >= 0, ostart(j) >= 0, ostart(j) + odata_len(j) <= len_(OD),
                                      implies(ocode(j) == 9, odata_len(j) == 1), implies(ocode(j) == 14, odata_len(j) == 8),
                                      lastres(j + 1) == ite(ocode(j) == 9, j, lastres(j)), lastoff(j + 1) == ite(ocode(j) == 14, j, lastoff(j)))))
        c.assume(band(lastres(0) == -1, lastoff(0) == -1, lastres(j) >= -1, lastres(j) < N, lastoff(j) >= -1, lastoff(j) < N))
        for fn, code in ((lastres, 9), (lastoff, 14)):
            k = fn(j)
            c.assume(implies(k >= 0, band(ocode(k) == code, odata_len(k) == (1 if code == 9 else 8), ostart(k) >= 0, ostart(k) + odata_len(k) <= len_(OD))))

    def make_opt(j):
        return c.record("dpkt.pcapng.PcapngOption", code=ocode(j), data=odata(j), len=odata_len(j))
    opts = SpecList("idb.opts", N, make_opt, lambda x, q: True)
    idb_made = []

    def idb_model(is_le):
        def mk(I, buf):
            b = to_bytes_val(buf)
            ok = c.prove(band(len_(b) == blen(J), b[0] == F[fpos(J)], b[len_(b) - 1] == F[fpos(J + 1) - 1]))
            c.ensure("interface_description.class_applied_to_exactly_the_bytes_of_the_first_such_block", ok)
            c.ensure("interface_description.byte_order_of_the_section", is_le == le)
            idb_made.append(1)
            return c.record("dpkt.IDB", opts=opts, linktype=1, snaplen=65535)
        return mk
    c.lib_model_raw("dpkt.pcapng.InterfaceDescriptionBlock", idb_model(False))
    c.lib_model_raw("dpkt.pcapng.InterfaceDescriptionBlockLE", idb_model(True))

    def canon_divisor(k):
        """the divisor the specification assigns when the last if_tsresol option among those seen is option k (k < 0: none)"""
        if c.truth_fork(k < 0):
            return 1e6
        rb = odata(k)[0]
        base = 2 if c.truth_fork(rb >= 128) else 10
        return FloatExpr("float_pow", (base, rb % 128))

    def canon_offset(k):
        if c.truth_fork(k < 0):
            return 0
        d = odata(k)
        bs = [d[i] for i in range(8)]
        if le:
            bs.reverse()
        v = 0
        for x in bs:
            v = v * 256 + x
        return ite(v >= 2 ** 63, v - 2 ** 64, v)
    gh = {"r": 0, "i": 0}
    rd_box = {}

    def same_float(a, b):
        if isinstance(a, FloatExpr) and isinstance(b, FloatExpr):
            return c.prove(a.pyvc_eq(c.I, b))
        return (not isinstance(a, FloatExpr)) and (not isinstance(b, FloatExpr)) and a == b

    def ghost_search(phase, e):
        if phase == "havoc":
            gh["r"] = c.fresh_int("block_index", 0, None)
            block_def(gh["r"])
            pos["p"] = fpos(gh["r"])
        elif phase == "step":
            gh["r"] = gh["r"] + 1
            c.cover("search_iteration")

    def ghost_opts(phase, e):
        slf = e.self
        if phase == "havoc":
            i = e.it
            gh["i"] = i
            opt_def(i)
            slf.attrs["_divisor"] = canon_divisor(lastres(i))
            slf.attrs["_tsoffset"] = canon_offset(lastoff(i))
        elif phase == "step":
            i = gh["i"]
            c.ensure("options.divisor_is_that_of_the_last_tsresol_option_so_far", same_float(slf.attrs["_divisor"], canon_divisor(lastres(i + 1))))
            c.ensure("options.offset_is_that_of_the_last_tsoffset_option_so_far", c.prove(eq(slf.attrs["_tsoffset"], canon_offset(lastoff(i + 1)))))
            c.cover("option_iteration")
    block_def(0)
    opt_def(0)
    c.loop(RD + ".__init__", "while 1", invariant=lambda e: band(0 <= gh["r"], gh["r"] <= J, pos["p"] == fpos(gh["r"]), e.idb is None),
           decreases=lambda e: J + 1 - gh["r"], ghost_step=ghost_search,
           havoc={"buf": lambda cur: None, "blk_type": lambda cur: None, "blk_len": lambda cur: None, "idb": lambda cur: None})
    def inv_opts(e):
        # (also at loop entry, where it pins the DEFAULTS: no such option seen yet -> 10^6 and 0)
        i = e.it
        opt_def(i)
        return band(same_float(e.self.attrs["_divisor"], canon_divisor(lastres(i))), c.prove(eq(e.self.attrs["_tsoffset"], canon_offset(lastoff(i)))))
    c.loop(RD + ".__init__", "for opt in idb.opts", invariant=inv_opts, ghost_step=ghost_opts,
           havoc={"self._divisor": lambda cur: cur, "self._tsoffset": lambda cur: cur, "opt_val": lambda cur: None, "pow_num": lambda cur: None})
    out = c.new(RD, f)
    c.ensure("no_raise", out.exc is None, kind="raises")
    if out.exc is not None:
        return
    rd = out.value
    opt_def(N)
    c.ensure("first_interface_description_found_and_decoded_once", len(idb_made) == 1)
    c.ensure("resolution_is_that_of_the_last_tsresol_option", same_float(rd.attrs["_divisor"], canon_divisor(lastres(N))))
    c.ensure("offset_is_that_of_the_last_tsoffset_option", c.prove(eq(rd.attrs["_tsoffset"], canon_offset(lastoff(N)))))
    c.ensure("byte_order_flag", rd.attrs.get("__le") is le)
    c.cover("returned")


h_init.must_cover = ["returned", "search_iteration", "option_iteration"]
