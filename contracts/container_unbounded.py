"""C12 / C09: tlexport.dpkt_dsb.Reader.__iter__ for a pcapng file with ANY number of blocks (the bounded harness container.reader stays
as the cross-check that also runs Reader.__init__ over a byte-level section header and interface description).

Ghost description of the file: fpos(q) = offset of block q, blen(q) its total length (fpos(q+1) = fpos(q) + blen(q), blen >= 12, a
multiple of 4), btype(q) its type code; the last block ends at the end of the file (or a tail shorter than a block header follows).
Loop contract, per block: the reader is positioned at fpos(r); an Enhanced Packet / (obsolete) Packet block yields exactly one item
(if_tsoffset + ((ts_high << 32) | ts_low) / divisor, packet data); a Decryption Secrets block yields (-1, secrets) wherever it sits;
any other block (section header, interface description, name resolution, statistics, custom ...) yields nothing; the reader then
stands at fpos(r+1).  Hence the items come out in file order, one per packet / secrets block - for files of any length.
dpkt's block classes are an assumed record model (pyvc/dpktmodel.py: a block class applied to the bytes of block r decodes the fields
the pcapng specification names, in the class's byte order); float arithmetic is an uninterpreted expression compared structurally."""
from pyvc.api import harness, eq, band, bor, bnot, implies, ite, len_, cat, const

RD = "tlexport.dpkt_dsb.Reader"


@harness(["C12", "C09", "C07"], "container.unbounded.iter", functions=[RD + ".__iter__"], cases=[(le, k) for le in (True, False) for k in ("EPB", "PB", "DSB", "OTHER")], timeout=20000)
def h_iter(c, le, kind):
    if c.native:
        return
    from pyvc import dpktmodel
    from pyvc.core import FloatExpr, bslice, Unsupported, to_bytes_val, BSlice, BCat
    dpktmodel.GHOST.clear()
    nb = c.int("n_blocks", 0, None)
    flen = c.int("file_len", 0, None)
    F = c.bytes("file", length=flen)
    fpos, blen = c.uf("block_offset"), c.uf("block_total_length")
    c.assume(fpos(0) == 0)
    c.assume(band(fpos(nb) <= flen, flen - fpos(nb) < 8))           # after the last block: nothing, or a tail shorter than a block header

    def u32(p):
        b = [F[p], F[p + 1], F[p + 2], F[p + 3]]
        if le:
            b.reverse()
        return ((b[0] * 256 + b[1]) * 256 + b[2]) * 256 + b[3]

    def block_def(q):
        c.assume(implies(band(0 <= q, q < nb), band(fpos(q) >= 0, blen(q) >= 12, fpos(q + 1) == fpos(q) + blen(q), fpos(q + 1) <= fpos(nb), u32(fpos(q) + 4) == blen(q))))
    gh = {"r": 0}
    code = {"EPB": 6, "PB": 2, "DSB": 10}.get(kind)
    from pyvc.core import FloatExpr as _FE
    divisor = _FE("float_pow", (c.choice("resolution_base", [10, 2]), c.int("resolution_exponent", 0, 127)))     # any divisor Reader.__init__ can compute
    tsoffset = c.int("if_tsoffset", -2 ** 40, 2 ** 40)
    ts_high, ts_low = c.int("ts_high", 0, 2 ** 32 - 1), c.int("ts_low", 0, 2 ** 32 - 1)
    pkt_data = c.bytes("pkt_data", min_len=1)
    secrets_len = c.int("secrets_length", 0, None)
    pos = {"p": 0}

    def fileop(m, a, k):
        if m == "read":
            n = a[0]
            lo = pos["p"]
            out = F[lo:lo + n]
            pos["p"] = lo + len_(out)
            return out
        if m == "seek":
            pos["p"] = a[0]
            return None
        raise Unsupported("file.%s" % m)
    f = c.recorder("file", handler=fileop)

    # dpkt block classes on the bytes of block r (assumed record model)
    def block_model(want_kind, fields):
        def mk(I, buf):
            b = to_bytes_val(buf)
            ok = c.prove(band(len_(b) == blen(gh["r"]), b[0] == F[fpos(gh["r"])], b[len_(b) - 1] == F[fpos(gh["r"] + 1) - 1]))
            c.ensure("block_class.applied_to_exactly_the_bytes_of_the_block", ok)
            c.ensure("block_class.matches_the_block_type_and_byte_order", kind == want_kind)
            return c.record("dpkt." + want_kind, **fields)
        return mk
    for cls, k2 in (("EnhancedPacketBlock", "EPB"), ("PacketBlock", "PB")):
        for suffix, is_le in (("", False), ("LE", True)):
            fn = block_model(k2, dict(ts_high=ts_high, ts_low=ts_low, pkt_data=pkt_data))
            c.lib_model_raw("dpkt.pcapng." + cls + suffix, (lambda fn, is_le: lambda I, buf: (c.ensure("block_class.byte_order", is_le == le), fn(I, buf))[1])(fn, is_le))
    # the DSB class is tlexport's own (executed from its real AST on top of dpkt.Packet.unpack)
    rd = c.obj(RD, _bare=True)
    for k2, v in (("__f", f), ("__le", le), ("_divisor", divisor), ("_tsoffset", tsoffset)):        # (the engine does not mangle private names)
        c.set(rd, k2, v)
    yields_at = {"frame": None}

    def ghost(phase, e):
        if phase == "havoc":
            gh["r"] = c.fresh_int("block_index", 0, None)
            block_def(gh["r"])
            pos["p"] = fpos(gh["r"])
            yields_at["frame"] = e._f
            e._f.yields = []
        elif phase == "step":
            r = gh["r"]
            got = e._f.yields
            if kind in ("EPB", "PB"):
                c.ensure("packet_block.yields_exactly_one_item", len(got) == 1)
                if len(got) == 1:
                    ts, data = got[0]
                    ticks = ts_high * 2 ** 32 + ts_low
                    want = FloatExpr("add", (tsoffset, FloatExpr("div", (ticks, divisor))))
                    c.ensure("packet_block.timestamp_is_offset_plus_ticks_over_divisor", isinstance(ts, FloatExpr) and c.prove(ts.pyvc_eq(c.I, want)))
                    c.ensure("packet_block.data", data is pkt_data)
            elif kind == "DSB":
                c.ensure("secrets_block.yields_exactly_one_item", len(got) == 1)
                if len(got) == 1:
                    ts, data = got[0]
                    c.ensure("secrets_block.marker", ts == -1)
                    lo = fpos(r) + 16
                    c.ensure("secrets_block.secrets_bytes", c.prove(eq(data, F[lo:lo + secrets_len])))
            else:
                c.ensure("other_block.yields_nothing", len(got) == 0)
            c.ensure("positioned_at_the_next_block", c.prove(eq(pos["p"], fpos(r + 1))))
            gh["r"] = r + 1
            e._f.yields = []
            c.cover("iteration")

    def inv(e):
        r = gh["r"]
        return band(0 <= r, r <= nb, pos["p"] == fpos(r))
    c.loop(RD + ".__iter__", "while 1", invariant=inv, decreases=lambda e: nb - gh["r"], ghost_step=ghost,
           havoc={"buf": lambda cur: None, "epb": lambda cur: None, "pb": lambda cur: None, "dsb": lambda cur: None, "ts": lambda cur: None})
    # the block the current iteration sees is of the case's kind
    r0 = c.fresh_int("any_block", 0, None)
    it = None

    def typed(q):
        t = u32(fpos(q))
        if code is not None:
            return t == code
        return band(t != 6, t != 2, t != 10)
    # (assumed for the block under the loop head only - the case split is over the kind of the CURRENT block)
    orig_block_def = block_def

    def block_def2(q):
        orig_block_def(q)
        c.assume(implies(band(0 <= q, q < nb), typed(q)))
        if kind == "DSB":
            c.assume(implies(band(0 <= q, q < nb), band(secrets_len >= 0, 20 + secrets_len <= blen(q), u32(fpos(q) + 12) == secrets_len)))
    block_def = block_def2
    out = c.iterate(rd)
    c.ensure("no_raise", out.exc is None, kind="raises")
    if out.exc is None:
        c.ensure("iteration_ends_only_at_the_end_of_the_file", c.prove(eq(gh["r"], nb)))
    c.cover("returned")


h_iter.must_cover = ["returned", "iteration"]
