"""C04: concurrent connections are demultiplexed; each packet reaches exactly the session it belongs to and
session code writes nothing outside its own object (isolation).

routing contracts (main.handle_packet, main.handle_quic_packet) + exact 4-tuple matching (ports.py:
demux.matches_session) + syntactic frame obligations over every per-connection class."""
from pyvc.api import harness, eq, band, bor, bnot, implies, len_, cat, const

M = "tlexport.main"
SE = "tlexport.session.Session"
QS = "tlexport.quic.quic_session.QuicSession"


@harness(["C04", "C03"], "demux.tls_routing", functions=[M + ".handle_packet"])
def h_tls_routing(c):
    """sessions A, B (any match results): the packet is handed to the FIRST matching session and to no other; a new
    session is created only if none matches; the session list is otherwise untouched"""
    if c.native:
        return
    mA, mB = c.bool("A_matches"), c.bool("B_matches")
    A = c.recorder("session_A", handler=lambda m, a, k: mA if m == "matches_session" else None)
    B = c.recorder("session_B", handler=lambda m, a, k: mB if m == "matches_session" else None)
    sessions = [A, B]
    made = []
    c.summary_override(SE + ".__init__", lambda ctx, cls, *a, **k: made.append(a) or ctx.make_obj(cls))
    pkt = c.obj("tlexport.packet.Packet", sport=c.int("sport", 0, 65535), dport=c.int("dport", 0, 65535))
    out = c.call(M + ".handle_packet", pkt, c.namespace(), [], sessions, {}, True, False)
    c.ensure("no_raise", out.exc is None, kind="raises")
    if out.exc is not None:
        return
    hA = [x for x in c.calls(A) if x[0] == "handle_packet"]
    hB = [x for x in c.calls(B) if x[0] == "handle_packet"]
    c.ensure("A_gets_it_iff_A_matches", (len(hA) == 1) == c.truth_fork(mA) and len(hA) <= 1)
    c.ensure("B_gets_it_iff_only_B_matches", (len(hB) == 1) == c.truth_fork(band(bnot(mA), mB)) and len(hB) <= 1)
    c.ensure("same_packet_object", all(x[1][0] is pkt for x in hA + hB))
    c.ensure("new_session_only_if_none_matches", implies_py(len(made) > 0, not c.truth_fork(bor(mA, mB))))
    c.ensure("existing_sessions_kept", sessions[0] is A and sessions[1] is B and len(sessions) == 2 + len(made))


def implies_py(a, b):
    return (not a) or b


def mk_qsession(c, tag, lens):
    cc, sc = c.new_set_of([]), c.new_set_of([])
    cids = []
    for i, n in enumerate(lens):
        if n is None:
            continue
        cid = c.bytes("%s_cid%d" % (tag, i), length=n)
        for other in cids:
            if len_(other) == n and n > 0:
                c.assume(bnot(eq(other, cid)))          # a set holds distinct members
        if any(len_(o) == 0 for o in cids) and n == 0:
            continue
        cids.append(cid)
        (cc if i % 2 == 0 else sc).items.append(cid) if not c.native else (cc if i % 2 == 0 else sc).add(bytes(cid))
    s = c.obj(QS, client_cids=cc, server_cids=sc, server_ip=c.bytes(tag + "_sip", length=4), client_ip=c.bytes(tag + "_cip", length=4),
              server_port=c.int(tag + "_sport", 0, 65535), client_port=c.int(tag + "_cport", 0, 65535))
    return s, cids


QR_CASES = [("long", a0, a1, b0, d) for a0 in (0, 4) for a1 in (None, 0, 8) for b0 in (None, 0, 4, 8) for d in (0, 4, 8)] + \
           [("short", a0, a1, b0, None) for a0 in (0, 4) for a1 in (None, 0, 8) for b0 in (None, 0, 4, 8)]


@harness(["C04", "C02", "C18"], "demux.quic_routing", functions=[M + ".handle_quic_packet"], cases=QR_CASES, timeout=20000)
def h_quic_routing(c, header, a0, a1, b0, dl):
    """two QUIC sessions with arbitrary known connection IDs (zero-length included): a datagram is handed to the first
    session (list order) that owns its destination connection ID - a NON-EMPTY known ID equal to the long-header DCID,
    resp. a non-empty known ID that is a prefix of the short-header bytes, the LONGEST such ID being the guessed DCID -
    or else whose address 4-tuple matches; to exactly one session; a zero-length ID never attracts a packet."""
    if c.native:
        return
    A, cidsA = mk_qsession(c, "A", [a0, a1])
    B, cidsB = mk_qsession(c, "B", [b0])
    handled = []
    c.summary_override(QS + ".handle_packet", lambda ctx, slf, packet, dcid, ver: handled.append((slf, packet, dcid, ver)))
    made = []

    def s_new(ctx, cls, *a, **k):
        o = ctx.make_obj(cls)
        made.append(o)
        return o
    c.summary_override(QS + ".__init__", s_new)
    if header == "long":
        dcid = c.bytes("dcid", length=dl)
        ver = c.bytes("version", length=4)
        payload = cat(c.bytes_of([c.int("first", 192, 255)]), ver, c.bytes_of([dl]), dcid, c.bytes("rest", min_len=1))
    else:
        payload = cat(c.bytes_of([c.int("first", 64, 127)]), c.bytes("rest", min_len=20, max_len=64))
        dcid = None
    pkt = c.obj("tlexport.packet.Packet", tls_data=payload, ip_src=c.bytes("p_src", length=4), ip_dst=c.bytes("p_dst", length=4),
                sport=c.int("p_sport", 0, 65535), dport=c.int("p_dport", 0, 65535))
    sessions = [A, B]
    # the address match is exact 4-tuple equality (proved by demux.matches_session); here only its verdict matters
    tm = {id(A): c.bool("A_address_matches"), id(B): c.bool("B_address_matches")}
    c.summary_override(QS + ".matches_session_dgram", lambda ctx, slf, *a: tm[id(slf)])
    out = c.call(M + ".handle_quic_packet", pkt, [], sessions, {}, True)
    c.ensure("no_raise", out.exc is None, kind="raises")
    if out.exc is not None:
        return

    def tuple_match(s):
        return tm[id(s)]

    def owner_cid(cids):
        """the connection ID by which this session owns the packet (longest non-empty match), or None"""
        best = None
        for cid in cids:
            n = len_(cid)
            if n == 0:
                continue
            hit = eq(cid, dcid) if header == "long" else eq(cid, payload[1:1 + n])
            if (header == "long" and n != len_(dcid)):
                continue
            if c.truth_fork(hit) and (best is None or n > len_(best)):
                best = cid
        return best

    want = None
    for s, cids in ((A, cidsA), (B, cidsB)):
        oc = owner_cid(cids)
        if oc is not None:
            want = (s, oc if header == "short" else dcid)
            break
        if c.truth_fork(tuple_match(s)):
            want = (s, dcid if header == "long" else const(b""))
            break
    if want is None:
        if header == "long":
            c.ensure("unowned_long_header.new_session_handles_it", len(made) == 1 and len(handled) == 1 and handled[0][0] is made[0]
                     and sessions[-1] is made[0] and len(sessions) == 3)
        else:
            c.ensure("unowned_short_header.dropped", len(handled) == 0 and len(made) == 0)
        c.cover("unowned")
        return
    c.ensure("delivered_exactly_once", len(handled) == 1 and len(made) == 0)
    if len(handled) == 1:
        c.ensure("delivered_to_the_owner", handled[0][0] is want[0])
        c.ensure("guessed_dcid", c.prove(eq(handled[0][2], want[1])))
        c.ensure("same_packet_object", handled[0][1] is pkt)
    c.cover("owned")


h_quic_routing.must_cover = ["owned", "unowned"]

PER_CONNECTION_CLASSES = ["tlexport.session.Session", "tlexport.decryptor.Decryptor", "tlexport.output_builder.OutputBuilder",
                          "tlexport.quic.quic_session.QuicSession", "tlexport.quic.quic_decryptor.QuicDecryptor",
                          "tlexport.quic.quic_tls_parser.QuicTlsSession", "tlexport.quic.quic_output_builder.QUICOutputbuilder",
                          "tlexport.tlsrecord.TlsRecord"]
SHARED_HELPER_MODULES = ["tlexport.key_derivator", "tlexport.quic.quic_key_generation", "tlexport.quic.quic_dissector",
                         "tlexport.quic.quic_frame", "tlexport.quic.quic_decode", "tlexport.cipher_suite_parser", "tlexport.checksums",
                         "tlexport.keylog_reader"]
# the only writes through a parameter that the code is meant to make: the per-datagram Packet being consumed
ALLOWED_PARAM_WRITES = {"tlexport.quic.quic_dissector.extract_quic_packet": {"param:in_packet"}}


@harness(["C04", "C03", "C18", "C08", "C01", "C02", "C15"], "demux.isolation_frames", functions=[])
def h_frames(c):
    """FRAME obligations (syntactic effect inference on the real ASTs, conservative): every method of the
    per-connection classes writes only through `self`, locals or its own parameters, never a module-level name; the
    shared helper modules write no module-level state at all.  Hence two sessions can only interact through objects
    passed to both - the key log and the port map, which are read-only here (separate obligations)."""
    if c.native:
        return
    from pyvc import frames
    import ast
    for q in PER_CONNECTION_CLASSES:
        cls = c.const_of(q)
        mod_globals = set(cls.module.globals)
        for name, fv in sorted(cls.methods.items()):
            w = frames.writes_of(fv.node, mod_globals)
            bad = sorted(x for x in w if x.startswith("global:") or x == "unknown")
            c.ensure("frame[%s.%s].writes_only_self_locals_params" % (cls.name, name), not bad, kind="frame")
    for m in SHARED_HELPER_MODULES:
        mi = c.I.module(m)
        for node in mi.tree.body:
            if isinstance(node, ast.FunctionDef):
                w = frames.writes_of(node, set(mi.globals))
                allowed = ALLOWED_PARAM_WRITES.get(m + "." + node.name, set())
                bad = sorted(x for x in w if (x.startswith("global:") or x == "unknown" or x.startswith("param:")) and x not in allowed)
                c.ensure("frame[%s.%s].pure_wrt_shared_state" % (m.split(".")[-1], node.name), not bad, kind="frame")
    # the class-level attributes of the per-connection classes are immutable constants (no shared mutable defaults)
    for q in PER_CONNECTION_CLASSES:
        cls = c.const_of(q)
        for k, v in cls.attrs.items():
            c.ensure("frame[%s].class_attribute_%s_is_immutable" % (cls.name, k), not isinstance(v, (list, dict, set)) and type(v).__name__ not in ("SetVal", "ByteArr"), kind="frame")


ALL_MODULES = ["tlexport.main", "tlexport.session", "tlexport.decryptor", "tlexport.key_derivator", "tlexport.output_builder", "tlexport.packet",
               "tlexport.tlsrecord", "tlexport.keylog_reader", "tlexport.checksums", "tlexport.cipher_suite_parser", "tlexport.dpkt_dsb",
               "tlexport.quic.quic_session", "tlexport.quic.quic_dissector", "tlexport.quic.quic_frame", "tlexport.quic.quic_decode",
               "tlexport.quic.quic_key_generation", "tlexport.quic.quic_decryptor", "tlexport.quic.quic_output_builder",
               "tlexport.quic.quic_tls_parser", "tlexport.quic.quic_packet"]


@harness(["C18"], "determinism.no_ambient_reads", functions=[])
def h_ambient(c):
    """FRAME obligation (syntactic): no function of the export path reads the clock, the environment, random
    numbers, object identities/hashes or the working directory"""
    if c.native:
        return
    from pyvc import frames
    import ast
    for m in ALL_MODULES:
        mi = c.I.module(m)
        for node in ast.walk(mi.tree):
            if isinstance(node, ast.FunctionDef):
                bad = sorted(frames.reads_ambient(node))
                c.ensure("frame[%s.%s].no_ambient_state" % (m.split(".")[-1], node.name), not bad, kind="frame")


@harness(["C09", "C04", "C01", "C02"], "keylog.sessions_share_the_runs_keylog", functions=[SE + ".__init__", QS + ".__init__"], cases=[("tls",), ("quic",)])
def h_alias(c, kind):
    """a session keeps the run's key list ITSELF (not a snapshot): secrets from a DSB that appears later in the capture
    are visible when the session derives its keys; the list is not modified by the constructor"""
    if c.native:
        return
    keylog = [_key(c, "k0")]
    pkt = c.obj("tlexport.packet.Packet", ipv6_packet=False, ip_src=c.bytes("ip_src", length=4), ip_dst=c.bytes("ip_dst", length=4),
                sport=c.int("sport", 0, 65535), dport=c.int("dport", 0, 65535), ethernet_src=c.bytes("es", length=6),
                ethernet_dst=c.bytes("ed", length=6), seq=c.int("seq", 0, 2 ** 32 - 1), tls_data=c.bytes("data", min_len=1), timestamp=1.0)
    if kind == "tls":
        out = c.new(SE, pkt, [443], keylog, {}, True, False)
    else:
        out = c.new(QS, pkt, [443], keylog, {}, True)
    c.ensure("no_raise", out.exc is None, kind="raises")
    if out.exc is None:
        c.ensure("list_untouched", len(keylog) == 1)
        # what the identity is for: a secret the run appends later (a DSB further down the capture) is in the session's view of the key log
        late = _key(c, "late")
        keylog.append(late)
        view = c.get(out.value, "keylog")
        c.ensure("later_secrets_are_visible_to_the_session", any(x is late for x in view))


def _key(c, tag):
    """a key-log entry as keylog_reader.Key builds it: label, client random and secret as strings (a record-protection label here)"""
    return c.obj("tlexport.keylog_reader.Key", _bare=True, label="CLIENT_RANDOM", client_random="ab" * 32, value="cd" * 48)


def _mutable_reach(root, stop_ids):
    """the mutable heap objects reachable from `root` (engine heap: lists, dicts, sets, bytearrays, instances), not descending
    into the objects the harness itself handed in (`stop_ids`)"""
    from pyvc.interp import Obj, SetVal
    from pyvc.core import ByteArr
    seen, todo = {}, [root]
    while todo:
        o = todo.pop()
        if id(o) in seen or id(o) in stop_ids:
            continue
        if isinstance(o, (list, dict, SetVal, ByteArr, Obj)):
            seen[id(o)] = o
        if isinstance(o, (list, tuple)):
            todo.extend(o)
        elif isinstance(o, dict):
            todo.extend(o.values())
            todo.extend(k for k in o.keys() if isinstance(k, tuple))
        elif isinstance(o, SetVal):
            todo.extend(o.items)
        elif isinstance(o, Obj):
            todo.extend(o.attrs.values())
    return seen


def _aliased_containers(root, stop_ids):
    """containers (lists, dicts, sets, bytearrays) reachable from `root` through more than one edge"""
    from pyvc.interp import Obj, SetVal
    from pyvc.core import ByteArr
    edges, seen, todo = {}, set(), [root]
    while todo:
        o = todo.pop()
        if id(o) in seen or id(o) in stop_ids:
            continue
        seen.add(id(o))
        if isinstance(o, (list, tuple)):
            kids = list(o)
        elif isinstance(o, dict):
            kids = list(o.values())
        elif isinstance(o, SetVal):
            kids = list(o.items)
        elif isinstance(o, Obj):
            kids = list(o.attrs.values())
        else:
            kids = []
        for k in kids:
            if isinstance(k, (list, dict, SetVal, ByteArr)) and id(k) not in stop_ids:
                edges[id(k)] = edges.get(id(k), 0) + 1
            todo.append(k)
    return [i for i, n in edges.items() if n > 1]


@harness(["C04", "C03", "C18", "C01", "C02", "C15", "C08"], "demux.fresh_instances_are_separate", functions=[SE + ".__init__", QS + ".__init__", "tlexport.quic.quic_tls_parser.QuicTlsSession.__init__"],
         cases=[("Session",), ("QuicSession",), ("QuicTlsSession",)])
def h_separate(c, which):
    """SEPARATION: two connections created by the real constructors share no mutable object except the run-wide ones they are
    handed (key list, port map, port list) - no list/dict/set/bytearray/instance reachable from one session is reachable from
    the other, from a class attribute or from a module-level name.  (A shallow copy of a module-level template holding lists
    would make two connections' reassembly buffers one object.)"""
    if c.native:
        return
    keylog, portmap, ports = [_key(c, "k0")], {}, [443]

    def packet(tag):
        return c.obj("tlexport.packet.Packet", ipv6_packet=False, ip_src=c.bytes("ip_src" + tag, length=4), ip_dst=c.bytes("ip_dst" + tag, length=4),
                     sport=c.int("sport" + tag, 0, 65535), dport=c.int("dport" + tag, 0, 65535), ethernet_src=c.bytes("es" + tag, length=6),
                     ethernet_dst=c.bytes("ed" + tag, length=6), seq=c.int("seq" + tag, 0, 2 ** 32 - 1), tls_data=c.bytes("data" + tag, min_len=1), timestamp=1.0)

    def make(tag):
        if which == "Session":
            return c.new(SE, packet(tag), ports, keylog, portmap, True, False)
        if which == "QuicSession":
            return c.new(QS, packet(tag), ports, keylog, portmap, True)
        return c.new("tlexport.quic.quic_tls_parser.QuicTlsSession")
    a, b = make("A"), make("B")
    c.ensure("no_raise", a.exc is None and b.exc is None, kind="raises")
    if a.exc is not None or b.exc is not None:
        return
    shared_ok = {id(keylog), id(portmap), id(ports)} | {id(k) for k in keylog}
    ra, rb = _mutable_reach(a.value, shared_ok), _mutable_reach(b.value, shared_ok)
    common = [o for i, o in ra.items() if i in rb]
    c.ensure("two_instances_share_no_mutable_object", not common)
    # ... and WITHIN one connection every container is its own object: no list / dict / set / bytearray hangs on two places of the
    # instance (dict.fromkeys(keys, []) or [[]] * n would make the buffers of all encryption levels / directions one list)
    c.ensure("no_container_of_an_instance_is_reachable_twice", not _aliased_containers(a.value, shared_ok))
    # nothing mutable of an instance hangs on a module-level name or a class attribute
    glob = {}
    for q in PER_CONNECTION_CLASSES + ["tlexport.main"]:
        mod = c.const_of(q).module if q != "tlexport.main" else c.I.module(q)
        for name, v in list(mod.globals.items()):
            if type(v).__name__ in ("ClassVal", "FuncVal", "ModuleRef", "External", "Builtin", "_Unevaluated"):
                if type(v).__name__ == "ClassVal":
                    for av in v.attrs.values():
                        glob.update(_mutable_reach(av, shared_ok))
                continue
            glob.update(_mutable_reach(v, shared_ok))
    c.ensure("no_instance_state_on_module_or_class_level", not [o for i, o in ra.items() if i in glob])
    c.cover("built")


h_separate.must_cover = ["built"]
