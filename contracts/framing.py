"""C05 / C07 (metadata) / C08: TCP stream reassembly and TLS record framing in session.py.

extract_server_buf / extract_client_buf are checked against an independent framing oracle
   frame(D) = the unique split of the byte stream D at 5-byte record headers
with the stream D = concatenation of the buffered segments in sequence order.
BOUNDED stand-in (stated bound, never counted as unbounded proof): buffers of at most MAXP segments carrying at
most MAXB bytes in total; segment sizes, contents, sequence numbers symbolic.  Within the bound every loop is
unrolled completely, so the check is exhaustive for those sizes.  handle_packet (dedupe) is unbounded."""
from pyvc.api import harness, len_, ite, eq, band, bor, bnot, implies, be, cat, const
from contracts.common import full_session

SE = "tlexport.session.Session"
import os as _os
# quick: 3 segments / 14 bytes (2 records); thorough: 3 segments / 19 bytes (3 records)
MAXP, MAXB = (3, 19) if _os.environ.get("PYVC_TIER") == "thorough" else (3, 14)


def spec_frames(c, D):
    """oracle: boundaries of complete records in D, or None if D does not end on a record boundary"""
    out, idx, total = [], 0, len_(D)
    for _ in range(MAXB // 5 + 2):
        if c.truth_fork(idx == total):
            return out
        if c.truth_fork(total - idx < 5):
            return None
        rl = be(D[idx + 3: idx + 5]) + 5
        out.append((idx, rl))
        idx = idx + rl
        if c.truth_fork(idx > total):
            return None
    return None


def overlaps(c, lo, hi, s, e):
    """packet byte range [lo,hi) intersects record byte range [s,e)  (both non-empty)"""
    return (s < hi) & (e > lo)


@harness(["C05", "C06", "C07", "C08", "C01"], "framing.extract", functions=[SE + ".extract_server_buf", SE + ".extract_client_buf", "tlexport.tlsrecord.TlsRecord.__init__"],
         cases=[(d, n) for d in ("server", "client") for n in range(1, MAXP + 1)], timeout=20000)
def h_extract(c, direction, npk):
    buf_attr, rec_attr = direction + "_packet_buffer", direction + "_tls_records"
    pkts, lens = [], []
    for i in range(npk):
        ln = c.int("len%d" % i, 1, MAXB)          # run() never buffers empty segments
        data = c.bytes("data%d" % i, length=ln)
        pkts.append(c.obj("tlexport.packet.Packet", seq=c.int("seq%d" % i, 0, 2 ** 32 - 1), tls_data=data, timestamp=float(i)))
        lens.append(ln)
    total = sum(lens[1:], lens[0])
    c.assume(total <= MAXB)
    for i in range(npk - 1):                        # distinct sequence numbers (handle_packet dedupes)
        for j in range(i + 1, npk):
            c.assume(c.get(pkts[i], "seq") != c.get(pkts[j], "seq"))
    order = list(pkts)
    s = full_session(c, server_packet_buffer=[], client_packet_buffer=[], server_tls_records=[], client_tls_records=[],
                     server_counter=0, client_counter=0)
    c.set(s, buf_attr, list(order))
    pre_records = [c.opaque("earlier_record")]
    c.set(s, rec_attr, list(pre_records))
    out = c.method(s, "extract_%s_buf" % direction)
    c.ensure("no_raise", out.exc is None, kind="raises")
    if out.exc is not None:
        return
    # the oracle's view: the segments form a stream iff SOME ordering chains them contiguously modulo 2^32
    import itertools
    srt, contiguous = list(pkts), False
    for perm in itertools.permutations(range(npk)):
        chain = True
        for a, b in zip(perm, perm[1:]):
            chain = band(chain, (c.get(pkts[a], "seq") + len_(c.get(pkts[a], "tls_data"))) % (2 ** 32) == c.get(pkts[b], "seq"))
        if c.truth_fork(chain):
            srt, contiguous = [pkts[i] for i in perm], True
            break
    buf_after, recs_after = c.get(s, buf_attr), c.get(s, rec_attr)
    new = recs_after[len(pre_records):]
    c.ensure("records.earlier_ones_kept", len(recs_after) >= len(pre_records) and all(x is y for x, y in zip(recs_after, pre_records)))
    D = cat(*[c.get(p, "tls_data") for p in srt])
    frames = spec_frames(c, D) if contiguous else None
    if frames is None:
        c.ensure("incomplete.no_record_released", len(new) == 0)
        c.ensure("incomplete.segments_kept", len(buf_after) == npk and all(any(x is p for x in buf_after) for p in pkts))
        c.cover("incomplete")
        return
    c.ensure("complete.buffer_emptied", len(buf_after) == 0)
    c.ensure("complete.record_count", len(new) == len(frames))
    if len(new) != len(frames):
        return
    offs = [0]
    for p in srt:
        offs.append(offs[-1] + len_(c.get(p, "tls_data")))
    for r, (st, rl) in zip(new, frames):
        c.ensure("record.raw_is_the_stream_window", eq(c.get(r, "raw"), D[st:st + rl]))
        c.ensure("record.fields", band(c.get(r, "record_type") == D[st], eq(c.get(r, "record_version"), D[st + 1:st + 3]),
                                       eq(c.get(r, "record_length"), D[st + 3:st + 5]), eq(c.get(r, "binary"), D[st + 5:st + rl])))
        md = c.get(r, "metadata")
        want = [p for i, p in enumerate(srt) if c.truth_fork(overlaps(c, offs[i], offs[i + 1], st, st + rl))]
        c.ensure("record.metadata_is_exactly_the_carrying_segments_in_order",
                 len(md) == len(want) and all(x is y for x, y in zip(md, want)))
        c.ensure("record.metadata_nonempty", len(md) >= 1)
    c.cover("complete")


h_extract.must_cover = ["complete", "incomplete"]


def sorted_by_seq(c, pkts):
    """insertion sort by seq (spec side; forks on the symbolic comparisons)"""
    out = []
    for p in pkts:
        pos = len(out)
        while pos > 0 and c.truth_fork(c.get(out[pos - 1], "seq") > c.get(p, "seq")):
            pos -= 1
        out.insert(pos, p)
    return out


@harness(["C05", "C04"], "framing.handle_packet", functions=[SE + ".handle_packet"], cases=[("server",), ("client",)])
def h_dedupe(c, direction):
    """a segment is buffered iff no segment with the same sequence number was seen before in ITS direction; the
    other direction's bookkeeping is untouched; arrival order is kept (unbounded: the seen-lists are arbitrary)"""
    sip, cip = c.bytes("server_ip", length=4), c.bytes("client_ip", length=4)
    sp, cp = c.int("server_port", 0, 65535), c.int("client_port", 0, 65535)
    seen_own = [c.int("seen%d" % i, 0, 2 ** 32 - 1) for i in range(3)]
    seen_other = [c.int("other%d" % i, 0, 2 ** 32 - 1) for i in range(2)]
    earlier = [c.opaque("p0"), c.opaque("p1")]
    s = full_session(c, server_ip=sip, client_ip=cip, server_port=sp, client_port=cp,
                     seen_packets_server=list(seen_own if direction == "server" else seen_other),
                     seen_packets_client=list(seen_other if direction == "server" else seen_own), packet_buffer=list(earlier))
    seq = c.int("seq", 0, 2 ** 32 - 1)
    if direction == "server":
        pkt = c.obj("tlexport.packet.Packet", seq=seq, ip_src=sip, sport=sp, ip_dst=cip, dport=cp)
    else:
        pkt = c.obj("tlexport.packet.Packet", seq=seq, ip_src=cip, sport=cp, ip_dst=sip, dport=sp)
        c.assume(bnot(band(eq(cip, sip), cp == sp)))
    out = c.method(s, "handle_packet", pkt)
    c.ensure("no_raise", out.exc is None, kind="raises")
    if out.exc is not None:
        return
    dup = bor(*[seq == x for x in seen_own])
    own, other = ("seen_packets_server", "seen_packets_client") if direction == "server" else ("seen_packets_client", "seen_packets_server")
    buf = c.get(s, "packet_buffer")
    if c.truth_fork(dup):
        c.ensure("duplicate.dropped", len(buf) == 2 and len(c.get(s, own)) == 3)
    else:
        c.ensure("new.appended_last", len(buf) == 3 and buf[2] is pkt and buf[0] is earlier[0] and buf[1] is earlier[1])
        c.ensure("new.remembered", len(c.get(s, own)) == 4 and c.same_object(c.get(s, own)[3], seq))
    c.ensure("other_direction_untouched", len(c.get(s, other)) == 2)


def early_at_empty(c, perm, cuts, S, total):
    """region of the open finding, computed by running the reassembly policy on the ghost description: some release happens from a
    buffer that does NOT start where the data released so far ended - an early segment arrived while the buffer was empty, and the bytes
    buffered from it on happen to parse as complete records (framed as if the early segment began a record).  Histories in which an
    early segment merely WAITS in the buffer until the missing one arrives are outside the region: there the property is claimed."""
    pos, buf = 0, []
    for a in perm:
        buf = sorted(buf + [a])
        if any(y != x + 1 for x, y in zip(buf, buf[1:])):
            continue                       # a gap inside the buffer: the code waits
        start, end = cuts[buf[0]], cuts[buf[-1] + 1]
        idx = start                         # the code frames from the first buffered byte, wherever that is
        done = False
        for _ in range(MAXB // 5 + 2):
            if c.truth_fork(idx == end):
                done = True
                break
            if c.truth_fork(end - idx < 5):
                break
            idx = idx + be(S[idx + 3: idx + 5]) + 5
            if c.truth_fork(idx > end):
                break
        if done:
            if c.truth_fork(start != pos):
                return True                 # released from a misaligned buffer: the recorded finding
            pos, buf = end, []
    return False


PERMS = {1: [(0,)], 2: [(0, 1), (1, 0)], 3: [(0, 1, 2), (0, 2, 1), (1, 0, 2), (1, 2, 0), (2, 0, 1), (2, 1, 0)]}


@harness(["C05", "C08", "C01"], "framing.history", functions=[SE + ".get_tls_records", SE + ".extract_server_buf", SE + ".extract_client_buf"],
         cases=[(d, n, perm) for d in ("server", "client") for n in (1, 2, 3) for perm in PERMS[n]], timeout=20000)
def h_history(c, direction, npk, perm):
    """one direction's byte stream S (<= MAXB bytes, any content) cut into npk segments at arbitrary points, initial
    sequence number arbitrary (mod 2^32), captured in the order `perm`: the records handed to handle_tls_record are,
    in order, a prefix of frame(S) - and all of frame(S) if S ends on a record boundary.  (BOUNDED: npk <= 3.)"""
    total = c.int("stream_len", 1, MAXB)
    S = c.bytes("stream", length=total)
    isn = c.int("isn", 0, 2 ** 32 - 1)
    cuts = [0] + [c.int("cut%d" % i, 1, MAXB) for i in range(1, npk)] + [total]
    for a, b in zip(cuts, cuts[1:]):
        c.assume(a < b)
    sip, cip = c.bytes("server_ip", length=4), c.bytes("client_ip", length=4)
    c.assume(bnot(eq(sip, cip)))
    segs = []
    for i in range(npk):
        seq = (isn + cuts[i]) % (2 ** 32)
        src, dst = (sip, cip) if direction == "server" else (cip, sip)
        segs.append(c.obj("tlexport.packet.Packet", seq=seq, tls_data=S[cuts[i]:cuts[i + 1]], timestamp=float(i), ip_src=src, ip_dst=dst,
                          sport=443 if direction == "server" else 50000, dport=50000 if direction == "server" else 443))
    # known findings (DESIGN 5, #15/#16): excluded regions are proved separately to be the ONLY failing ones
    if c.known_finding("C05-early-segment-at-empty-buffer") and early_at_empty(c, perm, cuts, S, total):
        c.cover("inside_region_of_known_finding")
        return      # inside the region of the recorded finding (re-confirmed natively by the check); everything
                    # OUTSIDE the region is still proved below
    s = full_session(c, server_ip=sip, client_ip=cip, server_port=443, client_port=50000, packet_buffer=[segs[i] for i in perm],
                     server_packet_buffer=[], client_packet_buffer=[], server_tls_records=[], client_tls_records=[],
                     server_counter=0, client_counter=0)
    delivered = []
    c.summary_override(SE + ".handle_tls_record", lambda ctx, slf, record, isserver: delivered.append((record, isserver)))
    out = c.method(s, "get_tls_records")
    c.ensure("no_raise", out.exc is None, kind="raises")
    if out.exc is not None:
        return
    frames = []
    idx = 0
    complete = False
    for _ in range(MAXB // 5 + 1):
        if c.truth_fork(idx == total):
            complete = True
            break
        if c.truth_fork(total - idx < 5):
            break
        rl = be(S[idx + 3: idx + 5]) + 5
        if c.truth_fork(idx + rl > total):
            break
        frames.append((idx, rl))
        idx = idx + rl
    c.ensure("delivered.direction", all(c.same_object(d, direction == "server") for _, d in delivered))
    c.ensure("delivered.is_prefix_of_frame(S)", len(delivered) <= len(frames) and
             all(c.prove(eq(c.get(r, "raw"), S[st:st + rl])) for (r, _), (st, rl) in zip(delivered, frames)))
    if complete:
        c.ensure("delivered.all_of_frame(S)_when_S_ends_on_a_boundary", len(delivered) == len(frames))
    c.cover("complete" if complete else "partial")
