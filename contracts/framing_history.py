"""C05 / C08 / C01: UNBOUNDED inductive step of the capture-order history in Session.get_tls_records.

get_tls_records is a fold over the session's packets (arrival order, duplicates already removed by handle_packet): each packet is
put into its direction's reassembly buffer, extract_<dir>_buf is called, and the records it released are handed to handle_tls_record.
The loop contract below is proved for ANY number of packets, any interleaving of the two directions, any stream, any cut points.

Ghost state of the direction under contract (S = the byte stream that endpoint sent, bpos(q) = start of its q-th record):
    r            records delivered so far;  pos = bpos(r) is a record boundary of S
    m, lo, hi    the buffered segments as windows [lo(j), hi(j)) of S, in offset order; if m > 0 the first one starts at pos
INVARIANT  the records handed to handle_tls_record so far are exactly records 0..r-1 of S, in order, each once, with the direction's
           flag; the released-records list is empty between iterations; the buffer is as described.
STEP       a packet of the other direction changes nothing of this.  A packet of this direction carrying the window [a, b):
           extract's contract (below) either releases nothing - then the buffer is the old one with the window inserted - or
           releases the records r..r'-1, whose last byte is the end of the now gap-free buffer - then exactly those are delivered,
           in order, in this very iteration, the buffer is empty and pos advances to bpos(r').

Callee contract used for extract_server_buf / extract_client_buf (the SET-level form of framing.unbounded's per-call contract):
    released  <=>  the buffered windows, in offset order, are gap-free (first gap index G = m)  and  their end e is a record
    boundary of S;  then the records appended are those of S between pos and e, the buffer is emptied;  otherwise nothing changes.
Its derivation from the proved per-call contract uses: (i) list.sort + the sort-key obligation (offset order = key order below 2^31
bytes), (ii) contiguity mod 2^32 = equality of window ends and starts for disjoint windows below 2^31 bytes, (iii) lemma
history.lemmas.telescope (a gap-free run of windows starting at pos is S[pos:e]), (iv) lemma history.lemmas.shift (the records of
S[pos:e] are the records of S from r on, shifted by pos).  (iii) and (iv) are proved by induction (base and step by z3); (i), (ii)
and the use of the induction schema are on paper.

History preconditions (where the property is claimed), stated per step relative to the ghost state: the arriving window lies in
[pos, len(S)], is disjoint from every buffered window (an insertion index exists), and - region of the recorded finding
C05-early-segment-at-empty-buffer excluded - a segment arriving at an EMPTY buffer starts at pos.  They follow from 'the segments are
pairwise disjoint windows of S' and 'no early arrival at an empty buffer' by a coverage argument that is not machine-checked; the
bounded harness framing.history checks the composed statement exhaustively for <= 3 segments."""
from pyvc.api import harness, eq, band, bor, bnot, implies, ite, len_, const

SE = "tlexport.session.Session"
TWO32 = 2 ** 32
PROPS = ["C05", "C08", "C01"]


class GhostBuffer:
    """the direction's reassembly buffer as the code sees it between extract calls: it only ever appends to it and hands it to
    extract_<dir>_buf (whose contract speaks about the ghost description, not about this object)"""

    def __init__(self, name):
        self.name = name
        self.pending = []

    def pyvc_getattr(self, I, name):
        from pyvc.interp import Builtin
        from pyvc.core import Unsupported
        if name == "append":
            return Builtin("list.append", lambda I, x: self.pending.append(x))
        raise Unsupported("get_tls_records uses the reassembly buffer other than by append (%s)" % name)

    def pyvc_havoc(self, name):
        return self


@harness(PROPS, "history.unbounded", functions=[SE + ".get_tls_records"], cases=[("server",), ("client",)], timeout=60000)
def h_history(c, direction):
    if c.native:
        return
    from pyvc.api import SpecList
    from pyvc.core import bslice, Unsupported
    srv = direction == "server"
    total = c.int("stream_len", 1, None)
    c.assume(total < 2 ** 31)
    S = c.bytes("stream", length=total)
    isn = c.int("isn", 0, TWO32 - 1)
    bpos = c.uf("bpos")
    R = c.int("n_records_of_S", 0, None)
    c.assume(bpos(0) == 0)

    def reclen(x):
        return S[x + 3] * 256 + S[x + 4] + 5

    def rec_def(q):           # records 0..R-1 of S are complete; bpos is the record-start recurrence
        c.assume(implies(band(0 <= q, q < R), band(bpos(q) >= 0, bpos(q) + 5 <= total, bpos(q + 1) == bpos(q) + reclen(bpos(q)), bpos(q + 1) <= total)))
        c.assume(implies(q == R, band(bpos(q) >= 0, bpos(q) <= total)))
    rec_def(0)
    rec_def(R)
    # ---- the packets of the session, arrival order
    N = c.int("n_packets", 0, None)
    mine, wa, wb = c.uf("is_this_direction", boolean=True), c.uf("window_start"), c.uf("window_end")
    sip, cip = c.bytes("server_ip", length=4), c.bytes("client_ip", length=4)
    sport, cport = c.int("server_port", 0, 65535), c.int("client_port", 0, 65535)
    c.assume(bnot(band(eq(sip, cip), sport == cport)))          # two endpoints: they may share the address OR the port, not both

    def packet(k):
        this = mine(k)
        from_server = this if srv else bnot(this)
        # a packet is the server's iff (ip_src, sport) is the server's endpoint: build both shapes and let the path fork on it
        if c.truth_fork(from_server):
            src, dst, sp, dp = sip, cip, sport, cport
        else:
            src, dst, sp, dp = cip, sip, cport, sport
        return c.obj("tlexport.packet.Packet", ip_src=src, ip_dst=dst, sport=sp, dport=dp, seq=(isn + wa(k)) % TWO32, tls_data=bslice(S, wa(k), wb(k)), __k=k)
    P = SpecList("packet_buffer", N, packet, lambda x, k: eq(x.attrs["__k"], k))
    own, other = GhostBuffer("own"), GhostBuffer("other")
    own_attr, other_attr = ("server_packet_buffer", "client_packet_buffer") if srv else ("client_packet_buffer", "server_packet_buffer")
    own_recs, other_recs = ("server_tls_records", "client_tls_records") if srv else ("client_tls_records", "server_tls_records")
    from contracts.common import full_session
    s = full_session(c, server_ip=sip, client_ip=cip, server_port=sport, client_port=cport, packet_buffer=P, server_tls_records=[], client_tls_records=[],
                     server_counter=0, client_counter=0, **{own_attr: own, other_attr: other})

    # ---- ghost state
    gh = {"r": 0, "m": 0, "lo": (lambda j: 0), "hi": (lambda j: 0), "n": 0}

    def fresh_state(tag):
        gh["n"] += 1
        lo, hi = c.uf("lo_%s_%d" % (tag, gh["n"])), c.uf("hi_%s_%d" % (tag, gh["n"]))
        gh.update(r=c.fresh_int("r", 0, None), m=c.fresh_int("m", 0, None), lo=lo, hi=hi)

    def inv_state():
        r, m, lo, hi = gh["r"], gh["m"], gh["lo"], gh["hi"]
        return band(0 <= r, r <= R, m >= 0, implies(m > 0, band(lo(0) == bpos(r), lo(0) < hi(0), hi(m - 1) <= total, lo(m - 1) < hi(m - 1), hi(0) <= hi(m - 1))))

    def rec_obj(q):
        return c.record("TlsRecord", index_in_S=q, raw=bslice(S, bpos(q), bpos(q + 1)))
    delivered = []                       # (record index, isserver flag) handed to handle_tls_record in the current iteration
    released = {"n": None}

    def s_handle(ctx, slf, record, isserver):
        delivered.append((record.attrs.get("index_in_S"), isserver, record.kind))
        if ctx.nondet("record_handler_raises"):
            ctx.raise_("ValueError")     # a malformed record: the per-record barrier of get_tls_records must contain it
    c.summary_override(SE + ".handle_tls_record", s_handle)

    def s_extract_own(ctx, slf):
        if len(own.pending) != 1:
            raise Unsupported("extract called with %d newly buffered segments" % len(own.pending))
        p = own.pending.pop()
        k = p.attrs["__k"]
        c.ensure("buffers.only_the_directions_own_segments", mine(k))
        a, b = wa(k), wb(k)
        r, m, lo, hi = gh["r"], gh["m"], gh["lo"], gh["hi"]
        pos = bpos(r)
        # history preconditions for this step (module docstring): inside [pos, total], disjoint from the buffer, no early arrival
        ip = c.fresh_int("insertion_index", 0, None)
        c.assume(band(pos <= a, a < b, b <= total, ip <= m, implies(m == 0, a == pos),
                      implies(ip > 0, hi(ip - 1) <= a), implies(ip < m, b <= lo(ip)),
                      implies(band(ip > 0, ip < m), band(lo(ip - 1) < hi(ip - 1), lo(ip) < hi(ip))),
                      implies(ip > 0, band(lo(0) < hi(0), hi(0) <= hi(ip - 1))), implies(ip < m, band(lo(ip) < hi(ip), hi(ip) <= hi(m - 1)))))
        lo2 = lambda j: ite(j < ip, lo(j), ite(j == ip, a, lo(j - 1)))
        hi2 = lambda j: ite(j < ip, hi(j), ite(j == ip, b, hi(j - 1)))
        m2 = m + 1
        # first gap of the enlarged buffer in offset order (m2 - 1: none)
        G = c.fresh_int("first_gap", 0, None)
        c.assume(band(G <= m2 - 1, implies(G < m2 - 1, hi2(G) != lo2(G + 1))))
        e = hi2(m2 - 1)
        rr = c.fresh_int("records_up_to_the_end_of_the_buffer", 0, None)      # the records of S that end at or before e
        c.assume(band(r <= rr, rr <= R, bpos(rr) <= e))
        rec_def(rr)
        c.assume(implies(rr < R, bpos(rr + 1) > e))
        c.assume(implies(rr == R, bor(e == bpos(R), total - bpos(R) < 5, bpos(R) + reclen(bpos(R)) > total)))
        complete = band(G == m2 - 1, bpos(rr) == e)
        if ctx.truth_fork(complete):
            released["n"] = rr - r
            c.set(slf, own_recs, SpecList("released", rr - r, lambda q: rec_obj(r + q), lambda x, q: False))
            gh.update(r=rr, m=0, lo=(lambda j: 0), hi=(lambda j: 0))
            c.cover("released")
        else:
            released["n"] = 0
            gh.update(m=m2, lo=lo2, hi=hi2)
            c.cover("kept")
    c.summary_override(SE + ".extract_%s_buf" % direction, s_extract_own)

    def s_extract_other(ctx, slf):
        # the other direction: whatever its own contract releases (any number of its own records)
        for p in other.pending:
            c.ensure("buffers.only_the_directions_own_segments", bnot(mine(p.attrs["__k"])))
        c.ensure("buffers.one_segment_per_extract_call", len(other.pending) == 1)
        other.pending.clear()
        if ctx.nondet("other_direction_releases"):
            c.set(slf, other_recs, [c.record("TlsRecord", other_direction=True)])
    c.summary_override(SE + ".extract_%s_buf" % ("client" if srv else "server"), s_extract_other)

    # ---- inner loops: hand every released record to handle_tls_record, once, in order, behind a barrier
    start = {"r": None}

    def g_inner(phase, e):
        if phase == "havoc":
            del delivered[:]
        elif phase == "step":
            c.ensure("released_records_delivered_once_in_order_with_the_direction_flag", len(delivered) == 1 and delivered[0][1] is srv
                     and c.prove(eq(delivered[0][0], start["r"] + (e.it - 1))))
    c.loop(SE + ".get_tls_records", "for record in self.%s" % own_recs, invariant=lambda e: True, havoc={"e": lambda cur: None}, ghost_step=g_inner)

    def g_inner_other(phase, e):
        if phase == "step":
            c.ensure("other_direction_records_carry_the_other_flag", len(delivered) >= 1 and delivered[-1][1] is (not srv))
    c.loop(SE + ".get_tls_records", "for record in self.%s" % other_recs, invariant=lambda e: True, havoc={"e": lambda cur: None}, ghost_step=g_inner_other)

    # ---- the fold over the packets
    def empty(x):
        return (isinstance(x, list) and len(x) == 0) or (isinstance(x, SpecList) and not x.lead and not x.tail and c.prove(eq(x.count, 0)))

    def inv(e):
        return band(inv_state(), empty(e.self.attrs[own_recs]), empty(e.self.attrs[other_recs]),
                    e.self.attrs[own_attr] is own and e.self.attrs[other_attr] is other and not own.pending)

    def g_outer(phase, e):
        if phase == "havoc":
            fresh_state("head")
            rec_def(gh["r"])
            start["r"] = gh["r"]
            del delivered[:]
            released["n"] = None
            del own.pending[:]
            c.set(s, own_recs, [])
            c.set(s, other_recs, [])
        elif phase == "step":
            c.cover("iteration")
    c.loop(SE + ".get_tls_records", "for packet in self.packet_buffer", invariant=inv,
           havoc={"self." + own_attr: lambda cur: own, "self." + other_attr: lambda cur: other, "self." + own_recs: lambda cur: [], "self." + other_recs: lambda cur: [],
                  "record": lambda cur: None, "e": lambda cur: None}, ghost_step=g_outer)
    out = c.method(s, "get_tls_records")
    c.ensure("no_raise", out.exc is None, kind="raises")
    if out.exc is not None:
        return
    c.ensure("final.delivered_is_a_prefix_of_frame(S)", c.prove(band(0 <= gh["r"], gh["r"] <= R)))
    c.cover("returned")


h_history.must_cover = ["returned", "iteration", "released", "kept"]


@harness(PROPS, "history.lemmas", functions=[], cases=[("shift",), ("telescope",)])
def h_lemmas(c, which):
    """shift: the records of S[pos:] start where the records of S from r on start, minus pos (pos = bpos(r)); telescope: a gap-free
    run of windows of S starting at pos ends where the concatenation S[pos:e] ends.  Induction: base and step discharged by z3."""
    if c.native:
        return
    total = c.int("stream_len", 1, None)
    S = c.bytes("stream", length=total)
    k = c.int("k", 0, None)
    if which == "shift":
        bpos, bposD = c.uf("bpos"), c.uf("bpos_of_the_suffix")
        r = c.int("r", 0, None)
        pos = bpos(r)
        c.assume(band(0 <= pos, pos <= total, bposD(0) == 0))
        D = lambda x: S[pos + x]                      # the suffix stream D = S[pos:]
        rl_S = lambda x: S[x + 3] * 256 + S[x + 4] + 5
        rl_D = lambda x: D(x + 3) * 256 + D(x + 4) + 5
        c.assume(band(bpos(r + k + 1) == bpos(r + k) + rl_S(bpos(r + k)), bposD(k + 1) == bposD(k) + rl_D(bposD(k))))
        c.ensure("lemma.shift.base", bposD(0) == bpos(r + 0) - pos)
        c.ensure("lemma.shift.step", implies(bposD(k) == bpos(r + k) - pos, bposD(k + 1) == bpos(r + k + 1) - pos))
    else:
        lo, hi, cat_end = c.uf("lo"), c.uf("hi"), c.uf("end_of_the_concatenation_of_the_first_windows")
        pos = c.int("pos", 0, None)
        c.assume(band(lo(0) == pos, cat_end(0) == pos))
        c.assume(band(lo(k) < hi(k), cat_end(k + 1) == cat_end(k) + (hi(k) - lo(k))))      # appending window k adds its bytes
        c.ensure("lemma.telescope.base", cat_end(0) == lo(0))
        c.ensure("lemma.telescope.step", implies(band(cat_end(k) == lo(k), hi(k) == lo(k + 1)), cat_end(k + 1) == lo(k + 1)))
        c.ensure("lemma.telescope.end", implies(cat_end(k) == lo(k), cat_end(k + 1) == hi(k)))
    c.cover("lemma")


h_lemmas.must_cover = ["lemma"]
