"""C05 / C07 / C06 / C08 / C01: UNBOUNDED loop contract for Session.extract_server_buf / extract_client_buf (DESIGN Appendix C.6).

Input (ghost description, every quantity symbolic, NO bound on any of them):
  * the direction's buffer AS list.sort LEAVES IT: n >= 1 segments with sequence numbers seq(j) and non-empty payloads that
    are the consecutive windows [off(j), off(j+1)) of one byte string D - so D is, by construction, the concatenation of the
    buffered payloads in buffer order; the element the code sees at index 0 BEFORE the sort is an arbitrary one of them;
  * G = index of the first adjacent pair that is not contiguous modulo 2^32 (G = n-1: the buffer is one contiguous chain);
  * bpos(q) = start of the q-th record of D (5-byte header, 16-bit length at +3), R = number of complete records of D, so
    D ends on a record boundary iff bpos(R) = len(D);
  * A(q) / Z(q) = the segments holding the first / the last byte of record q.
Every list the code builds is described by a spec function of the index (pyvc.symlist.SpecList = Dafny's seq(n, f)), and
the definitional facts about off / bpos / G / A / Z are instantiated by hand at the indices a loop touches, so every
verification condition is QUANTIFIER-FREE linear arithmetic + arrays (no E-matching, refutations come with models).

Proved for ALL n, all payloads, all record counts (four loop invariants, two variants, postconditions on the final state):
  * released <=> the buffer is one contiguous chain (mod 2^32) AND D ends on a record boundary;
  * not released: the record list and the buffer are exactly as before;
  * released: exactly the R records of frame(D) were appended, in order, after the earlier ones; record q is the window
    [bpos(q), bpos(q+1)) of D with its header fields (TlsRecord.isserver is not constrained: nothing in tlexport reads it -
    extract_client_buf passes True there) and metadata = the segments A(q)..Z(q) in buffer
    order (>= 1 of them: exactly the segments whose bytes the record contains); the buffer is emptied;
  * both framing loops terminate;
  * the REAL sort key orders every contiguous chain spanning < 2^31 bytes in stream order whichever buffered segment is
    taken as the base (so, with list.sort's contract, the sorted buffer IS the chain whenever the segments can form one).
Lemmas (lemma.* harness: base case and induction step discharged by z3; the induction schema itself is applied on paper):
prefix sums are monotone; every stream position lies in a window; a contiguous chain places segment q at seq(0)+off(q)."""
from pyvc.api import harness, eq, band, bor, bnot, implies, ite, const

SE = "tlexport.session.Session"
TWO32 = 2 ** 32
PROPS = ["C05", "C07", "C06", "C08", "C01"]
FUNCS = [SE + ".extract_server_buf", SE + ".extract_client_buf", "tlexport.tlsrecord.TlsRecord.__init__"]


class World:
    """the ghost description of one buffer (shared by the contract and the lemma harnesses)"""

    def __init__(self, c):
        self.c = c
        self.n = c.int("n_segments", 1, None)
        self.seq, self.dlen, self.off = c.uf("seq"), c.uf("dlen"), c.uf("off")
        self.bpos, self.A, self.Z = c.uf("bpos"), c.uf("first_seg"), c.uf("last_seg")
        n, off = self.n, self.off
        self.total = off(n)
        c.assume(off(0) == 0)
        self.seg(0)
        self.seg(n - 1)
        self.mono(0, n)
        self.D = c.bytes("stream", length=self.total)

    # ---- definitional facts, instantiated by hand
    def seg(self, j):
        """segment j (0 <= j < n): 32-bit sequence number, non-empty payload, off = prefix sums of the payload lengths"""
        c = self.c
        c.assume(implies(band(0 <= j, j < self.n), band(self.dlen(j) >= 1, self.off(j + 1) == self.off(j) + self.dlen(j),
                                                         0 <= self.seq(j), self.seq(j) < TWO32)))

    def mono(self, x, y):
        """lemma.prefix_sums_monotone at (x, y)"""
        self.c.assume(implies(band(0 <= x, x <= y, y <= self.n), self.off(x) <= self.off(y)))

    def contiguous(self, q):
        return (self.seq(q) + self.dlen(q)) % TWO32 == self.seq(q + 1)

    def reclen(self, x):
        D = self.D
        return D[x + 3] * 256 + D[x + 4] + 5          # 5-byte header + the 16-bit length field of the header at x

    def packet(self, k):
        from pyvc.core import bslice
        c = self.c
        return c.make_obj(c.const_of("tlexport.packet.Packet"), seq=self.seq(k), tls_data=bslice(self.D, self.off(k), self.off(k) + self.dlen(k)), __idx=k)


def idx_of(p):
    return p.attrs["__idx"]


@harness(PROPS, "framing.unbounded", functions=FUNCS, cases=[("server",), ("client",)], timeout=60000)
def h_unbounded(c, direction):
    if c.native:
        return
    from pyvc.api import SpecList
    from pyvc.core import bslice, Unsupported
    from pyvc.interp import LambdaVal, Frame
    W = World(c)
    n, seq, dlen, off, bpos, A, Z, D, total = W.n, W.seq, W.dlen, W.off, W.bpos, W.A, W.Z, W.D, W.total
    isserver = direction == "server"

    # ---- G: the first adjacent pair that is not contiguous mod 2^32 (n-1 if there is none)
    G = c.int("first_gap", 0, None)
    c.assume(G <= n - 1)
    W.seg(G)
    W.seg(G + 1)
    c.assume(implies(G < n - 1, bnot(W.contiguous(G))))

    def chain_upto(q):            # instance of  forall q < G: contiguous(q)
        W.seg(q)
        W.seg(q + 1)
        c.assume(implies(band(0 <= q, q < G), W.contiguous(q)))

    # ---- R: number of complete records of D; bpos(q): where record q starts
    R = c.int("n_records", 0, None)
    c.assume(bpos(0) == 0)

    def rec_def(q):               # instance of  forall q < R: record q lies completely inside D
        c.assume(implies(band(0 <= q, q < R), band(bpos(q) >= 0, bpos(q) + 5 <= total, bpos(q + 1) == bpos(q) + W.reclen(bpos(q)), bpos(q + 1) <= total)))
    rec_def(0)
    c.assume(band(bpos(R) >= 0, bpos(R) <= total))
    c.assume(bor(total - bpos(R) < 5, band(bpos(R + 1) == bpos(R) + W.reclen(bpos(R)), bpos(R + 1) > total)))
    on_boundary = bpos(R) == total
    is_chain = G == n - 1
    complete = band(is_chain, on_boundary)

    def seg_of(q):                # instance of lemma.windows_tile: the segments holding record q's first and last byte
        c.assume(implies(band(0 <= q, q < R), band(0 <= A(q), A(q) < n, off(A(q)) <= bpos(q), bpos(q) < off(A(q) + 1),
                                                   0 <= Z(q), Z(q) < n, off(Z(q)) < bpos(q + 1), bpos(q + 1) <= off(Z(q) + 1))))
        W.seg(A(q))
        W.seg(Z(q))
        W.mono(Z(q) + 1, A(q))    # gives A(q) <= Z(q)

    # ---- the lists, as spec functions of the index
    def md_list(a, cnt):
        return SpecList("metadata", cnt, lambda j: W.packet(a + j), lambda x, j: eq(idx_of(x), a + j), params={"first": a})

    def md_is(M, a, cnt):
        """M == [segment a, segment a+1, ..., segment a+cnt-1]"""
        if isinstance(M, SpecList):
            return band(M.equals_spec(cnt), bor(M.total_len == 0, M.params["first"] == a), len(M.lead) == 0)
        if isinstance(M, list):
            return band(eq(len(M), cnt), *[eq(idx_of(x), a + j) for j, x in enumerate(M)])
        return False

    def rec_make(q):
        lo, hi = bpos(q), bpos(q + 1)
        return c.make_obj(c.const_of("tlexport.tlsrecord.TlsRecord"), raw=bslice(D, lo, hi), binary=bslice(D, lo + 5, hi), record_type=D[lo],
                          record_version=bslice(D, lo + 1, lo + 3), record_length=bslice(D, lo + 3, lo + 5), isserver=isserver,
                          metadata=md_list(A(q), Z(q) - A(q) + 1))

    def rec_match(x, q):
        if not hasattr(x, "attrs") or any(k not in x.attrs for k in ("raw", "binary", "record_type", "record_version", "record_length", "metadata")):
            return False
        a = x.attrs
        lo, hi = bpos(q), bpos(q + 1)
        return band(eq(a["raw"], bslice(D, lo, hi)), eq(a["binary"], bslice(D, lo + 5, hi)), a["record_type"] == D[lo],
                    eq(a["record_version"], bslice(D, lo + 1, lo + 3)), eq(a["record_length"], bslice(D, lo + 3, lo + 5)),
                    md_is(a["metadata"], A(q), Z(q) - A(q) + 1), Z(q) - A(q) + 1 >= 1)

    pre = [c.opaque("earlier_record")]

    def rs_is(RS, cnt):
        """RS == pre ++ [record 0, ..., record cnt-1]"""
        if isinstance(RS, SpecList):
            return band(len(RS.lead) == len(pre) and all(x is y for x, y in zip(RS.lead, pre)), RS.equals_spec(cnt))
        if isinstance(RS, list):
            return band(len(RS) >= len(pre) and all(x is y for x, y in zip(RS, pre)), eq(len(RS) - len(pre), cnt),
                        *[rec_match(x, j) for j, x in enumerate(RS[len(pre):])])
        return False

    def pr_match(x, q):
        return isinstance(x, tuple) and len(x) == 3 and hasattr(x[2], "attrs") and band(eq(x[0], off(q)), eq(x[1], off(q + 1)), eq(idx_of(x[2]), q))

    def pr_list(cnt):
        return SpecList("packet_ranges", cnt, lambda q: (off(q), off(q + 1), W.packet(q)), pr_match)

    def pr_is(PR, cnt):
        if isinstance(PR, SpecList):
            return band(PR.equals_spec(cnt), len(PR.lead) == 0)
        if isinstance(PR, list):
            return band(eq(len(PR), cnt), *[pr_match(x, j) for j, x in enumerate(PR)])
        return False

    # ---- the buffer; what list.sort is handed; the sort-key obligation
    first_arrived = c.int("first_arrived", 0, None)
    c.assume(first_arrived < n)
    W.seg(first_arrived)

    def arrival(q):
        if isinstance(q, int) and q == 0:
            return first_arrived
        raise Unsupported("the unsorted buffer is read at an index other than 0")

    def on_sort(I, lst, key, reverse):
        """list.sort is assumed (permutation, non-decreasing in the key, stable).  Obligation on the REAL key: along any
        contiguous chain spanning < 2^31 bytes the keys increase strictly in stream order, whichever buffered segment
        supplied the base - so the sorted buffer is the chain whenever the segments can form one."""
        i, j = c.fresh_int("i", 0, None), c.fresh_int("j", 0, None)
        c.assume(band(i < j, j < n))
        for q in (i, j, first_arrived):
            W.seg(q)
            W.mono(0, q)
            W.mono(q + 1, n)
        W.mono(i + 1, j)

        def chainpos(q):          # lemma.chain_positions at q
            return seq(q) == (seq(0) + off(q)) % TWO32
        hyp = band(is_chain, total < 2 ** 31, chainpos(i), chainpos(j), chainpos(first_arrived))
        if not isinstance(key, LambdaVal) or I.truth(reverse):
            c.ensure("sort.by_a_key_ascending", False)
            return

        def keyval(p):
            fr = Frame(key.frame.func, dict(key.frame.locals))
            fr.module = key.frame.module
            fr.locals[key.node.args.args[0].arg] = p
            return I.eval(key.node.body, fr)
        c.ensure("sort.key_strictly_increasing_along_a_contiguous_chain", implies(hyp, keyval(W.packet(i)) < keyval(W.packet(j))))
    B = SpecList("buffer", n, W.packet, lambda x, q: eq(idx_of(x), q))
    B.arrival, B.on_sort = arrival, on_sort

    buf_attr, rec_attr = direction + "_packet_buffer", direction + "_tls_records"
    from contracts.common import full_session
    s = full_session(c, server_counter=0, client_counter=0)
    c.set(s, buf_attr, B)
    c.set(s, rec_attr, list(pre))
    qual = SE + ".extract_%s_buf" % direction
    bname = "self.%s" % buf_attr
    gh = {"r3": 0, "r4": 0}

    # ---- L1: contiguity of adjacent segments.  Invariant: no gap among the pairs inspected so far (it <= G)
    def g1(phase, e):
        if phase == "havoc":
            chain_upto(e.it)
            W.mono(0, e.it)
            W.mono(e.it + 2, n)
    c.loop(qual, "for i in range(0, len(%s) - 1)" % bname, invariant=lambda e: band(e.it <= G, B.sorted is True), ghost_step=g1)

    # ---- L2: byte ranges of the segments and the concatenated stream
    def inv2(e):
        return band(e.total_packet_len == off(e.it), eq(e.packet_data, bslice(D, 0, off(e.it))), pr_is(e.packet_ranges, e.it), e.index == 0)

    def g2(phase, e):
        if phase == "havoc":
            W.seg(e.it)
            W.mono(0, e.it)
            W.mono(e.it + 1, n)
            e.packet_data.val = bslice(D, 0, off(e.it))      # the invariant pins the value; give it its structural form
    c.loop(qual, "for i in %s" % bname, invariant=inv2, havoc={"packet_ranges": lambda cur: pr_list(c.fresh_int("n_ranges", 0, None)), "packet_data": lambda cur: cur},
           ghost_step=g2)

    # ---- L3: scan the record boundaries.  index = bpos(r3); r3 <= R, or one step beyond the end of D
    def inv3(e):
        r = gh["r3"]
        return band(r >= 0, e.index == bpos(r), e.total_packet_len == total, eq(e.packet_data, D), pr_is(e.packet_ranges, n),
                    bor(r <= R, band(r == R + 1, total - bpos(R) >= 5, bpos(R + 1) > total)))

    def g3(phase, e):
        if phase == "havoc":
            gh["r3"] = c.fresh_int("r3", 0, None)
            rec_def(gh["r3"])
            e.packet_data.val = D
        elif phase == "step":
            gh["r3"] = gh["r3"] + 1
    c.loop(qual, "while True", invariant=inv3, decreases=lambda e: e.total_packet_len - e.index + 70000, havoc={"packet_data": lambda cur: cur}, ghost_step=g3)

    # ---- L4: release record r4 with its metadata
    def inv4(e):
        r4 = gh["r4"]
        return band(0 <= r4, r4 <= R, e.index == bpos(r4), on_boundary, e.total_packet_len == total, eq(e.packet_data, D),
                    pr_is(e.packet_ranges, n), rs_is(e.self.attrs[rec_attr], r4))

    def g4(phase, e):
        if phase == "havoc":
            gh["r4"] = c.fresh_int("r4", 0, None)
            rec_def(gh["r4"])
            seg_of(gh["r4"])
            e.packet_data.val = D
        elif phase == "step":
            gh["r4"] = gh["r4"] + 1
    c.loop(qual, "while index != total_packet_len", invariant=inv4, decreases=lambda e: R - gh["r4"],
           havoc={"self." + rec_attr: lambda cur: SpecList("records", c.fresh_int("n_released", 0, None), rec_make, rec_match, lead=pre),
                  "packet_data": lambda cur: cur, "metadata": lambda cur: None, "binary": lambda cur: None, "tls_record": lambda cur: None},
           ghost_step=g4)

    # ---- L5: metadata of record r4 = the segments A..Z whose windows meet the record's window
    def inv5(e):
        a, z = A(gh["r4"]), Z(gh["r4"])
        return md_is(e.metadata, a, ite(e.it <= a, 0, ite(e.it > z, z - a + 1, e.it - a)))

    def g5(phase, e):
        if phase == "havoc":
            a, z, it = A(gh["r4"]), Z(gh["r4"]), e.it
            W.seg(it)
            for x, y in ((it + 1, a), (a + 1, it + 1), (it, z), (z + 1, it)):
                W.mono(x, y)
    c.loop(qual, "for packet_range in packet_ranges", invariant=inv5, havoc={"metadata": lambda cur: md_list(A(gh["r4"]), c.fresh_int("n_md", 0, None))}, ghost_step=g5)

    out = c.method(s, "extract_%s_buf" % direction)
    c.ensure("no_raise", out.exc is None, kind="raises")
    if out.exc is not None:
        return
    recs, buf = c.get(s, rec_attr), c.get(s, buf_attr)
    c.ensure("buffer.sorted_before_use", B.sorted is True)
    released = not (isinstance(recs, list) and len(recs) == len(pre) and all(x is y for x, y in zip(recs, pre)))
    if not released:
        c.ensure("released_iff_contiguous_chain_ending_on_a_record_boundary", bnot(complete))
        c.ensure("incomplete.buffer_kept", buf is B and not B.cleared and not B.tail and c.prove(B.count == n))
        c.cover("incomplete.gap" if c.truth_fork(bnot(is_chain)) else "incomplete.partial_record")
        return
    c.ensure("released_iff_contiguous_chain_ending_on_a_record_boundary", complete)
    c.ensure("complete.exactly_the_records_of_frame(D)_appended_in_order", rs_is(recs, R))
    c.ensure("complete.buffer_emptied", buf is B and B.cleared and not B.tail and not B.lead and c.prove(B.count == 0))
    c.cover("complete")


h_unbounded.must_cover = ["complete", "incomplete.gap", "incomplete.partial_record"]


@harness(PROPS, "framing.lemmas", functions=[], cases=[("prefix_sums_monotone",), ("windows_tile",), ("chain_positions",)])
def h_lemmas(c, which):
    """the three arithmetic lemmas the loop contract instantiates, each by induction: z3 discharges base case and step"""
    if c.native:
        return
    n = c.int("n_segments", 1, None)
    seq, dlen, off = c.uf("seq"), c.uf("dlen"), c.uf("off")
    c.assume(off(0) == 0)
    k = c.int("k", 0, None)            # the induction variable: the statement is assumed at k and shown at k+1
    c.assume(k < n)
    c.assume(band(dlen(k) >= 1, off(k + 1) == off(k) + dlen(k), 0 <= seq(k), seq(k) < TWO32, 0 <= seq(0), seq(0) < TWO32))
    if which == "prefix_sums_monotone":
        x = c.int("x", 0, None)
        c.ensure("lemma.prefix_sums_monotone.base", off(x) <= off(x))
        c.ensure("lemma.prefix_sums_monotone.step", implies(band(x <= k, off(x) <= off(k)), off(x) <= off(k + 1)))
    elif which == "windows_tile":
        p, w = c.int("position", 0, None), c.int("witness_at_k")
        ih = implies(p < off(k), band(0 <= w, w < k, off(w) <= p, p < off(w + 1)))
        w2 = ite(p < off(k), w, k)
        c.ensure("lemma.windows_tile.base", bnot(p < off(0)))
        c.ensure("lemma.windows_tile.step", implies(band(ih, p < off(k + 1)), band(0 <= w2, w2 < k + 1, off(w2) <= p, p < off(w2 + 1))))
    else:
        pos = lambda q: seq(q) == (seq(0) + off(q)) % TWO32
        c.ensure("lemma.chain_positions.base", pos(0))
        c.ensure("lemma.chain_positions.step", implies(band(pos(k), (seq(k) + dlen(k)) % TWO32 == seq(k + 1)), pos(k + 1)))
    c.cover("lemma")


h_lemmas.must_cover = ["lemma"]
