"""C05 / C07 / C08: UNBOUNDED loop contract for Session.extract_server_buf / extract_client_buf (DESIGN Appendix C.6).

Input: the direction's buffer AS list.sort LEAVES IT (assumed: sort permutes and orders by key) - a list B of symbolic
length n of segments with sequence numbers seq(j) and payloads that are the consecutive windows [off(j), off(j+1)) of
one byte string D (so D is by construction the concatenation of the buffered payloads in buffer order), dlen(j) >= 1.
Ghost functions: off = prefix sums of the payload lengths; bpos(q) = start of the q-th record of D (5-byte header,
length field at +3); A(q) / Z(q) = first / last segment overlapping record q.

Proved for ALL n, all contents, all record counts:
  * a non-contiguous adjacent pair (mod 2^32) or a stream not ending on a record boundary: nothing released, buffer kept;
  * otherwise exactly the records of frame(D) are appended, in order, record q being the window [bpos(q), bpos(q+1))
    of D with metadata = segments A(q)..Z(q) in order (non-empty), and the buffer is emptied;
  * both framing loops terminate (variants).
Assumed arithmetic lemmas (each provable by induction, see lemma.* harnesses): prefix sums of positive lengths are
monotone; every position below the total lies in exactly one window."""
from pyvc.api import harness, eq, band, bor, bnot, implies, len_, ite, be, const

SE = "tlexport.session.Session"
TWO32 = 2 ** 32


@harness(["C05", "C07", "C08", "C06", "C01"], "framing.unbounded", functions=[SE + ".extract_server_buf", SE + ".extract_client_buf", "tlexport.tlsrecord.TlsRecord.__init__"],
         cases=[("server",), ("client",)], timeout=60000)
def h_unbounded(c, direction):
    if c.native:
        return
    from pyvc.api import SymList, from_list, forall
    from pyvc.core import BBase, SymInt, bslice, to_bytes_val, BSlice, ByteArr
    E = c.E
    n = c.int("n_segments", 1, None)
    seq, dlen, off, bpos, A, Z = c.uf("seq"), c.uf("dlen"), c.uf("off"), c.uf("bpos"), c.uf("first_seg"), c.uf("last_seg")
    total = off(n)
    c.assume(off(0) == 0)
    c.assume(total >= 0)
    D = c.bytes("stream", length=total)
    # lemma (monotone prefix sums) as a quantified hypothesis; proved by induction in lemma.prefix_sums_monotone
    c.assume(forall2(c, lambda x, y: implies(band(0 <= x, x <= y, y <= n), off(x) <= off(y))))
    c.assume(forall(lambda j: band(dlen(j) >= 1, off(j + 1) == off(j) + dlen(j), 0 <= seq(j), seq(j) < TWO32), 0, n))
    c.assume(bpos(0) == 0)

    def packet(vals, k):
        return c.make_obj(c.const_of("tlexport.packet.Packet"), seq=seq(k), tls_data=bslice(D, off(k), off(k) + dlen(k)), __idx=k)
    B = SymList("buffer", [], n, {}, project=None, inject=packet)
    B.sorted_input = True
    buf_attr, rec_attr = direction + "_packet_buffer", direction + "_tls_records"
    pre = [c.opaque("earlier_record")]
    s = c.obj(SE, server_counter=0, client_counter=0)
    c.set(s, buf_attr, B)
    c.set(s, rec_attr, list(pre))
    qual = SE + ".extract_%s_buf" % direction
    bname = "self.%s" % buf_attr

    # ---- L1: contiguity of adjacent segments (mod 2^32)
    def contiguous(q):
        return (seq(q) + dlen(q)) % TWO32 == seq(q + 1)
    c.loop(qual, "for i in range(0, len(%s) - 1)" % bname, invariant=lambda e: forall(contiguous, 0, e.it))

    # ---- L2: byte ranges of the segments
    def pr_project(t):
        return {"lo": t[0], "hi": t[1], "idx": t[2].attrs["__idx"]}

    def pr_inject(vals, k):
        return (vals["lo"], vals["hi"], packet(None, vals["idx"]))

    def pr_sl(x):
        return x if isinstance(x, SymList) else from_list(x, "packet_ranges", ["lo", "hi", "idx"], pr_project, pr_inject)

    def ranges_ok(PR, upto):
        return forall(lambda q: band(PR.field("lo", q) == off(q), PR.field("hi", q) == off(q + 1), PR.field("idx", q) == q), 0, upto)

    def inv2(e):
        PR = pr_sl(e.packet_ranges)
        return band(e.total_packet_len == off(e.it), eq(e.packet_data, bslice(D, 0, off(e.it))), PR.length == e.it, ranges_ok(PR, e.it), e.index == 0)

    def hv_data(cur):
        cur.val = None
        return cur
    state = {}

    def g2(phase, e):
        if phase == "havoc":
            e.packet_data.val = bslice(D, 0, off(e.it))
    c.loop(qual, "for i in %s" % bname, invariant=inv2,
           havoc={"packet_ranges": lambda cur: pr_sl(cur).fresh("packet_ranges"), "packet_data": lambda cur: cur}, ghost_step=g2)

    # ---- L3: scan the record boundaries
    def rec_len_at(x):
        return D[x + 3] * 256 + D[x + 4] + 5          # 16-bit length field of the record header at x, plus the header

    def inv3(e):
        r = e.ghost("r3")
        return band(e.index == bpos(r), r >= 0, e.total_packet_len == total, eq(e.packet_data, D),
                    forall(lambda q: band(bpos(q) >= 0, bpos(q) <= e.index), 0, r + 1),
                    forall(lambda q: band(bpos(q) + 5 <= total, bpos(q + 1) == bpos(q) + rec_len_at(bpos(q))), 0, r))

    def g3(phase, e):
        r = e.ghost("r3")
        if phase == "havoc":
            e.packet_data.val = D
            c.assume(implies(bpos(r) + 5 <= total, bpos(r + 1) == bpos(r) + rec_len_at(bpos(r))))     # definition of bpos unfolded at r
        elif phase == "step":
            e.set_ghost("r3", r + 1)
    c.loop(qual, "while True", invariant=inv3, decreases=lambda e: e.total_packet_len - e.index + 70000,
           havoc={"ghost:r3": lambda cur: c.fresh_int("r3", 0, None), "packet_data": lambda cur: cur}, ghost_step=g3)

    # ---- L4 / L5: release the records with their metadata
    len0 = len(pre)

    def md_sl(x):
        return x if isinstance(x, SymList) else from_list(x, "metadata", ["idx"], lambda p: {"idx": p.attrs["__idx"]}, lambda vals, k: packet(None, vals["idx"]))

    def rec_project(r):
        raw = to_bytes_val(r.attrs["raw"])
        w = (raw.start, raw.length) if isinstance(raw, BSlice) and raw.base is D else ((0, raw.length) if raw is D else (-1, -1))
        M = md_sl(r.attrs["metadata"])
        return {"start": w[0], "len": w[1], "m_first": M.field("idx", 0), "m_count": M.length, "m_ok": ite(md_consecutive(M), 1, 0)}

    def md_consecutive(M):
        return forall(lambda q: M.field("idx", q) == M.field("idx", 0) + q, 0, M.length)

    def rs_sl(x):
        return x if isinstance(x, SymList) else from_list(x, "records", ["start", "len", "m_first", "m_count", "m_ok"],
                                                          lambda r: rec_project(r) if hasattr(r, "attrs") and "raw" in r.attrs else {"start": -2, "len": -2, "m_first": -2, "m_count": -2, "m_ok": -2})

    def released(RS, upto):
        return forall(lambda q: band(RS.field("start", len0 + q) == bpos(q), RS.field("len", len0 + q) == bpos(q + 1) - bpos(q),
                                     RS.field("m_first", len0 + q) == A(q), RS.field("m_count", len0 + q) == Z(q) - A(q) + 1, RS.field("m_count", len0 + q) >= 1,
                                     RS.field("m_ok", len0 + q) == 1), 0, upto)

    def seg_of(q):
        """definition of A(q), Z(q): the segments holding the first and the last byte of record q (they exist because the
        windows tile [0, total) - lemma)"""
        return band(0 <= A(q), A(q) <= Z(q), Z(q) < n, off(A(q)) <= bpos(q), bpos(q) < off(A(q) + 1),
                    off(Z(q)) < bpos(q + 1), bpos(q + 1) <= off(Z(q) + 1))

    def inv4(e):
        r4, R = e.ghost("r4"), e.ghost("r3")
        RS = rs_sl(e.self.attrs[rec_attr])
        return band(e.index == bpos(r4), 0 <= r4, r4 <= R, bpos(R) == total, e.total_packet_len == total, eq(e.packet_data, D),
                    RS.length == len0 + r4, released(RS, r4), ranges_ok(pr_sl(e.packet_ranges), n), pr_sl(e.packet_ranges).length == n)

    def g4(phase, e):
        r4 = e.ghost("r4")
        if phase == "havoc":
            e.packet_data.val = D
            R = e.ghost("r3")
            c.assume(implies(r4 < R, seg_of(r4)))
            # instances at r4 of what the boundary scan established for every q < R (manual instantiation)
            c.assume(implies(r4 < R, band(bpos(r4) + 5 <= total, bpos(r4 + 1) == bpos(r4) + rec_len_at(bpos(r4)), bpos(r4 + 1) <= total, bpos(r4) >= 0)))
        elif phase == "step":
            e.set_ghost("r4", r4 + 1)
        elif phase == "exit":
            R = e.ghost("r3")
            RS = rs_sl(e.self.attrs[rec_attr])
            c.ensure("complete.all_records_of_frame(D)_released_in_order", band(r4 == R, RS.length == len0 + R, released(RS, R)))
            c.cover("complete.exit")
    c.loop(qual, "while index != total_packet_len", invariant=inv4, decreases=lambda e: e.ghost("r3") - e.ghost("r4"),
           havoc={"ghost:r4": lambda cur: c.fresh_int("r4", 0, None), "self." + rec_attr: lambda cur: rs_sl(cur).fresh("records"),
                  "packet_data": lambda cur: cur, "metadata": lambda cur: None, "binary": lambda cur: None, "tls_record": lambda cur: None},
           ghost_step=g4)

    def inv5(e):
        r4 = e.ghost("r4")
        M = md_sl(e.metadata)
        a, z = A(r4), Z(r4)
        cnt = ite(e.it <= a, 0, ite(e.it > z, z - a + 1, e.it - a))
        return band(M.length == cnt, forall(lambda q: M.field("idx", q) == a + q, 0, M.length))
    c.loop(qual, "for packet_range in packet_ranges", invariant=inv5, havoc={"metadata": lambda cur: md_sl(cur).fresh("metadata")})

    out = c.method(s, "extract_%s_buf" % direction)
    c.ensure("no_raise", out.exc is None, kind="raises")
    if out.exc is not None:
        return
    recs, buf = c.get(s, rec_attr), c.get(s, buf_attr)
    if not isinstance(recs, SymList):
        # nothing was released on this path
        c.ensure("incomplete.no_record_released", len(recs) == len0 and recs[0] is pre[0])
        c.ensure("incomplete.buffer_kept", buf is B and not getattr(B, "cleared", False))
        c.cover("incomplete")
        return
    c.cover("complete")
    c.ensure("complete.buffer_emptied", getattr(B, "cleared", False) is True)


def forall2(c, fn):
    from pyvc import core
    z3 = core.z3
    x, y = core.CUR.fresh_int("x"), core.CUR.fresh_int("y")
    return core.mk_bool(z3.ForAll([x, y], core.TB(fn(core.SymInt(x), core.SymInt(y)))))
