"""C09: the key log is parsed the same however it is supplied (NSS key-log grammar, LF/CRLF, comments, blank and
foreign lines, hex case, order, duplicates, -s absent / DSB).

Oracle: the NSS format  LABEL SP hex{64} SP hex+  with hex = [0-9a-fA-F] and LABEL one of the labels NSS writes.
Lines are strings typed by regular languages; `re.match` on them is decided by language inclusion in z3."""
from pyvc.api import harness, eq, band, bor, bnot

KR = "tlexport.keylog_reader"
M = "tlexport.main"
NSS_LABELS = ["CLIENT_RANDOM", "RSA", "CLIENT_EARLY_TRAFFIC_SECRET", "CLIENT_HANDSHAKE_TRAFFIC_SECRET",
              "SERVER_HANDSHAKE_TRAFFIC_SECRET", "CLIENT_TRAFFIC_SECRET_0", "SERVER_TRAFFIC_SECRET_0",
              "EARLY_EXPORTER_SECRET", "EXPORTER_SECRET"]
HEX = "[0-9a-fA-F]"


def nss_line(c, label, tag=""):
    r = c.regstr("client_random" + tag, HEX + "{64}")
    v = c.regstr("secret" + tag, HEX + "+")
    return c.text(label, " ", r, " ", v), r, v


def same_text(c, a, b):
    if c.native:
        return a == b
    from pyvc.strings import PieceStr
    if isinstance(a, PieceStr) and len(a.parts) == 1:
        a = a.parts[0]
    if isinstance(b, PieceStr) and len(b.parts) == 1:
        b = b.parts[0]
    return a is b or (isinstance(a, str) and isinstance(b, str) and a == b)


@harness("C09", "keylog.line_accepted", functions=[KR + ".get_key_from_line", KR + ".Key.__init__"], cases=[(l,) for l in NSS_LABELS])
def h_line(c, label):
    """every line of the NSS grammar (upper- or lower-case hex) is accepted and yields exactly its three fields"""
    line, r, v = nss_line(c, label)
    out = c.call(KR + ".get_key_from_line", line)
    c.ensure("no_raise", out.exc is None, kind="raises")
    if out.exc is not None:
        return
    k = out.value
    c.ensure("accepted", k is not None)
    if k is None:
        return
    c.ensure("field.label", same_text(c, c.get(k, "label"), label))
    c.ensure("field.client_random", same_text(c, c.get(k, "client_random"), r))
    c.ensure("field.value", same_text(c, c.get(k, "value"), v))
    c.cover("reached")


h_line.must_cover = ["reached"]


@harness("C09", "keylog.any_line_is_safe", functions=[KR + ".get_key_from_line", KR + ".Key.__init__"])
def h_any_line(c):
    """an arbitrary line (comment, blank, foreign, truncated) is either rejected or parsed without exception"""
    line = c.text(c.regstr("line", "[^\\n\\r]*"))
    out = c.call(KR + ".get_key_from_line", line)
    c.ensure("no_raise", out.exc is None, kind="raises")
    c.cover("accepted" if (out.exc is None and out.value is not None) else "rejected")


h_any_line.must_cover = ["accepted", "rejected"]

LINE_KINDS = ["key", "comment", "blank", "foreign"]


def make_line(c, kind, i):
    if kind == "key":
        label = NSS_LABELS[i % len(NSS_LABELS)]
        line, r, v = nss_line(c, label, str(i))
        return line, (label, r, v)
    if kind == "comment":
        return c.text("#", c.regstr("comment%d" % i, "[ -~]*")), None
    if kind == "blank":
        return c.text(""), None
    return c.text(c.regstr("foreign%d" % i, "[a-z]{1,8}=[ -~]*")), None


@harness(["C09", "C18"], "keylog.file_text", functions=[KR + ".get_keys_from_string"],
         cases=[(kinds, eol) for kinds in [("key",), ("comment", "key"), ("key", "blank", "key"), ("foreign", "key", "comment"),
                                           ("key", "key", "key"), ("blank",), ("comment", "foreign")] for eol in ("\n", "\r\n")])
def h_text(c, kinds, eol):
    """BOUNDED (<= 3 lines): the keys are those of the key lines, in file order, whatever the line ends (LF or CRLF,
    also after the last line) and whatever comment / blank / foreign lines are interleaved"""
    lines, want = [], []
    for i, k in enumerate(kinds):
        ln, key = make_line(c, k, i)
        lines.append(ln)
        if key:
            want.append(key)
    trailing = c.choice("trailing_eol", [True, False])
    pieces = []
    for i, ln in enumerate(lines):
        pieces.append(ln)
        if i < len(lines) - 1 or trailing:
            pieces.append(eol)
    out = c.call(KR + ".get_keys_from_string", c.text(*pieces))
    c.ensure("no_raise", out.exc is None, kind="raises")
    if out.exc is not None:
        return
    keys = out.value
    c.ensure("count", len(keys) == len(want))
    if len(keys) != len(want):
        return
    for k, (label, r, v) in zip(keys, want):
        c.ensure("key.fields", same_text(c, c.get(k, "label"), label) and same_text(c, c.get(k, "client_random"), r)
                 and same_text(c, c.get(k, "value"), v))


@harness("C09", "keylog.option_default", functions=[M + ".arg_parser_init"])
def h_s_default(c):
    """-s has no default path: without -s no key-log file is read and embedded DSB secrets are the only source (a
    cwd-relative sample path made DSB-only runs exit before reading the capture)"""
    parser = c.recorder("ArgumentParser", handler=lambda m, a, k: c.namespace() if m == "parse_args" else None)
    c.lib_model("argparse.ArgumentParser", lambda *a, **k: parser)
    out = c.call(M + ".arg_parser_init")
    c.ensure("no_raise", out.exc is None, kind="raises")
    adds = {a[0]: k for (m, a, k) in c.calls(parser) if m == "add_argument"}
    c.ensure("has_-s", "-s" in adds)
    if "-s" in adds:
        c.ensure("-s.default_is_None", adds["-s"].get("default") is None)


SE = "tlexport.session.Session"
QS = "tlexport.quic.quic_session.QuicSession"


def spelled_bytes(c, token):
    """the bytes a hex token spells (case-insensitively)"""
    if c.native:
        return bytes.fromhex(token)
    return token.pyvc_fromhex(c.I)


def make_keys(c, n):
    keys = []
    for i in range(n):
        label = c.choice("label%d" % i, ["CLIENT_RANDOM", "CLIENT_HANDSHAKE_TRAFFIC_SECRET", "SERVER_HANDSHAKE_TRAFFIC_SECRET"])
        r = c.regstr("client_random%d" % i, HEX + "{64}")
        v = c.regstr("secret%d" % i, HEX + "{64}|" + HEX + "{96}")
        keys.append(c.obj(KR + ".Key", label=label, client_random=r, value=v))
    return keys


@harness(["C09", "C04"], "keylog.selection", functions=[SE + ".find_session_secrets"], cases=[(0,), (1,), (2,)])
def h_select(c, n):
    """BOUNDED (<= 3 key-log lines): a connection uses exactly the key-log lines whose client random spells its own
    client random - upper- or lower-case - in key-log order, and nothing else"""
    keys = make_keys(c, n)
    cr = c.bytes("client_random", length=32)
    ver = c.enum("tlexport.tlsversion.TlsVersion", c.choice("version", ["TLS12", "TLS13"]))
    s = c.obj(SE, keylog=keys, client_random=cr, tls_version=ver)
    out = c.method(s, "find_session_secrets")
    c.ensure("no_raise", out.exc is None, kind="raises")
    if out.exc is not None:
        return
    want = [k for k in keys if c.truth_fork(eq(spelled_bytes(c, c.get(k, "client_random")), cr))]
    got = out.value
    c.ensure("exactly_the_matching_lines_in_order", len(got) == len(want) and all(a is b for a, b in zip(got, want)))


@harness(["C09", "C18"], "keylog.read_file", functions=[KR + ".read_keylog_from_file"], cases=[("exists",), ("missing",)])
def h_read_file(c, how):
    """read_keylog_from_file(path) returns the keys of EVERYTHING that reading the path delivers: the path is opened once for reading
    and its whole text goes to get_keys_from_string - whatever kind of file it is (regular file, named pipe, process substitution,
    /dev/stdin): nothing but os.path.exists may be asked of the file system, and what stat() would report about size is not the
    content (assumed: os.path.getsize returns an arbitrary non-negative number).  A missing file ends the run (documented)."""
    if c.native:
        return
    text = c.opaque("key_log_text")
    keys = [c.opaque("key")]
    parsed = []
    c.summary_override(KR + ".get_keys_from_string", lambda ctx, t: parsed.append(t) or keys)
    opened = []

    def fileop(m, a, k):
        if m == "read" and not a:
            return text
        if m in ("close", "__enter__", "__exit__"):
            return None
        from pyvc.core import Unsupported
        raise Unsupported("file.%s%r" % (m, tuple(a)))

    def opener(I, path, mode="r", *a, **k):
        f = c.recorder("file", handler=fileop, path=path, mode=mode)
        opened.append((path, mode))
        return f
    c.lib_model_raw("hook.open", opener)
    c.lib_model("os.path.exists", lambda p: how == "exists")
    exits = []
    c.lib_model("builtins.exit", lambda *a: exits.append(a) or c.raise_in_code("SystemExit"))
    out = c.call(KR + ".read_keylog_from_file", "keys.log")
    if how == "missing":
        c.ensure("missing_file.ends_the_run_without_reading", out.exc == "SystemExit" and not opened and not parsed)
        return
    c.ensure("no_raise", out.exc is None, kind="raises")
    if out.exc is not None:
        return
    c.ensure("opened_once_for_reading", len(opened) == 1 and opened[0][0] == "keys.log" and opened[0][1] in ("r", "rt"))
    c.ensure("whole_text_parsed_and_its_keys_returned", len(parsed) == 1 and parsed[0] is text and out.value is keys)
    c.cover("read")


h_read_file.must_cover = ["read"]
