"""C09 / C04 / C18: the two key-log loops for key logs of ANY length (the bounded harnesses keylog.file_text / keylog.selection
stay as cross-checks with CPython's real str.split).

Both loops are filters.  A filtered list is described by two ghost functions over the input of symbolic length n:
    cnt(q) = number of accepted elements among the first q          (cnt(0) = 0, cnt(q+1) = cnt(q) + [accept(q)])
    idx(j) = position of the j-th accepted element                  (idx(cnt(q)) = q whenever accept(q))
and the loop invariant is   result == seq(cnt(it), j -> out(idx(j)))   (pyvc.symlist.SpecList), quantifier-free."""
from pyvc.api import harness, eq, band, bor, bnot, implies, ite, len_

KR = "tlexport.keylog_reader"
SE = "tlexport.session.Session"


class Filter:
    def __init__(self, c, n):
        self.c, self.n = c, n
        self.accept, self.cnt, self.idx = c.uf("accept", boolean=True), c.uf("accepted_before"), c.uf("position_of_accepted")
        c.assume(self.cnt(0) == 0)

    def step_facts(self, q):
        """the definitions of cnt / idx unfolded at position q"""
        c = self.c
        c.assume(implies(band(0 <= q, q < self.n), band(self.cnt(q + 1) == self.cnt(q) + ite(self.accept(q), 1, 0), self.cnt(q) >= 0,
                                                         implies(self.accept(q), self.idx(self.cnt(q)) == q))))


@harness(["C09", "C18"], "keylog.unbounded.file_text", functions=[KR + ".get_keys_from_string"])
def h_text(c):
    """get_keys_from_string returns, for a text of ANY number of lines, exactly the keys of the lines get_key_from_line accepts, in
    file order.  Assumed (str): text.replace('\\r', '').split('\\n') is the list of the text's lines without their line ends
    (LF or CRLF); get_key_from_line is replaced by its contract (keylog.line_accepted / keylog.any_line_is_safe)."""
    if c.native:
        return
    from pyvc.api import SpecList
    from pyvc.core import Unsupported
    n = c.int("n_lines", 1, None)             # ''.split('\\n') == ['']: at least one (possibly empty) line
    F = Filter(c, n)
    line_obj = lambda q: c.make_obj(None, __idx=q) if False else c.record("line", idx=q)
    key_obj = lambda q: c.record("Key", of_line=q)
    lines = SpecList("lines", n, line_obj, lambda x, q: eq(x.attrs["idx"], q))
    calls = {"replace": 0, "split": 0}

    def text_ops(m, a, k):
        if m == "replace" and len(a) == 2 and a[0] == "\r" and a[1] == "":
            calls["replace"] += 1
            return without_cr
        raise Unsupported("str.%s%r on the key-log text: outside the assumed string contract" % (m, tuple(a)))

    def split_ops(m, a, k):
        if m == "split" and len(a) == 1 and a[0] == "\n":
            calls["split"] += 1
            return lines
        raise Unsupported("str.%s%r on the key-log text: outside the assumed string contract" % (m, tuple(a)))
    without_cr = c.recorder("text_without_CR", handler=split_ops)
    text = c.recorder("key_log_text", handler=text_ops)

    def s_line(ctx, line):
        q = line.attrs["idx"]
        F.step_facts(q)
        return key_obj(q) if ctx.truth_fork(F.accept(q)) else None
    c.summary_override(KR + ".get_key_from_line", s_line)

    def keys_list(cnt):
        return SpecList("keys", cnt, lambda j: key_obj(F.idx(j)), lambda x, j: hasattr(x, "attrs") and "of_line" in x.attrs and eq(x.attrs["of_line"], F.idx(j)))

    def keys_is(K, cnt):
        if isinstance(K, SpecList):
            return band(K.equals_spec(cnt), len(K.lead) == 0)
        if isinstance(K, list):
            return band(eq(len(K), cnt), *[keys_list(0).match(x, j) for j, x in enumerate(K)])
        return False
    c.loop(KR + ".get_keys_from_string", "for line in lines", invariant=lambda e: keys_is(e.keys, F.cnt(e.it)),
           havoc={"keys": lambda cur: keys_list(c.fresh_int("n_keys", 0, None)), "key": lambda cur: None},
           ghost_step=lambda phase, e: F.step_facts(e.it) if phase == "havoc" else None)
    out = c.call(KR + ".get_keys_from_string", text)
    c.ensure("no_raise", out.exc is None, kind="raises")
    if out.exc is not None:
        return
    c.ensure("lines_are_the_LF_separated_pieces_without_CR", calls == {"replace": 1, "split": 1})
    c.ensure("exactly_the_accepted_lines_in_file_order", keys_is(out.value, F.cnt(n)))
    c.cover("returned")


h_text.must_cover = ["returned"]


@harness(["C09", "C04"], "keylog.unbounded.selection", functions=[SE + ".find_session_secrets"], cases=[("TLS12",), ("TLS13",)])
def h_select(c, version):
    """find_session_secrets returns, for a key log of ANY length, exactly the lines whose client random spells the connection's own
    (case-insensitively), in key-log order; the key log itself is not modified"""
    if c.native:
        return
    from pyvc.api import SpecList
    from contracts.keylog import HEX, spelled_bytes
    n = c.int("n_keylog_lines", 0, None)
    F = Filter(c, n)
    cr = c.bytes("client_random", length=32)
    made = {}

    def key_at(q):
        r = c.regstr("client_random_of_line", HEX + "{64}")
        label = c.choice("label_of_line", ["CLIENT_RANDOM", "CLIENT_HANDSHAKE_TRAFFIC_SECRET", "SERVER_HANDSHAKE_TRAFFIC_SECRET", "EXPORTER_SECRET"])
        k = c.obj(KR + ".Key", label=label, client_random=r, value=c.regstr("secret_of_line", HEX + "{64}"), __idx=q)
        # accept(q) is DEFINED as: the random of line q spells this connection's client random
        c.assume(F.accept(q) == eq(spelled_bytes(c, r), cr))
        return k
    keylog = SpecList("keylog", n, key_at, lambda x, q: eq(x.attrs["__idx"], q))

    def sel_list(cnt):
        return SpecList("secrets", cnt, lambda j: c.obj(KR + ".Key", label="CLIENT_RANDOM", client_random="", value="", __idx=F.idx(j)),
                        lambda x, j: hasattr(x, "attrs") and "__idx" in x.attrs and eq(x.attrs["__idx"], F.idx(j)))

    def sel_is(S, cnt):
        if isinstance(S, SpecList):
            return band(S.equals_spec(cnt), len(S.lead) == 0)
        if isinstance(S, list):
            return band(eq(len(S), cnt), *[sel_list(0).match(x, j) for j, x in enumerate(S)])
        return False
    q1 = SE + ".find_session_secrets"
    c.loop(q1, "for secret in self.keylog", invariant=lambda e: sel_is(e.secrets, F.cnt(e.it)),
           havoc={"secrets": lambda cur: sel_list(c.fresh_int("n_selected", 0, None))},
           ghost_step=lambda phase, e: F.step_facts(e.it) if phase == "havoc" else None)
    c.loop(q1, "for secret in secrets", invariant=lambda e: True, havoc={"logging_string": lambda cur: "log text so far"})
    ver = c.enum("tlexport.tlsversion.TlsVersion", version)
    s = c.obj(SE, keylog=keylog, client_random=cr, tls_version=ver)
    out = c.method(s, "find_session_secrets")
    c.ensure("no_raise", out.exc is None, kind="raises")
    if out.exc is not None:
        return
    c.ensure("exactly_the_matching_lines_in_key_log_order", sel_is(out.value, F.cnt(n)))
    c.ensure("key_log_not_modified", c.get(s, "keylog") is keylog and not keylog.tail and not keylog.cleared and c.prove(keylog.count == n))
    c.cover("returned")


h_select.must_cover = ["returned"]


QS = "tlexport.quic.quic_session.QuicSession"


@harness(["C09", "C04"], "keylog.unbounded.quic_selection", functions=[QS + ".set_tls_decryptors"])
def h_quic_select(c):
    """QuicSession.set_tls_decryptors hands key derivation, for a key log of ANY length, exactly the lines whose client random spells
    the connection's client random (upper- or lower-case hex), in key-log order; the key log is not modified"""
    if c.native:
        return
    from pyvc.api import SpecList
    from contracts.keylog import HEX, spelled_bytes
    n = c.int("n_keylog_lines", 0, None)
    F = Filter(c, n)
    cr = c.bytes("client_random", length=32)

    def key_at(q):
        r = c.regstr("client_random_of_line", HEX + "{64}")
        k = c.obj(KR + ".Key", label="CLIENT_TRAFFIC_SECRET_0", client_random=r, value=c.regstr("secret_of_line", HEX + "{64}"), __idx=q)
        c.assume(F.accept(q) == eq(spelled_bytes(c, r), cr))
        return k
    keylog = SpecList("keylog", n, key_at, lambda x, q: eq(x.attrs["__idx"], q))

    def sel_list(cnt):
        return SpecList("session_keys", cnt, lambda j: c.obj(KR + ".Key", label="", client_random="", value="", __idx=F.idx(j)),
                        lambda x, j: hasattr(x, "attrs") and "__idx" in x.attrs and eq(x.attrs["__idx"], F.idx(j)))

    def sel_is(S, cnt):
        if isinstance(S, SpecList):
            return band(S.equals_spec(cnt), len(S.lead) == 0)
        if isinstance(S, list):
            return band(eq(len(S), cnt), *[sel_list(0).match(x, j) for j, x in enumerate(S)])
        return False
    c.loop(QS + ".set_tls_decryptors", "for key in self.keylog", invariant=lambda e: sel_is(e.session_keys, F.cnt(e.it)),
           havoc={"session_keys": lambda cur: sel_list(c.fresh_int("n_selected", 0, None))},
           ghost_step=lambda phase, e: F.step_facts(e.it) if phase == "havoc" else None)
    got = []

    def s_dev(ctx, key_length, secret_list, hash_fun, version):
        got.append(secret_list)
        ctx.raise_("UnboundLocalError")          # whatever derivation does next is the subject of quic.keystate.install / keys.quic_traffic
    c.summary_override("tlexport.quic.quic_key_generation.dev_quic_keys", s_dev)
    v1 = c.enum("tlexport.quic.quic_decode.QuicVersion", "V1")
    s = c.obj(QS, keylog=keylog, quic_version=v1, keys={}, decryptors={}, can_decrypt=True, hash_fun=None, cipher=None, key_length=None, early_traffic_keys=False)
    out = c.method(s, "set_tls_decryptors", cr, c.bytes_of([0x13, 0x01]))
    c.ensure("derivation_reached", len(got) == 1)
    if len(got) == 1:
        c.ensure("exactly_the_matching_lines_in_key_log_order", sel_is(got[0], F.cnt(n)))
    c.ensure("key_log_not_modified", c.get(s, "keylog") is keylog and not keylog.tail and not keylog.cleared and c.prove(keylog.count == n))
    c.cover("returned")


h_quic_select.must_cover = ["returned"]
