"""C15: the traffic keys TLExport derives and installs equal the RFC key schedules.

The cryptographic primitives (hash, HMAC, HKDF-Extract/Expand) are uninterpreted functions (assumed contracts of
`cryptography`); the RFC schedules below are written from the RFC text with the same primitives, and equality of
key material is equality of the resulting byte terms.  Every length is concrete per parameter class, so the PRF
loops unroll completely (a complete proof per class, no invariant needed)."""
from pyvc.api import harness, eq, band, bor, bnot, len_, cat, const

KD = "tlexport.key_derivator"
H = "cryptography.hazmat.primitives.hashes."
HM = "cryptography.hazmat.primitives.hmac.HMAC"
KDF = "cryptography.hazmat.primitives.kdf.hkdf."
ALG = "cryptography.hazmat.primitives.ciphers.algorithms."
AEAD = "cryptography.hazmat.primitives.ciphers.aead."
DIGEST = {"MD5": 16, "SHA1": 20, "SHA256": 32, "SHA384": 48}


# ---- RFC text, with library primitives ------------------------------------------------------------

def hmac_(c, alg, key, msg):
    h = c.lib(HM, key, c.lib(H + alg))
    c.libmethod(h, "update", msg)
    return c.libmethod(h, "finalize")


def hash_(c, alg, msg):
    h = c.lib(H + "Hash", c.lib(H + alg))
    c.libmethod(h, "update", msg)
    return c.libmethod(h, "finalize")


def p_hash(c, alg, secret, seed, length):
    """RFC 5246 section 5 (and RFC 2246 section 5): A(0) = seed, A(i) = HMAC(secret, A(i-1));
    P_hash = HMAC(secret, A(1) + seed) + HMAC(secret, A(2) + seed) + ..."""
    out, a = const(b""), seed
    while len_(out) < length:
        a = hmac_(c, alg, secret, a)
        out = cat(out, hmac_(c, alg, secret, cat(a, seed)))
    return out[:length]


def prf_tls10(c, secret, label, seed, length):
    """RFC 2246 section 5: PRF = P_MD5(S1, label + seed) XOR P_SHA-1(S2, label + seed), S1/S2 the two halves
    (each ceil(len/2) bytes, sharing the middle byte for odd lengths)"""
    n = len_(secret)
    half = (n + 1) // 2
    s1, s2 = secret[:half], secret[n - half:]
    a, b = p_hash(c, "MD5", s1, cat(label, seed), length), p_hash(c, "SHA1", s2, cat(label, seed), length)
    return c.bytes_of([a[i] ^ b[i] for i in range(length)])


def prf_tls12(c, alg, secret, label, seed, length):
    return p_hash(c, alg, secret, cat(label, seed), length)


def ssl3_block(c, secret, randoms, length):
    """RFC 6101 section 6.2.2: MD5(secret + SHA('A' + secret + randoms)) + MD5(secret + SHA('BB' + ...)) + ..."""
    out, i = const(b""), 1
    while len_(out) < length:
        salt = (chr(ord("A") + i - 1) * i).encode()
        out = cat(out, hash_(c, "MD5", cat(secret, hash_(c, "SHA1", cat(const(salt), secret, randoms)))))
        i += 1
    return out[:length]


def partition(block, mac, key, iv):
    """RFC 5246 section 6.3 (same layout in RFC 2246 / 6101)"""
    o, out = 0, {}
    for name, n in (("client_write_MAC_secret", mac), ("server_write_MAC_secret", mac), ("client_write_key", key),
                    ("server_write_key", key), ("client_write_IV", iv), ("server_write_IV", iv)):
        out[name] = block[o:o + n]
        o += n
    return out


def hkdf_expand_label(c, alg, secret, label, length):
    """RFC 8446 section 7.1: HKDF-Expand(secret, HkdfLabel, length), HkdfLabel = uint16 length, opaque label<7..255> =
    "tls13 " + label, opaque context<0..255> = "" """
    full = b"tls13 " + label
    info = cat(const(length.to_bytes(2, "big")), const(bytes([len(full)])), const(full), const(b"\x00"))
    return c.libmethod(c.lib(KDF + "HKDFExpand", c.lib(H + alg), length, info), "derive", secret)


# ---- parameter classes ------------------------------------------------------------------------------
# (cipher class, key length, fixed IV length in the key block, AEAD?) per RFC 5246 6.2.3 / RFC 5288 / 6655 / 7905
CIPHERS = {
    "AES128-CBC": (ALG + "AES", 16, 16, False), "AES256-CBC": (ALG + "AES", 32, 16, False),
    "CAMELLIA128-CBC": (ALG + "Camellia", 16, 16, False), "CAMELLIA256-CBC": (ALG + "Camellia", 32, 16, False),
    "3DES-CBC": (ALG + "TripleDES", 24, 8, False), "IDEA-CBC": (ALG + "IDEA", 16, 8, False), "RC4-128": (ALG + "ARC4", 16, 0, False),
    "AES128-GCM": (AEAD + "AESGCM", 16, 4, True), "AES256-GCM": (AEAD + "AESGCM", 32, 4, True),
    "AES128-CCM": (AEAD + "AESCCM", 16, 4, True), "AES256-CCM": (AEAD + "AESCCM", 32, 4, True),
    "CHACHA20-POLY1305": (AEAD + "ChaCha20Poly1305", 32, 12, True),
}
MACS = ["MD5", "SHA1", "SHA256", "SHA384"]


def ext(c, dotted):
    return c.external(dotted)


def check_keys(c, label, got, want, compare_iv=True):
    for k, v in want.items():
        if k.endswith("_IV") and not compare_iv:
            continue
        c.ensure("%s.%s" % (label, k), eq(got[k], v))


@harness("C15", "keys.tls12", functions=[KD + ".dev_tls_12_keys", KD + ".prf_tls_12", KD + ".gen_master_secret_tls_12"],
         cases=[(cn, m, prf) for cn in CIPHERS for m in (["SHA256"] if CIPHERS[cn][3] else MACS) for prf in ("SHA256", "SHA384")])
def h_tls12(c, cname, mac, prf):
    """RFC 5246 6.3: key_block = PRF(master_secret, "key expansion", server_random + client_random), PRF = P_<hash>
    with the suite's PRF hash (SHA-256 unless the suite says SHA-384); partition by the suite's lengths.  The fixed IV
    of the key block matters only for AEAD suites (CBC uses per-record explicit IVs in TLS 1.1+)."""
    alg, klen, ivlen, aead = CIPHERS[cname]
    maclen = 0 if aead else DIGEST[mac]
    master, cr, sr = c.bytes("master_secret", length=48), c.bytes("client_random", length=32), c.bytes("server_random", length=32)
    mac_fn = ext(c, H + (prf if aead else mac)) if (aead or mac == prf) else ext(c, H + mac)
    # the PRF hash is SHA-384 exactly for suites whose name ends in SHA384 (RFC 5289 / 5288); the code receives the MAC class
    uses384 = (prf == "SHA384")
    if not aead and (mac == "SHA384") != uses384:
        return c.cover("skipped_inconsistent_class")
    mac_fn = ext(c, H + ("SHA384" if uses384 else ("SHA256" if aead else mac)))
    out = c.call(KD + ".dev_tls_12_keys", master, cr, sr, klen, DIGEST[mac] if not aead else 32, 2 * klen + 2 * (DIGEST[mac] if not aead else 32),
                 ext(c, alg), 1 if aead else 0, mac_fn)
    c.ensure("no_raise", out.exc is None, kind="raises")
    if out.exc is not None:
        return
    block = prf_tls12(c, "SHA384" if uses384 else "SHA256", master, const(b"key expansion"), cat(sr, cr), 2 * maclen + 2 * klen + 2 * ivlen)
    check_keys(c, "rfc5246", out.value, partition(block, maclen, klen, ivlen), compare_iv=aead)
    c.cover("reached")


@harness("C15", "keys.tls12_master", functions=[KD + ".gen_master_secret_tls_12"])
def h_tls12_master(c):
    """RFC 5246 8.1: master_secret = PRF(pre_master_secret, "master secret", client_random + server_random)[0..47]"""
    pm, cr, sr = c.bytes("pre_master", length=48), c.bytes("client_random", length=32), c.bytes("server_random", length=32)
    out = c.call(KD + ".gen_master_secret_tls_12", pm, cr, sr)
    c.ensure("no_raise", out.exc is None, kind="raises")
    if out.exc is None:
        c.ensure("rfc5246.master_secret", eq(out.value, prf_tls12(c, "SHA256", pm, const(b"master secret"), cat(cr, sr), 48)))


@harness("C15", "keys.tls10", functions=[KD + ".dev_tls_10_11_keys", KD + ".prf_tls_10_11", KD + ".gen_master_secret_tls_10_11"],
         cases=[(cn, m) for cn in CIPHERS if not CIPHERS[cn][3] for m in ("MD5", "SHA1")])
def h_tls10(c, cname, mac):
    """RFC 2246 6.3 / 5: key_block = PRF(master_secret, "key expansion", server_random + client_random); the IVs of
    the key block are the CBC IVs of the first record in TLS 1.0 (block size of the cipher)"""
    alg, klen, ivlen, aead = CIPHERS[cname]
    maclen = DIGEST[mac]
    master, cr, sr = c.bytes("master_secret", length=48), c.bytes("client_random", length=32), c.bytes("server_random", length=32)
    out = c.call(KD + ".dev_tls_10_11_keys", master, sr, cr, klen, maclen, 2 * klen + 2 * maclen, ext(c, alg), 0)
    c.ensure("no_raise", out.exc is None, kind="raises")
    if out.exc is not None:
        return
    block = prf_tls10(c, master, const(b"key expansion"), cat(sr, cr), 2 * maclen + 2 * klen + 2 * ivlen)
    check_keys(c, "rfc2246", out.value, partition(block, maclen, klen, ivlen), compare_iv=ivlen > 0)
    pm = c.bytes("pre_master", length=48)
    ms = c.call(KD + ".gen_master_secret_tls_10_11", pm, cr, sr)
    c.ensure("master.no_raise", ms.exc is None, kind="raises")
    if ms.exc is None:
        c.ensure("rfc2246.master_secret", eq(ms.value, prf_tls10(c, pm, const(b"master secret"), cat(cr, sr), 48)))


@harness("C15", "keys.ssl30", functions=[KD + ".dev_ssl_30_keys", KD + ".prf_ssl_30", KD + ".gen_master_secret_ssl_30"],
         cases=[(cn, m) for cn in CIPHERS if not CIPHERS[cn][3] for m in ("MD5", "SHA1")])
def h_ssl30(c, cname, mac):
    """RFC 6101 6.2.2: key_block from MD5/SHA-1 with salts 'A','BB','CCC',... over master + server_random + client_random"""
    alg, klen, ivlen, aead = CIPHERS[cname]
    maclen = DIGEST[mac]
    master, cr, sr = c.bytes("master_secret", length=48), c.bytes("client_random", length=32), c.bytes("server_random", length=32)
    out = c.call(KD + ".dev_ssl_30_keys", master, sr, cr, klen, maclen, 2 * klen + 2 * maclen, ext(c, alg), 0)
    c.ensure("no_raise", out.exc is None, kind="raises")
    if out.exc is not None:
        return
    block = ssl3_block(c, master, cat(sr, cr), 2 * maclen + 2 * klen + 2 * ivlen)
    check_keys(c, "rfc6101", out.value, partition(block, maclen, klen, ivlen), compare_iv=ivlen > 0)
    pm = c.bytes("pre_master", length=48)
    ms = c.call(KD + ".gen_master_secret_ssl_30", pm, cr, sr)
    c.ensure("master.no_raise", ms.exc is None, kind="raises")
    if ms.exc is None:
        c.ensure("rfc6101.master_secret", eq(ms.value, ssl3_block(c, pm, cat(cr, sr), 48)))


# ---- TLS 1.3 and QUIC (RFC 8446 7.3, RFC 9001 5.1 / 5.2 / 6) ------------------------------------------------

KR = "tlexport.keylog_reader"
QK = "tlexport.quic.quic_key_generation"
T13_LABELS = {"CLIENT_HANDSHAKE_TRAFFIC_SECRET": "client_handshake", "SERVER_HANDSHAKE_TRAFFIC_SECRET": "server_handshake",
              "CLIENT_TRAFFIC_SECRET_0": "client_application", "SERVER_TRAFFIC_SECRET_0": "server_application"}


def key_obj(c, label, tag, nbytes):
    v = c.regstr("secret_" + tag, "[0-9a-f]{%d}" % (2 * nbytes))
    r = c.regstr("random_" + tag, "[0-9a-f]{64}")
    return c.obj(KR + ".Key", label=label, client_random=r, value=v), v


def spelled(c, token):
    return bytes.fromhex(token) if c.native else token.pyvc_fromhex(c.I)


@harness("C15", "keys.tls13", functions=[KD + ".dev_tls_13_keys"], cases=[(k, h) for k, h in ((16, "SHA256"), (32, "SHA384"), (32, "SHA256"))])
def h_tls13(c, klen, alg):
    """RFC 8446 7.3: [sender]_write_key = HKDF-Expand-Label(Secret, "key", "", key_length), [sender]_write_iv =
    HKDF-Expand-Label(Secret, "iv", "", 12), for the handshake and application traffic secrets of both sides"""
    keys, secrets = [], {}
    for label, short in T13_LABELS.items():
        k, v = key_obj(c, label, short, DIGEST[alg])
        keys.append(k)
        secrets[short] = spelled(c, v)
    out = c.call(KD + ".dev_tls_13_keys", keys, klen, c.lib(H + alg))
    c.ensure("no_raise", out.exc is None, kind="raises")
    if out.exc is not None:
        return
    names = {"client_handshake": ("client_handshake_traffic_secret", "client_handshake_iv"),
             "server_handshake": ("server_handshake_traffic_secret", "server_handshake_iv"),
             "client_application": ("client_application_traffic_secret_0", "client_application_iv"),
             "server_application": ("server_application_traffic_secret_0", "server_application_iv")}
    for short, (kname, ivname) in names.items():
        c.ensure("rfc8446.%s.key" % short, eq(out.value[kname], hkdf_expand_label(c, alg, secrets[short], b"key", klen)))
        c.ensure("rfc8446.%s.iv" % short, eq(out.value[ivname], hkdf_expand_label(c, alg, secrets[short], b"iv", 12)))


@harness("C15", "keys.quic_make_info", functions=[QK + ".make_info"], cases=[(l, n) for l in (b"quic key", b"quic iv", b"quic hp", b"quic ku", b"client in", b"server in") for n in (12, 16, 32, 48)])
def h_make_info(c, label, n):
    out = c.call(QK + ".make_info", label, n)
    c.ensure("no_raise", out.exc is None, kind="raises")
    if out.exc is None:
        full = b"tls13 " + label
        c.ensure("rfc8446.HkdfLabel", eq(out.value, const(n.to_bytes(2, "big") + bytes([len(full)]) + full + b"\x00")))


@harness(["C15", "C02"], "keys.quic_initial", functions=[QK + ".dev_initial_keys"])
def h_initial(c):
    """RFC 9001 5.2: initial_secret = HKDF-Extract(salt_v1, client_dst_connection_id); client/server initial secrets by
    "client in"/"server in" (32 bytes, SHA-256); key/iv/hp by "quic key" (16) / "quic iv" (12) / "quic hp" (16):
    Initial packets ALWAYS use AES-128-GCM"""
    cid = c.bytes("dcid", min_len=0, max_len=20)
    v1 = c.enum("tlexport.quic.quic_decode.QuicVersion", "V1")
    out = c.call(QK + ".dev_initial_keys", cid, v1, False)
    c.ensure("no_raise", out.exc is None, kind="raises")
    if out.exc is not None or out.value is None:
        c.ensure("not_none", False)
        return
    salt = const(bytes.fromhex("38762cf7f55934b34d179ae6a4c80cadccbb7f0a"))
    init = c.libmethod(c.lib(KDF + "HKDF", c.lib(H + "SHA256"), length=32, salt=salt, info=None), "_extract", cid)
    for side in ("client", "server"):
        sec = hkdf_expand_label(c, "SHA256", init, side.encode() + b" in", 32)
        c.ensure("rfc9001.%s_initial_key" % side, eq(out.value[side + "_initial_key"], hkdf_expand_label(c, "SHA256", sec, b"quic key", 16)))
        c.ensure("rfc9001.%s_initial_iv" % side, eq(out.value[side + "_initial_iv"], hkdf_expand_label(c, "SHA256", sec, b"quic iv", 12)))
        c.ensure("rfc9001.%s_initial_hp" % side, eq(out.value[side + "_initial_hp"], hkdf_expand_label(c, "SHA256", sec, b"quic hp", 16)))


QLABELS = {"CLIENT_HANDSHAKE_TRAFFIC_SECRET": "client_handshake", "SERVER_HANDSHAKE_TRAFFIC_SECRET": "server_handshake",
           "CLIENT_TRAFFIC_SECRET_0": "client_application", "SERVER_TRAFFIC_SECRET_0": "server_application",
           "CLIENT_EARLY_TRAFFIC_SECRET": "client_early"}


@harness(["C15", "C02"], "keys.quic_traffic", functions=[QK + ".dev_quic_keys"], cases=[(16, "SHA256"), (32, "SHA384"), (32, "SHA256")])
def h_quic_keys(c, klen, alg):
    """RFC 9001 5.1: key / iv / hp = HKDF-Expand-Label(secret, "quic key" / "quic iv" / "quic hp", "", len) for the
    handshake, 0-RTT and 1-RTT secrets; the 1-RTT secrets themselves are kept for key updates"""
    keys, secrets = [], {}
    for label, short in QLABELS.items():
        k, v = key_obj(c, label, short, DIGEST[alg])
        keys.append(k)
        secrets[short] = spelled(c, v)
    v1 = c.enum("tlexport.quic.quic_decode.QuicVersion", "V1")
    out = c.call(QK + ".dev_quic_keys", klen, keys, c.lib(H + alg), v1)
    c.ensure("no_raise", out.exc is None, kind="raises")
    if out.exc is not None:
        return
    for short, sec in secrets.items():
        c.ensure("rfc9001.%s_key" % short, eq(out.value[short + "_key"], hkdf_expand_label(c, alg, sec, b"quic key", klen)))
        c.ensure("rfc9001.%s_iv" % short, eq(out.value[short + "_iv"], hkdf_expand_label(c, alg, sec, b"quic iv", 12)))
        c.ensure("rfc9001.%s_hp" % short, eq(out.value[short + "_hp"], hkdf_expand_label(c, alg, sec, b"quic hp", klen)))
    c.ensure("secrets_kept.client", eq(out.value["client_application_sec"], secrets["client_application"]))
    c.ensure("secrets_kept.server", eq(out.value["server_application_sec"], secrets["server_application"]))


@harness(["C15", "C02"], "keys.quic_key_update", functions=[QK + ".key_update", "tlexport.quic.quic_decryptor.QuicDecryptor.__init__"],
         cases=[(16, "SHA256", "AESGCM"), (32, "SHA384", "AESGCM"), (32, "SHA256", "ChaCha20Poly1305")])
def h_key_update(c, klen, alg, aead):
    """RFC 9001 6.1: secret_<n+1> = HKDF-Expand-Label(secret_<n>, "quic ku", "", Hash.length); new key/iv from it; per
    direction; the returned decryptor carries (server, client) secrets in the order key_update itself reads them, so
    the contract composes for every generation n"""
    ss, cs = c.bytes("server_secret_n", length=DIGEST[alg]), c.bytes("client_secret_n", length=DIGEST[alg])
    made = []
    c.lib_model(AEAD + aead, lambda key, *a: made.append(key) or c.recorder("aead", key=key))
    dn = c.obj("tlexport.quic.quic_decryptor.QuicDecryptor", keys=[c.bytes("k0", length=klen), c.bytes("iv0", length=12), c.bytes("k1", length=klen),
                                                                  c.bytes("iv1", length=12), ss, cs])
    v1 = c.enum("tlexport.quic.quic_decode.QuicVersion", "V1")
    out = c.call(QK + ".key_update", dn, c.external(H + alg), klen, c.external(AEAD + aead), v1)
    c.ensure("no_raise", out.exc is None, kind="raises")
    if out.exc is not None:
        return
    d1 = out.value
    s1 = hkdf_expand_label(c, alg, ss, b"quic ku", DIGEST[alg])
    c1 = hkdf_expand_label(c, alg, cs, b"quic ku", DIGEST[alg])
    c.ensure("rfc9001.server_key", eq(c.get(d1, "server_key"), hkdf_expand_label(c, alg, s1, b"quic key", klen)))
    c.ensure("rfc9001.server_iv", eq(c.get(d1, "server_iv"), hkdf_expand_label(c, alg, s1, b"quic iv", 12)))
    c.ensure("rfc9001.client_key", eq(c.get(d1, "client_key"), hkdf_expand_label(c, alg, c1, b"quic key", klen)))
    c.ensure("rfc9001.client_iv", eq(c.get(d1, "client_iv"), hkdf_expand_label(c, alg, c1, b"quic iv", 12)))
    ks = c.get(d1, "keys")
    c.ensure("next_generation_secrets_in_reading_order", len(ks) == 6 and eq(ks[4], s1) and eq(ks[5], c1))


# ---- installation: Session.generate_keys -> Decryptor ----------------------------------------------------------

SE = "tlexport.session.Session"
DEC = "tlexport.decryptor.Decryptor"
REPRESENTATIVE = ["002F", "0035", "003C", "009C", "009D", "C02F", "C030", "CCA8", "C09C", "000A", "0005", "0004", "0007", "0041",
                  "C028", "1301", "1302", "1303"]


def _oracle():
    import json
    import os
    from contracts.cipher_suites_native import params_of_name
    here = os.path.dirname(os.path.dirname(os.path.abspath(__file__)))
    o = json.load(open(os.path.join(here, "specs", "iana_tls_cipher_suites.json")))["suites"]
    return {k: (v, params_of_name(v)) for k, v in o.items()}


def versions_for(code, prm):
    if code.startswith("13"):
        return ["TLS13"]
    if prm["aead"] or prm["hash"] in ("SHA256", "SHA384"):
        return ["TLS12"]
    return ["SSL30", "TLS10", "TLS11", "TLS12"]


def _install_cases(codes):
    orc = _oracle()
    out = []
    for code in codes:
        name, prm = orc[code]
        if prm is None:
            continue
        for v in versions_for(code, prm):
            for label in (["CLIENT_RANDOM", "RSA"] if v != "TLS13" else ["TLS13"]):
                out.append((code, v, label))
    return out


import os as _os
if _os.environ.get("PYVC_TIER") == "thorough":      # every suite of the table that the oracle knows, every valid version and label
    try:
        import ast as _ast
        _tree = _ast.parse(open(_os.path.join(_os.environ.get("TLEXPORT_REPO", "/repo"), "tlexport", "cipher_suite_parser.py")).read())
        for _n in _tree.body:
            if isinstance(_n, _ast.Assign) and getattr(_n.targets[0], "id", None) == "cipher_suites":
                REPRESENTATIVE = sorted(k.value.hex().upper() for k in _n.value.keys)
    except Exception:
        pass
INSTALL_CASES = _install_cases([c for c in REPRESENTATIVE if c in _oracle()])


def expected_schedule(c, prm, version, label, secret, cr, sr, name):
    """(client_key, server_key, client_iv or None, server_iv or None, client_mac or None, server_mac or None)"""
    klen = prm["key_len"]
    aead = bool(prm["aead"])
    maclen = 0 if aead else DIGEST[prm["hash"]]
    block_iv = {"AES": 16, "CAMELLIA": 16, "3DES": 8, "IDEA": 8, "RC4": 0}.get(prm["bulk"], 0)
    if version == "TLS12":
        prf = "SHA384" if name.endswith("SHA384") else "SHA256"
        master = secret if label == "CLIENT_RANDOM" else prf_tls12(c, "SHA256", secret, const(b"master secret"), cat(cr, sr), 48)
        ivlen = (12 if prm["bulk"] == "CHACHA20" else 4) if aead else 0
        blk = prf_tls12(c, prf, master, const(b"key expansion"), cat(sr, cr), 2 * maclen + 2 * klen + 2 * ivlen)
        return partition(blk, maclen, klen, ivlen), ivlen > 0
    if version in ("TLS10", "TLS11"):
        master = secret if label == "CLIENT_RANDOM" else prf_tls10(c, secret, const(b"master secret"), cat(cr, sr), 48)
        blk = prf_tls10(c, master, const(b"key expansion"), cat(sr, cr), 2 * maclen + 2 * klen + 2 * block_iv)
        return partition(blk, maclen, klen, block_iv), (version == "TLS10" and block_iv > 0)
    master = secret if label == "CLIENT_RANDOM" else ssl3_block(c, secret, cat(cr, sr), 48)
    blk = ssl3_block(c, master, cat(sr, cr), 2 * maclen + 2 * klen + 2 * block_iv)
    return partition(blk, maclen, klen, block_iv), block_iv > 0


@harness(["C15", "C01"], "keys.installed", functions=[SE + ".generate_keys", SE + ".find_session_secrets", DEC + ".__init__", DEC + ".parse_keys",
                                             DEC + ".get_cipher_type", DEC + ".update_keys"], cases=INSTALL_CASES, timeout=20000)
def h_installed(c, code, version, label):
    """the keys ACTUALLY INSTALLED in the connection's Decryptor after the ServerHello - for the negotiated suite, the
    version, the key-log line whose client random matches (CLIENT_RANDOM = master secret, RSA = pre-master secret, or
    the four TLS 1.3 traffic secrets) and the two hello randoms - are the RFC schedule's; in TLS 1.3 the handshake keys
    come first and update_keys(dir) switches exactly that direction to the application keys"""
    orc = _oracle()
    name, prm = orc[code]
    cr, sr = c.bytes("client_random", length=32), c.bytes("server_random", length=32)
    suite = const(bytes.fromhex(code))
    ver = c.enum("tlexport.tlsversion.TlsVersion", version)
    keys, secrets = [], {}
    if version == "TLS13":
        alg = prm["hash"]
        for lab, short in T13_LABELS.items():
            k, v = key_obj(c, lab, short, DIGEST[alg])
            keys.append(k)
            secrets[short] = spelled(c, v)
    else:
        k, v = key_obj(c, label, "main", 48)
        keys.append(k)
        secrets["main"] = spelled(c, v)
    for k in keys:
        c.assume(eq(spelled(c, c.get(k, "client_random")), cr))           # these lines belong to this connection
    s = c.obj(SE, keylog=keys, client_random=cr, tls_version=ver, extensions={}, compression_method=0, can_decrypt=True,
              server_ip=c.bytes("sip", length=4), client_ip=c.bytes("cip", length=4), server_port=443, client_port=50000, ipv6=False,
              decryptor=None)
    out = c.method(s, "generate_keys", ver, suite, cr, sr)
    c.ensure("no_raise", out.exc is None, kind="raises")
    if out.exc is not None:
        return
    d = c.get(s, "decryptor")
    c.ensure("decryptor_installed", d is not None)
    if d is None:
        return
    g = lambda n: c.get(d, n)
    if version == "TLS13":
        alg, klen = prm["hash"], prm["key_len"]
        want = {short: (hkdf_expand_label(c, alg, sec, b"key", klen), hkdf_expand_label(c, alg, sec, b"iv", 12)) for short, sec in secrets.items()}
        c.ensure("tls13.client_handshake_keys_first", band(eq(g("client_key"), want["client_handshake"][0]), eq(g("client_iv"), want["client_handshake"][1])))
        c.ensure("tls13.server_handshake_keys_first", band(eq(g("server_key"), want["server_handshake"][0]), eq(g("server_iv"), want["server_handshake"][1])))
        up = c.method(d, "update_keys", True)
        c.ensure("tls13.update.no_raise", up.exc is None, kind="raises")
        c.ensure("tls13.update_server_only", band(eq(g("server_key"), want["server_application"][0]), eq(g("server_iv"), want["server_application"][1]),
                                                  eq(g("client_key"), want["client_handshake"][0]), eq(g("client_iv"), want["client_handshake"][1]),
                                                  g("server_seq") == 0))
        up = c.method(d, "update_keys", False)
        c.ensure("tls13.update_client", band(eq(g("client_key"), want["client_application"][0]), eq(g("client_iv"), want["client_application"][1]),
                                             eq(g("server_key"), want["server_application"][0]), g("client_seq") == 0))
        c.cover("reached")
        return
    want, check_iv = expected_schedule(c, prm, version, label, secrets["main"], cr, sr, name)
    c.ensure("installed.client_key", eq(g("client_key"), want["client_write_key"]))
    c.ensure("installed.server_key", eq(g("server_key"), want["server_write_key"]))
    if not prm["aead"]:
        c.ensure("installed.client_mac", eq(g("client_mac"), want["client_write_MAC_secret"]))
        c.ensure("installed.server_mac", eq(g("server_mac"), want["server_write_MAC_secret"]))
    if check_iv:
        c.ensure("installed.client_iv", eq(g("client_iv"), want["client_write_IV"]))
        c.ensure("installed.server_iv", eq(g("server_iv"), want["server_write_IV"]))
    c.ensure("installed.sequence_numbers_start_at_0", band(g("client_seq") == 0, g("server_seq") == 0))
    c.cover("reached")


h_installed.must_cover = ["reached"]


# ---- installation on the QUIC side ------------------------------------------------------------------------------

QS = "tlexport.quic.quic_session.QuicSession"
QD = "tlexport.quic.quic_decryptor.QuicDecryptor"


@harness(["C15", "C02"], "keys.quic_initial_installed", functions=[QS + ".handle_packet", QS + ".set_initial_decryptor"],
         cases=[("first",), ("later_chacha_offered",), ("after_unknown_version",)])
def h_quic_initial_installed(c, when):
    """the Initial decryptor holds the RFC 9001 5.2 keys of the connection's FIRST destination connection ID, in the
    order (server key, server iv, client key, client iv) with AES-128-GCM, and is never replaced afterwards - whatever
    cipher suite the TLS handshake offers or selects"""
    if c.native:
        return
    dcid = c.bytes("dcid", min_len=0, max_len=20)
    derived = []
    v1 = c.enum("tlexport.quic.quic_decode.QuicVersion", "V1")

    def s_initial(ctx, cid, ver, chacha):
        if ver is not v1:
            derived.append((cid, ver, chacha, None))
            return None                      # contract of dev_initial_keys: no salt for an unknown version (keys.quic_initial)
        ks = {k: ctx.bytes_fresh(k, 12, 32) for k in ("server_initial_key", "server_initial_iv", "client_initial_key", "client_initial_iv",
                                                      "server_initial_hp", "client_initial_hp")}
        derived.append((cid, ver, chacha, ks))
        return ks
    c.summary_override(QK + ".dev_initial_keys", s_initial)
    made = []
    c.summary_override(QD + ".__init__", lambda ctx, cls, keys, cipher, early=False: made.append((keys, cipher, early)) or ctx.make_obj(cls, keys=keys))
    tls = c.record("QuicTlsSession", ciphersuite=const(b"\x13\x03") if when == "later_chacha_offered" else None)
    old = c.opaque("initial_decryptor_of_first_dcid")
    from contracts.quic_session_c import full_qsession
    unknown = c.enum("tlexport.quic.quic_decode.QuicVersion", "UNKNOWN")
    s = full_qsession(c, quic_version=(unknown if when == "after_unknown_version" else v1), decryptors={"Initial": old} if when == "later_chacha_offered" else {}, keys={},
                      tls_session=tls, can_decrypt=True, server_cids=c.new_set_of([]), client_cids=c.new_set_of([]), client_ip=c.bytes("cip", length=4), client_port=50000,
                      packet_buffer_quic=[])
    pkt = c.obj("tlexport.packet.Packet", tls_data=const(b""), ip_src=c.bytes("src", length=4), sport=c.int("sport", 0, 65535))
    if when == "after_unknown_version":
        # HISTORY: the first datagram of this address pair carries a version TLExport has no Initial salt for (greased / draft version,
        # usually answered by Version Negotiation); the client then starts over with QUIC v1 and a NEW destination connection ID
        other = c.bytes("dcid_of_the_abandoned_attempt", min_len=0, max_len=20)
        out0 = c.method(s, "handle_packet", pkt, other, unknown)
        c.ensure("no_raise", out0.exc is None, kind="raises")
        if out0.exc is not None:
            return
        c.ensure("unknown_version.nothing_installed", "Initial" not in c.get(s, "decryptors"))
        del derived[:]
        c.set(s, "quic_version", v1)         # (learned from the first v1 datagram; handle_packet's own rule is checked in quic.handle_packet)
    out = c.method(s, "handle_packet", pkt, dcid, v1)
    c.ensure("no_raise", out.exc is None, kind="raises")
    if out.exc is not None:
        return
    decs = c.get(s, "decryptors")
    if when in ("first", "after_unknown_version"):
        c.ensure("derived_once_from_this_dcid_with_aes128", len(derived) == 1 and derived[0][0] is dcid and derived[0][2] is False)
        c.ensure("installed", len(made) == 1 and "Initial" in decs)
        if len(made) == 1 and len(derived) == 1:
            ks = derived[0][3]
            keys, cipher, early = made[0]
            c.ensure("key_order", len(keys) == 4 and keys[0] is ks["server_initial_key"] and keys[1] is ks["server_initial_iv"]
                     and keys[2] is ks["client_initial_key"] and keys[3] is ks["client_initial_iv"])
            c.ensure("aead_is_aesgcm", c.is_external(cipher, AEAD + "AESGCM") and early is False)
    else:
        c.ensure("never_rederived", len(derived) == 0 and len(made) == 0 and decs["Initial"] is old)


@harness(["C15", "C02"], "keys.quic_traffic_installed", functions=[QS + ".set_tls_decryptors"],
         cases=[(b"\x13\x01", 16, "SHA256", "AESGCM"), (b"\x13\x02", 32, "SHA384", "AESGCM"), (b"\x13\x03", 32, "SHA256", "ChaCha20Poly1305"),
                (b"\x13\x04", 16, "SHA256", "AESCCM")])
def h_quic_traffic_installed(c, suite, klen, alg, aead):
    """set_tls_decryptors derives with the suite's hash and key length from exactly the key-log lines of this connection
    and installs Handshake, 1-RTT (generation 0, with both secrets for key updates) and 0-RTT decryptors with the keys in
    the positions QuicDecryptor reads them"""
    if c.native:
        return
    cr = c.bytes("client_random", length=32)
    mine, vm = key_obj(c, "CLIENT_TRAFFIC_SECRET_0", "mine", 32)
    other, vo = key_obj(c, "CLIENT_TRAFFIC_SECRET_0", "other", 32)
    c.assume(eq(spelled(c, c.get(mine, "client_random")), cr))
    c.assume(bnot(eq(spelled(c, c.get(other, "client_random")), cr)))
    got = []

    def s_dev(ctx, key_length, secret_list, hash_fun, version):
        got.append((key_length, list(secret_list), hash_fun))
        return {k: ctx.bytes_fresh(k, 12, 48) for k in (
            "server_handshake_key", "server_handshake_iv", "client_handshake_key", "client_handshake_iv", "server_handshake_hp", "client_handshake_hp",
            "server_application_key", "server_application_iv", "client_application_key", "client_application_iv", "server_application_sec",
            "client_application_sec", "server_application_hp", "client_application_hp", "client_early_key", "client_early_iv", "client_early_hp")}
    c.summary_override(QK + ".dev_quic_keys", s_dev)
    made = []
    c.summary_override(QD + ".__init__", lambda ctx, cls, keys, cipher, early=False: made.append((keys, cipher, early)) or ctx.make_obj(cls, keys=keys))
    v1 = c.enum("tlexport.quic.quic_decode.QuicVersion", "V1")
    s = c.obj(QS, keylog=[other, mine], quic_version=v1, keys={}, decryptors={}, can_decrypt=True, hash_fun=None, cipher=None, key_length=None,
              early_traffic_keys=False)
    out = c.method(s, "set_tls_decryptors", cr, const(suite))
    c.ensure("no_raise", out.exc is None, kind="raises")
    if out.exc is not None:
        return
    c.ensure("derivation.parameters", len(got) == 1 and got[0][0] == klen and c.hash_is(got[0][2], alg))
    c.ensure("derivation.only_this_connections_lines", len(got) == 1 and len(got[0][1]) == 1 and got[0][1][0] is mine)
    if len(got) != 1:
        return
    decs = c.get(s, "decryptors")
    c.ensure("three_decryptors", len(made) == 3 and all(k in decs for k in ("Handshake", "Application", "Early")))
    if len(made) != 3:
        return
    ks = c.get(s, "keys")
    order = [(["server_handshake_key", "server_handshake_iv", "client_handshake_key", "client_handshake_iv"], False),
             (["server_application_key", "server_application_iv", "client_application_key", "client_application_iv",
               "server_application_sec", "client_application_sec"], False),
             (["client_early_key", "client_early_iv"], True)]
    for (keys, cipher, early), (names, want_early) in zip(made, order):
        c.ensure("positions." + names[0], len(keys) == len(names) and all(keys[i] is ks[n] for i, n in enumerate(names)) and early is want_early
                 and c.is_external(cipher, AEAD + aead))
    c.ensure("application_generation_0", isinstance(decs["Application"], list) and len(decs["Application"]) == 1)


SUITE_PARAMS = {b"\x13\x01": (16, "SHA256", "AESGCM"), b"\x13\x02": (32, "SHA384", "AESGCM"), b"\x13\x03": (32, "SHA256", "ChaCha20Poly1305"), b"\x13\x04": (16, "SHA256", "AESCCM")}


@harness(["C15", "C14", "C02"], "keys.quic_installed_twice", functions=[QS + ".set_tls_decryptors"],
         cases=[(a, b) for a in SUITE_PARAMS for b in SUITE_PARAMS if a != b])
def h_quic_installed_twice(c, first, second):
    """a HISTORY of two installations on one connection: TLExport installs keys provisionally for the suite the client offers first
    (for 0-RTT) and again for the suite the server selects.  After the second installation EVERYTHING installed - hash, AEAD and key
    length of the session, the header-protection keys, the Handshake decryptor and generation 0 of the 1-RTT decryptors - is derived
    with the SELECTED suite's parameters from a fresh derivation: nothing of the provisional installation survives"""
    if c.native:
        return
    from contracts.common import QS as _QS
    cr = c.bytes("client_random", length=32)
    mine, vm = key_obj(c, "CLIENT_TRAFFIC_SECRET_0", "mine", 32)
    c.assume(eq(spelled(c, c.get(mine, "client_random")), cr))
    got, results = [], []
    NAMES = ("server_handshake_key", "server_handshake_iv", "client_handshake_key", "client_handshake_iv", "server_handshake_hp", "client_handshake_hp",
             "server_application_key", "server_application_iv", "client_application_key", "client_application_iv", "server_application_sec",
             "client_application_sec", "server_application_hp", "client_application_hp", "client_early_key", "client_early_iv", "client_early_hp")

    def s_dev(ctx, key_length, secret_list, hash_fun, version):
        got.append((key_length, list(secret_list), hash_fun))
        r = {k: ctx.bytes_fresh("%s_%d" % (k, len(got)), 12, 48) for k in NAMES}
        results.append(r)
        return r
    c.summary_override(QK + ".dev_quic_keys", s_dev)
    made = []
    c.summary_override(QD + ".__init__", lambda ctx, cls, keys, cipher, early=False: made.append((keys, cipher, early)) or ctx.make_obj(cls, keys=keys))
    v1 = c.enum("tlexport.quic.quic_decode.QuicVersion", "V1")
    s = c.obj(QS, keylog=[mine], quic_version=v1, keys={}, decryptors={"Initial": c.opaque("initial")}, can_decrypt=True, hash_fun=None, cipher=None, key_length=None,
              early_traffic_keys=False)
    for suite in (first, second):
        out = c.method(s, "set_tls_decryptors", cr, const(suite))
        c.ensure("no_raise", out.exc is None, kind="raises")
        if out.exc is not None:
            return
    klen, alg, aead = SUITE_PARAMS[second]
    c.ensure("second_installation.derives_again_with_the_selected_suites_parameters", len(got) == 2 and got[1][0] == klen and c.hash_is(got[1][2], alg))
    if len(got) != 2:
        return
    r2 = results[1]
    c.ensure("second_installation.session_parameters", c.get(s, "key_length") == klen and c.is_external(c.get(s, "cipher"), AEAD + aead))
    ks, decs = c.get(s, "keys"), c.get(s, "decryptors")
    c.ensure("second_installation.header_protection_keys_are_the_new_ones", all(ks.get(n) is r2[n] for n in NAMES if n.endswith("_hp")))
    hs, app = decs.get("Handshake"), decs.get("Application")
    c.ensure("second_installation.handshake_decryptor_built_from_the_new_keys", hs is not None and c.get(hs, "keys")[0] is r2["server_handshake_key"]
             and c.get(hs, "keys")[2] is r2["client_handshake_key"])
    c.ensure("second_installation.1rtt_generation_0_built_from_the_new_keys", isinstance(app, list) and len(app) == 1 and c.get(app[0], "keys")[0] is r2["server_application_key"]
             and c.get(app[0], "keys")[2] is r2["client_application_key"] and c.get(app[0], "keys")[4] is r2["server_application_sec"])
    c.ensure("initial_keys_untouched", decs.get("Initial") is not None)
    c.cover("installed_twice")


h_quic_installed_twice.must_cover = ["installed_twice"]
