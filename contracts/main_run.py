"""main.run(): option handling, the per-packet branch structure (-c, -g, DSB, empty segments), module state and
the writer loop.  Serves C11 (the -c branches), C09 (DSB / -s), C18 (fresh state, no ambient reads, timestamps
handed to the writer), C08/C12 (the loop body reads only (ts, buf)), C03 (a DSB never reaches the packet parser),
C05 (only EMPTY segments are skipped).

Everything run() calls is replaced by its contract (recorders); run's own body is executed from the real AST."""
from pyvc.api import harness, eq, band, bor, bnot, implies, len_, const, cat

M = "tlexport.main"
KINDS = ["tcp", "udp", "other", "dsb"]


def run_world(c, kind, pre_junk=False):
    """build the world around run(): returns a dict of recorders / inputs"""
    w = {}
    w["args"] = c.namespace(keep_original_ports=c.bool("keep_original_ports"), serverports=[443], metadata=c.bool("metadata"),
                            sslkeylog=None, infile="in.pcapng", outfile="out.pcapng", pcaplegacy=c.bool("pcaplegacy"),
                            checksumTest=c.bool("checksumTest"), greasy=c.bool("greasy"), debug="ERROR", filter=None)
    w["calls"] = []
    rec = w["calls"]
    c.summary_override(M + ".arg_parser_init", lambda ctx: w["args"])
    c.summary_override("tlexport.log.set_logger", lambda ctx, a: None)
    c.summary_override(M + ".get_port_map", lambda ctx, a: rec.append(("get_port_map", a)) or w.setdefault("portmap", c.int_map("portmap")))
    c.summary_override("tlexport.keylog_reader.read_keylog_from_file", lambda ctx, p: rec.append(("read_keylog_from_file", p)) or [])
    dsb_keys = [c.opaque("dsb_key")]
    c.summary_override("tlexport.keylog_reader.get_keys_from_string", lambda ctx, s: rec.append(("get_keys_from_string", s)) or dsb_keys)
    w["dsb_keys"] = dsb_keys
    # the capture: ONE arbitrary element (the loop body is the same for every element; iterations communicate only
    # through the recorded calls and the module-level lists)
    n = c.int("payload_len", 0, 3000)
    first = c.int("first_payload_byte", 0, 255)
    payload = c.bytes("payload", length=n)
    if kind == "dsb":
        ts, buf = -1, c.bytes("dsb_secrets")
    else:
        ts, buf = c.int("ts", 0, 2 ** 40), c.bytes("frame_bytes", min_len=14)
    w["ts"], w["buf"], w["payload"] = ts, buf, payload
    pkt = None
    if kind != "dsb":
        pkt = c.obj("tlexport.packet.Packet", tcp_packet=(kind == "tcp"), udp_packet=(kind == "udp"), timestamp=ts)
        # the wrapper as Packet.__init__ leaves it (packet.init): IP version flag, endpoints, the decoder's objects with their checksum fields
        v6 = c.bool("ipv6_packet")
        c.set(pkt, "ipv6_packet", v6)
        c.set(pkt, "binary", buf)
        seg = None
        if kind == "tcp":
            seg = c.record("dpkt.tcp.TCP", sport=c.int("sport", 0, 65535), dport=c.int("dport", 0, 65535), seq=c.int("seq", 0, 2 ** 32 - 1), ack=c.int("ack", 0, 2 ** 32 - 1),
                           flags=c.int("tcp_flags", 0, 255), sum=c.int("tcp_sum", 0, 65535), data=payload)
        elif kind == "udp":
            seg = c.record("dpkt.udp.UDP", sport=c.int("sport", 0, 65535), dport=c.int("dport", 0, 65535), ulen=c.int("udp_ulen", 0, 65535), sum=c.int("udp_sum", 0, 65535), data=payload)
        c.set(pkt, "ip", c.record("dpkt.ip.IP", v=c.int("ip_v", 4, 6), sum=c.int("ip_sum", 0, 65535), data=seg))
        if kind in ("tcp", "udp"):
            c.set(pkt, "tls_data", payload)
            c.set(pkt, kind, seg)
            c.set(pkt, "sport", seg.attrs["sport"])
            c.set(pkt, "dport", seg.attrs["dport"])
    w["pkt"] = pkt

    def s_packet(ctx, cls, b, t):
        rec.append(("Packet", b, t))
        if kind == "dsb":
            # dpkt raises NeedData / UnpackError on buffers that are not an Ethernet frame: a DSB's text must not get here
            if ctx.nondet("dpkt_raises"):
                ctx.raise_("NeedData")
            return ctx.make_obj(cls, tcp_packet=False, udp_packet=False)
        return pkt
    c.summary_override("tlexport.packet.Packet.__init__", s_packet)
    c.summary_override("tlexport.packet.Packet.get_params", lambda ctx, slf: "params")
    capture = [(ts, buf)]
    c.summary_override("tlexport.dpkt_dsb.Reader.__init__", lambda ctx, cls, f: rec.append(("Reader", f)) or capture)
    c.lib_model("dpkt.pcap.Reader", lambda f: rec.append(("dpkt.pcap.Reader", f)) or capture)
    files = []

    def opener(I, path, mode="r"):
        f = c.recorder("file:%s" % path, path=path, mode=mode)
        files.append(f)
        rec.append(("open", path, mode))
        return f
    c.lib_model_raw("hook.open", opener)
    w["files"] = files
    w["ok"] = c.bool("checksum_verdict")
    c.summary_override("tlexport.checksums.calculate_checksum_tcp", lambda ctx, p: rec.append(("cksum_tcp", p)) or w["ok"])
    c.summary_override("tlexport.checksums.calculate_checksum_udp", lambda ctx, p: rec.append(("cksum_udp", p)) or w["ok"])
    c.summary_override(M + ".handle_packet", lambda ctx, *a, **k: rec.append(("handle_packet", a, k)))
    c.summary_override(M + ".handle_quic_packet", lambda ctx, *a, **k: rec.append(("handle_quic_packet", a, k)))
    writer = c.recorder("Writer")
    w["writer"] = writer
    c.lib_model("dpkt.pcapng.Writer", lambda f, **k: rec.append(("Writer", f, k)) or writer)
    # module state
    for name in ("server_ports", "keylog", "sessions", "quic_sessions"):
        w[name] = c.module_global(M, name)
    return w


def names(w):
    return [x[0] for x in w["calls"]]


@harness(["C11", "C03", "C05", "C09", "C08", "C12", "C18", "C07"], "run.packet_branches", functions=[M + ".run"],
         cases=[(k,) for k in KINDS])
def h_branches(c, kind):
    if c.native:
        return      # run() is replayed through the per-function contracts; no native world for the recorders
    w = run_world(c, kind)
    out = c.call(M + ".run")
    c.ensure("no_raise", out.exc is None, kind="raises")
    if out.exc is not None:
        return
    nm = names(w)
    a = w["args"]
    ct, ok, greasy = c.get(a, "checksumTest"), w["ok"], c.get(a, "greasy")
    n = len_(w["payload"])
    handled_tls = [x for x in w["calls"] if x[0] == "handle_packet"]
    handled_quic = [x for x in w["calls"] if x[0] == "handle_quic_packet"]
    if kind == "dsb":
        c.ensure("dsb.never_parsed_as_a_frame", "Packet" not in nm)
        c.ensure("dsb.secrets_parsed_once", nm.count("get_keys_from_string") == 1)
        c.ensure("dsb.keys_added_to_the_run's_keylog", len(w["keylog"]) == 1 and w["keylog"][0] is w["dsb_keys"][0])
        c.ensure("dsb.nothing_else", not handled_tls and not handled_quic)
        return
    c.ensure("no_-s.no_keylog_file_read", "read_keylog_from_file" not in nm)
    # C07 / C12: the wrapper is built from exactly what the reader yielded - the frame bytes and the capture timestamp ITSELF (rounding or
    # converting it would make the export depend on the container's timestamp resolution and can merge QUIC datagrams of one microsecond)
    pk = [x for x in w["calls"] if x[0] == "Packet"]
    c.ensure("packet.built_once_from_the_readers_frame_and_timestamp", len(pk) == 1 and pk[0][1] is w["buf"] and c.same_object(pk[0][2], w["ts"]))
    c.ensure("checksum.only_computed_with_-c_on_nonempty", implies_py(("cksum_tcp" in nm) or ("cksum_udp" in nm), c.prove(ct & (n > 0))))
    if kind == "tcp":
        want = band(n > 0, bor(bnot(ct), ok))
        if c.truth_fork(want):
            c.ensure("tcp.handled_exactly_once", len(handled_tls) == 1 and not handled_quic)
            if len(handled_tls) == 1:
                args, kw = handled_tls[0][1], handled_tls[0][2]
                allv = list(args) + list(kw.values())
                c.ensure("tcp.handle_packet_arguments", len(allv) == 7 and allv[0] is w["pkt"] and allv[2] is w["keylog"]
                         and allv[3] is w["sessions"] and allv[4] is w["portmap"]
                         and c.same_object(allv[5], c.get(a, "keep_original_ports")) and c.same_object(allv[6], c.get(a, "metadata")))
        else:
            c.ensure("tcp.ignored", not handled_tls and not handled_quic)
        c.cover("tcp")
    elif kind == "udp":
        c.set(w["pkt"], "tls_data", w["payload"])
        fixed_bit = (w["payload"][0] // 64) % 2 == 1 if c.prove(n > 0) else False
        want = band(n > 0, bor(bnot(ct), ok), bor(fixed_bit, greasy))
        if c.truth_fork(want):
            c.ensure("udp.handled_exactly_once", len(handled_quic) == 1 and not handled_tls)
            if len(handled_quic) == 1:
                args, kw = handled_quic[0][1], handled_quic[0][2]
                allv = list(args) + list(kw.values())
                c.ensure("udp.handle_quic_packet_arguments", len(allv) == 5 and allv[0] is w["pkt"] and allv[1] is w["keylog"]
                         and allv[2] is w["quic_sessions"] and allv[3] is w["portmap"] and c.same_object(allv[4], c.get(a, "keep_original_ports")))
        else:
            c.ensure("udp.ignored", not handled_tls and not handled_quic)
        c.cover("udp")
    else:
        c.ensure("other.ignored", not handled_tls and not handled_quic)
    # container independence of everything after (ts, buf): the reader is chosen by -l only
    c.ensure("reader.choice", ("dpkt.pcap.Reader" in nm) != ("Reader" in nm))


def implies_py(a, b):
    return (not a) or b


def ports_are(c, ports, want):
    """the list of server ports denotes exactly the SET `want` (order and repetitions do not matter to any reader of it)"""
    try:
        ports = list(ports)
    except Exception:
        return False
    return all(c.prove(bor(*[eq(p, x) for x in want])) for p in ports) and all(any(c.prove(eq(p, x)) for p in ports) for x in want)


@harness(["C18", "C06", "C09"], "run.state_and_writer", functions=[M + ".run"], cases=[("fresh",), ("after_earlier_run",)])
def h_state(c, how):
    """module-level state left by an earlier run() in the same interpreter does not reach this run; every
    (frame, ts) pair of every session is written in order with its own timestamp (never None: dpkt would substitute
    the wall clock); -s given => exactly that file is read"""
    if c.native:
        return
    w = run_world(c, "other")
    c.set(w["args"], "sslkeylog", "keys.log")
    if how == "after_earlier_run":
        stale_session = c.recorder("stale_session", handler=lambda m, a, k: [(c.record("scapy_frame", __bytes__=c.bytes("stale1")), 1.0)])
        w["sessions"].append(stale_session)
        w["quic_sessions"].append(c.recorder("stale_quic", handler=lambda m, a, k: [(c.record("scapy_frame", __bytes__=c.bytes("stale2")), 2.0)]))
        w["keylog"].append(c.opaque("stale_key"))
        w["server_ports"].append(8443)
    out = c.call(M + ".run")
    c.ensure("no_raise", out.exc is None, kind="raises")
    if out.exc is not None:
        return
    nm = names(w)
    writes = [x for x in c.calls(w["writer"]) if x[0] == "writepkt"]
    c.ensure("earlier_run.sessions_not_exported", len(writes) == 0)
    c.ensure("earlier_run.keylog_fresh", len(w["keylog"]) == 0)
    c.ensure("earlier_run.server_ports_fresh", ports_are(c, w["server_ports"], [443, 44330, 443]))
    c.ensure("-s.exactly_that_file_read", nm.count("read_keylog_from_file") == 1)
    opens = [x for x in w["calls"] if x[0] == "open"]
    c.ensure("files.only_infile_and_outfile", [(x[1], x[2]) for x in opens] == [("in.pcapng", "rb"), ("out.pcapng", "wb")])


@harness(["C10", "C18"], "run.two_runs", functions=[M + ".run"])
def h_two_runs(c):
    """run() twice in one interpreter, the first time with -p <any port>, the second time without: the ports that make TCP
    traffic TLS in the second run are exactly the two defaults and that run's own -p list (whatever the first run left)"""
    if c.native:
        return
    w = run_world(c, "other")
    p1 = c.int("first_run_-p", 1, 65535)
    c.set(w["args"], "serverports", [p1])
    out = c.call(M + ".run")
    c.ensure("first_run.no_raise", out.exc is None, kind="raises")
    if out.exc is not None:
        return
    c.ensure("first_run.server_ports", ports_are(c, w["server_ports"], [443, 44330, p1]))
    c.set(w["args"], "serverports", [443])
    seen = []
    c.summary_override(M + ".handle_packet", lambda ctx, *a, **k: None)
    out = c.call(M + ".run")
    c.ensure("second_run.no_raise", out.exc is None, kind="raises")
    if out.exc is not None:
        return
    c.ensure("second_run.server_ports_are_the_defaults_and_this_run's_-p", ports_are(c, c.module_global(M, "server_ports"), [443, 44330]))
    c.cover("both_runs")


h_two_runs.must_cover = ["both_runs"]


@harness(["C18", "C06", "C08"], "run.writer_loop", functions=[M + ".run"])
def h_writer(c):
    """each (frame, ts) of each TLS session, then of each QUIC session, is serialised and written once, in order,
    with its own timestamp"""
    if c.native:
        return
    w = run_world(c, "other")
    f1, f2, f3 = c.record("scapy_frame", __bytes__=c.bytes("b1")), c.record("scapy_frame", __bytes__=c.bytes("b2")), c.record("scapy_frame", __bytes__=c.bytes("b3"))
    t1, t2, t3 = c.int("t1", 0, 2 ** 40), c.int("t2", 0, 2 ** 40), c.int("t3", 0, 2 ** 40)
    patched = {}

    def reset_hook(phase):
        pass
    s1 = c.recorder("session", handler=lambda m, a, k: [(f1, t1), (f2, t2)])
    q1 = c.recorder("quic_session", handler=lambda m, a, k: [(f3, t3)])
    # sessions are created DURING the run (after the reset of module state): install them through handle_packet's contract
    c.summary_override(M + ".handle_packet", lambda ctx, *a, **k: None)
    w2 = run_world_after_reset(c, w, s1, q1)
    out = c.call(M + ".run")
    c.ensure("no_raise", out.exc is None, kind="raises")
    if out.exc is not None:
        return
    writes = [x for x in c.calls(w["writer"]) if x[0] == "writepkt"]
    c.ensure("writer.three_packets", len(writes) == 3)
    if len(writes) == 3:
        for (m, a, k), (fr, ts) in zip(writes, [(f1, t1), (f2, t2), (f3, t3)]):
            c.ensure("writer.bytes_and_timestamp", len(a) == 2 and eq(a[0], c.get(fr, "__bytes__")) and c.same_object(a[1], ts) and a[1] is not None)
    c.ensure("quic.build_output_gets_metadata_flag", [x for x in c.calls(q1)] == [("build_output", (c.get(w["args"], "metadata"),), {})] or
             (len(c.calls(q1)) == 1 and c.calls(q1)[0][0] == "build_output" and c.same_object(c.calls(q1)[0][1][0], c.get(w["args"], "metadata"))))


def run_world_after_reset(c, w, s1, q1):
    """the capture's single 'other' packet is replaced by a UDP one whose handler contract registers the sessions"""
    pkt = w["pkt"]
    c.set(pkt, "tcp_packet", False)
    c.set(pkt, "udp_packet", True)
    c.set(pkt, "tls_data", cat(const(b"\x40"), w["payload"]))
    c.set(w["args"], "checksumTest", False)

    def hq(ctx, packet, keylog, quic_sessions, portmap, keep=True):
        w["sessions"].append(s1)
        quic_sessions.append(q1)
    c.summary_override(M + ".handle_quic_packet", hq)
    return w


@harness(["C10"], "run.portmap_reaches_the_handlers_as_parsed", functions=[M + ".run"], cases=[("tcp",), ("udp",)])
def h_portmap(c, kind):
    """the -m pairs, exactly as get_port_map parsed them, are what the TLS and the QUIC handler work with: run() neither adds, drops nor
    rewrites a pair - whether or not the mapped server port is one of the ports checked for TLS (a QUIC connection is not gated by that
    list, and its server port is mapped like any other)"""
    if c.native:
        return
    w = run_world(c, kind)
    # two pairs: a server port that is NOT among the ports checked for TLS (neither a default nor this run's -p) and one that is; the
    # mapped-to ports are arbitrary.  (The keys are concrete because the engine concretises dictionary keys; that run() treats every key
    # alike rests on the frame obligation below: it has no statement that changes the map.)
    a_port, b_port = 5555, c.int("mapped_to", 1, 65535)
    a2, b2 = 443, c.int("second_mapped_to", 1, 65535)
    pm = {a_port: b_port, a2: b2}
    w["portmap"] = pm
    c.ensure("frame.run_does_not_change_the_map", c.not_changed_in(M + ".run", "portmap"), kind="frame")
    c.set(w["args"], "checksumTest", False)
    c.set(w["args"], "greasy", True)
    c.assume(len_(w["payload"]) > 0)
    seen = []

    def snapshot(ctx, *a, **k):
        allv = list(a) + list(k.values())
        got = [x for x in allv if x is pm]
        seen.append((len(got), [(kk, vv) for kk, vv in pm.items()]))
    c.summary_override(M + ".handle_packet", snapshot)
    c.summary_override(M + ".handle_quic_packet", snapshot)
    out = c.call(M + ".run")
    c.ensure("no_raise", out.exc is None, kind="raises")
    if out.exc is not None:
        return
    c.ensure("handler_called", len(seen) == 1)
    if len(seen) == 1:
        n_same, items = seen[0]
        c.ensure("handler_gets_the_parsed_map_itself", n_same == 1)
        c.ensure("every_pair_still_there_and_unchanged", len(items) == 2 and all(
            any(c.prove(band(eq(k, wk), eq(v, wv))) for k, v in items) for wk, wv in [(a_port, b_port), (a2, b2)]))
    c.cover("handled")


h_portmap.must_cover = ["handled"]
