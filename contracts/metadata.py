"""C13: -a (metadata export) only ADDS material.  Two-run (product) contract on Session.handle_tls_record: the
same record, the same session state and the same decryptor behaviour, once with exp_meta = False and once with
exp_meta = True.  The application-data entries, every flag, and the sequence of decryptor calls are identical;
with -a the only difference is additional entries that carry THIS record verbatim (or its decrypted handshake
bytes).  The QUIC and packet-building parts are clauses of quic_out.build / tcp_out.build (both tagged C13)."""
from pyvc.api import harness, eq, band, bor, bnot, len_, cat, const

SE = "tlexport.session.Session"
TV = "tlexport.tlsversion.TlsVersion"
FLAGS = ["can_decrypt", "client_hello_seen", "server_cipher_change", "client_cipher_change"]


@harness("C13", "metadata.product", functions=[SE + ".handle_tls_record", SE + ".handle_tls_handshake_record", SE + ".handle_handshake_finished",
                                               SE + ".handle_alert", SE + ".handle_tls_application_record", SE + ".handle_tls_13_application_record"],
         cases=[(t, v) for t in (0x16, 0x17, 0x15, 0x14) for v in ("TLS12", "TLS13", "TLS10")], timeout=20000)
def h_product(c, rtype, version):
    if c.native:
        return
    frag = c.bytes("fragment", min_len=1, max_len=17000)
    raw = cat(c.bytes_of([rtype]), c.bytes("rest_of_header", length=4), frag)
    rec = c.obj("tlexport.tlsrecord.TlsRecord", binary=frag, record_type=rtype, record_version=raw[1:3], record_length=raw[3:5], raw=raw,
                metadata=[c.record("Packet", timestamp=1.0)], isserver=True)
    isserver = c.bool("isserver")
    flags0 = {f: c.bool(f) for f in FLAGS}
    plaintext = c.bytes("decrypted", max_len=17000)
    fails = c.bool("decrypt_fails")
    has_dec = c.choice("has_decryptor", [True, False])
    # TLS <= 1.2 handshake types that are not hellos take the Finished path; hellos are handled identically in both runs
    if rtype == 0x16:
        c.assume((frag[0] != 1) & (frag[0] != 2))
    runs = {}
    seq0 = {"server_seq": c.int("server_seq", 0, 2 ** 62), "client_seq": c.int("client_seq", 0, 2 ** 62)}
    for meta in (False, True):
        calls = []

        def behave(m, a, k, _calls=calls):
            _calls.append((m, a))
            if m == "decrypt":
                if c.truth_fork(fails):
                    c.raise_in_code("InvalidTag")
                return plaintext
            return None
        # the decryptor's record counters are part of the compared state: they enter nonce / MAC of every later record
        dec = c.recorder("decryptor", handler=behave, **seq0) if has_dec else None
        attrs = dict(exp_meta=meta, decryptor=dec, application_traffic=[], tls_version=c.enum(TV, version), server_ip=c.bytes("sip", length=4),
                     client_ip=c.bytes("cip", length=4), server_port=443, client_port=50000, ipv6=False)
        attrs.update(flags0)
        s = c.obj(SE, **attrs)
        out = c.method(s, "handle_tls_record", rec, isserver)
        runs[meta] = (s, out, calls)
    (s0, o0, calls0), (s1, o1, calls1) = runs[False], runs[True]
    c.ensure("same_outcome", (o0.exc is None) == (o1.exc is None) or (o0.exc is None))       # -a may not make a quiet record fail
    if o0.exc is not None or o1.exc is not None:
        c.ensure("no_raise_with_-a_where_quiet_without", not (o0.exc is None and o1.exc is not None))
        return
    t0, t1 = c.get(s0, "application_traffic"), c.get(s1, "application_traffic")
    for f in FLAGS:
        c.ensure("flags_equal." + f, c.prove(eq(c.get(s0, f), c.get(s1, f))))
    c.ensure("decryptor_driven_identically", len(calls0) == len(calls1) and all(a[0] == b[0] for a, b in zip(calls0, calls1)))
    if has_dec:
        d0, d1 = c.get(s0, "decryptor"), c.get(s1, "decryptor")
        c.ensure("decryptor_record_counters_equal", all(c.prove(eq(c.get(d0, a), c.get(d1, a))) for a in ("server_seq", "client_seq")))
    if rtype == 0x17:
        c.ensure("application_data.same_entries", len(t0) == len(t1) and all(c.prove(eq(x[0], y[0])) and x[1] is y[1] and c.same_object(x[2], y[2]) for x, y in zip(t0, t1)))
    else:
        c.ensure("without_-a.nothing_exported_for_non_application_records", len(t0) == 0)
        c.ensure("with_-a.only_this_record_is_added", all(e[1] is rec and c.same_object(e[2], isserver) for e in t1))
        if rtype in (0x15, 0x14):
            c.ensure("with_-a.record_verbatim", len(t1) == 1 and t1[0][0] is raw)
    c.cover("compared")


h_product.must_cover = ["compared"]


@harness("C13", "metadata.flag_is_read_only_where_it_may_add_packets", functions=[])
def h_flag_frames(c):
    """FRAME obligation (syntactic, conservative) closing the gap the product contract leaves: the product harness excludes the
    ClientHello / ServerHello branch by precondition.  Here: `exp_meta` (the -a flag inside a Session) is WRITTEN only by the
    constructor and READ only in the three functions the product contract covers - so hello parsing, key generation, framing,
    decryption and the output builder cannot behave differently with -a; and OutputBuilder / Decryptor never see the flag."""
    if c.native:
        return
    import ast
    allowed_readers = {"handle_tls_record", "handle_handshake_finished", "handle_tls_application_record", "handle_tls_13_application_record",
                       "handle_tls_handshake_record", "handle_alert"}
    cls = c.const_of(SE)
    for name, fv in sorted(cls.methods.items()):
        reads = [n for n in ast.walk(fv.node) if isinstance(n, ast.Attribute) and n.attr == "exp_meta" and isinstance(n.ctx, ast.Load)]
        writes = [n for n in ast.walk(fv.node) if isinstance(n, ast.Attribute) and n.attr == "exp_meta" and isinstance(n.ctx, (ast.Store, ast.Del))]
        dyn = [n for n in ast.walk(fv.node) if isinstance(n, ast.Call) and isinstance(n.func, ast.Name) and n.func.id in ("getattr", "setattr", "vars", "hasattr")
               or isinstance(n, ast.Attribute) and n.attr == "__dict__"]
        c.ensure("frame[Session.%s].reads_-a_only_in_the_functions_under_the_product_contract" % name, not reads or name in allowed_readers, kind="frame")
        c.ensure("frame[Session.%s].writes_-a_only_in_the_constructor" % name, not writes or name == "__init__", kind="frame")
        c.ensure("frame[Session.%s].no_reflective_attribute_access" % name, not dyn, kind="frame")
    for q in ("tlexport.output_builder.OutputBuilder", "tlexport.decryptor.Decryptor", "tlexport.tlsrecord.TlsRecord"):
        k = c.const_of(q)
        for name, fv in sorted(k.methods.items()):
            uses = [n for n in ast.walk(fv.node) if isinstance(n, (ast.Attribute, ast.Name)) and (getattr(n, "attr", None) == "exp_meta" or getattr(n, "id", None) in ("exp_meta", "metadata") and q.endswith("Decryptor"))]
            c.ensure("frame[%s.%s].never_sees_the_flag" % (k.name, name), not uses, kind="frame")
    c.cover("checked")


h_flag_frames.must_cover = ["checked"]
