"""C07 / C12 / C04 / C11: tlexport.packet.Packet.__init__ against the assumed record model of dpkt's decoders.

dpkt.ethernet.Ethernet(buf) is a record {src, dst, data}; data is an IP {src, dst, p, data} / IP6 {src, dst, nxt, data} record or
something else; its data is a TCP {sport, dport, seq, ack, sum, data} / UDP {sport, dport, sum, data} record or something else.
Contract, per kind of frame: the wrapper carries EXACTLY what the decoder delivered - endpoints (MACs, addresses, ports) in their
direction, sequence numbers, the transport payload, the IP version flag, the kind flags - and the capture timestamp and the frame
bytes it was handed, UNCHANGED (the timestamp is the reader's value itself: any arithmetic on it would make the export depend on the
container's timestamp resolution); a non-IP frame or a non-TCP/UDP datagram is flagged as neither."""
from pyvc.api import harness, eq, band, bor, bnot, len_, const

PK = "tlexport.packet.Packet"
KINDS = [(v6, l4) for v6 in (False, True) for l4 in ("tcp", "udp", "other")] + [(None, "non_ip")]


@harness(["C07", "C12", "C04", "C11"], "packet.init", functions=[PK + ".__init__"], cases=KINDS)
def h_packet_init(c, ipv6, l4):
    if c.native:
        return
    buf = c.bytes("frame_bytes", min_len=14)
    ts = c.opaque("capture_timestamp") if c.nondet("timestamp_is_an_opaque_number") else c.int("capture_timestamp_ticks", 0, 2 ** 62)
    esrc, edst = c.bytes("eth_src", length=6), c.bytes("eth_dst", length=6)
    alen = 16 if ipv6 else 4
    isrc, idst = c.bytes("ip_src", length=alen), c.bytes("ip_dst", length=alen)
    sport, dport = c.int("sport", 0, 65535), c.int("dport", 0, 65535)
    seq, ack = c.int("seq", 0, 2 ** 32 - 1), c.int("ack", 0, 2 ** 32 - 1)
    payload = c.bytes("transport_payload")
    if l4 == "tcp":
        seg = c.record("dpkt.tcp.TCP", sport=sport, dport=dport, seq=seq, ack=ack, sum=c.int("tcp_sum", 0, 65535), data=payload)
    elif l4 == "udp":
        seg = c.record("dpkt.udp.UDP", sport=sport, dport=dport, sum=c.int("udp_sum", 0, 65535), data=payload)
    else:
        seg = c.record("dpkt.icmp.ICMP", data=payload)
    if l4 == "non_ip":
        net = c.record("dpkt.arp.ARP")
    elif ipv6:
        net = c.record("dpkt.ip6.IP6", src=isrc, dst=idst, nxt=c.int("next_header", 0, 255), data=seg)
    else:
        net = c.record("dpkt.ip.IP", src=isrc, dst=idst, p=c.int("protocol", 0, 255), data=seg)
    eth = c.record("dpkt.ethernet.Ethernet", src=esrc, dst=edst, data=net)
    decoded = []
    c.lib_model("dpkt.ethernet.Ethernet", lambda b: decoded.append(b) or eth)
    out = c.new(PK, buf, ts)
    c.ensure("no_raise", out.exc is None, kind="raises")
    if out.exc is not None:
        return
    p = out.value
    g = lambda n: c.get(p, n)
    c.ensure("decoder_gets_the_frame_bytes", len(decoded) == 1 and decoded[0] is buf)
    c.ensure("capture_timestamp_kept_as_handed_in", g("timestamp") is ts)
    c.ensure("frame_bytes_kept", g("binary") is buf)
    if l4 == "non_ip":
        c.ensure("non_ip.flagged_as_neither", g("tcp_packet") is False and g("udp_packet") is False)
        return
    c.ensure("ip_version_flag", g("ipv6_packet") is bool(ipv6))
    c.ensure("endpoints.macs_in_direction", g("ethernet_src") is esrc and g("ethernet_dst") is edst)
    c.ensure("endpoints.addresses_in_direction", g("ip_src") is isrc and g("ip_dst") is idst)
    c.ensure("ip_object_is_the_decoders", g("ip") is net)
    if l4 == "tcp":
        c.ensure("tcp.flags", g("tcp_packet") is True and g("udp_packet") is False)
        c.ensure("tcp.ports_in_direction", c.same_object(g("sport"), sport) and c.same_object(g("dport"), dport))
        c.ensure("tcp.sequence_numbers", c.same_object(g("seq"), seq) and c.same_object(g("ack"), ack))
        c.ensure("tcp.payload_and_segment_object", g("tls_data") is payload and g("tcp") is seg and not c.has(p, "udp"))
    elif l4 == "udp":
        c.ensure("udp.flags", g("tcp_packet") is False and g("udp_packet") is True)
        c.ensure("udp.ports_in_direction", c.same_object(g("sport"), sport) and c.same_object(g("dport"), dport))
        c.ensure("udp.payload_and_datagram_object", g("tls_data") is payload and g("udp") is seg and not c.has(p, "tcp"))
    else:
        c.ensure("other.flagged_as_neither", g("tcp_packet") is False and g("udp_packet") is False)
    c.cover("built")


h_packet_init.must_cover = ["built"]
