"""C07 / C12 / C04 / C11 / C05 / C01: tlexport.packet.Packet.__init__ against the assumed record model of dpkt's decoders.

dpkt.ethernet.Ethernet(buf) is a record {src, dst, data}; data is an IP {src, dst, p, data} / IP6 {src, dst, nxt, data} record or
something else; its data is a TCP {sport, dport, seq, ack, sum, data} / UDP {sport, dport, sum, data} record or something else.
Contract, per kind of frame: the wrapper carries EXACTLY what the decoder delivered - endpoints (MACs, addresses, ports) in their
direction, sequence numbers, the transport payload, the IP version flag, the kind flags - and the capture timestamp and the frame
bytes it was handed, UNCHANGED (the timestamp is the reader's value itself: any arithmetic on it would make the export depend on the
container's timestamp resolution); a non-IP frame or a non-TCP/UDP datagram is flagged as neither."""
from pyvc.api import harness, eq, band, bor, bnot, len_, const

PK = "tlexport.packet.Packet"
KINDS = [(v6, l4) for v6 in (False, True) for l4 in ("tcp", "udp", "other")] + [(None, "non_ip")]


@harness(["C07", "C12", "C04", "C11", "C05", "C01"], "packet.init", functions=[PK + ".__init__"], cases=KINDS)
def h_packet_init(c, ipv6, l4):
    if c.native:
        return h_packet_init_native(c, ipv6, l4)
    buf = c.bytes("frame_bytes", min_len=14)
    ts = c.opaque("capture_timestamp") if c.nondet("timestamp_is_an_opaque_number") else c.int("capture_timestamp_ticks", 0, 2 ** 62)
    esrc, edst = c.bytes("eth_src", length=6), c.bytes("eth_dst", length=6)
    alen = 16 if ipv6 else 4
    isrc, idst = c.bytes("ip_src", length=alen), c.bytes("ip_dst", length=alen)
    sport, dport = c.int("sport", 0, 65535), c.int("dport", 0, 65535)
    seq, ack = c.int("seq", 0, 2 ** 32 - 1), c.int("ack", 0, 2 ** 32 - 1)
    payload = c.bytes("transport_payload")
    # the records carry EVERY field dpkt's decoders set (a change that reads one of them is executed, not answered with a spurious
    # AttributeError); all of them arbitrary
    u8, u16, u32 = (lambda n: c.int(n, 0, 255)), (lambda n: c.int(n, 0, 65535)), (lambda n: c.int(n, 0, 2 ** 32 - 1))
    sums = {}
    if l4 == "tcp":
        sums["l4"] = u16("tcp_sum")
        seg = c.record("dpkt.tcp.TCP", sport=sport, dport=dport, seq=seq, ack=ack, off=c.int("tcp_off", 5, 15), flags=u8("tcp_flags"), win=u16("tcp_win"),
                       sum=sums["l4"], urp=u16("tcp_urp"), opts=c.bytes("tcp_opts", max_len=40), data=payload)
    elif l4 == "udp":
        sums["l4"] = u16("udp_sum")
        seg = c.record("dpkt.udp.UDP", sport=sport, dport=dport, ulen=u16("udp_ulen"), sum=sums["l4"], data=payload)
    else:
        seg = c.record("dpkt.icmp.ICMP", type=u8("icmp_type"), code=u8("icmp_code"), sum=u16("icmp_sum"), data=payload)
    if l4 == "non_ip":
        net = c.record("dpkt.arp.ARP", op=u16("arp_op"), data=const(b""))
    elif ipv6:
        net = c.record("dpkt.ip6.IP6", v=6, fc=u8("ip6_fc"), flow=c.int("ip6_flow", 0, 2 ** 20 - 1), plen=u16("ip6_plen"), nxt=c.int("next_header", 0, 255),
                       hlim=u8("ip6_hlim"), src=isrc, dst=idst, extension_hdrs={}, all_extension_headers=[], data=seg)
    else:
        sums["ip"] = u16("ip_sum")
        net = c.record("dpkt.ip.IP", v=4, hl=c.int("ip_hl", 5, 15), tos=u8("ip_tos"), len=u16("ip_len"), id=u16("ip_id"), off=u16("ip_off"), ttl=u8("ip_ttl"),
                       p=c.int("protocol", 0, 255), sum=sums["ip"], src=isrc, dst=idst, opts=c.bytes("ip_opts", max_len=40), data=seg)
    eth = c.record("dpkt.ethernet.Ethernet", src=esrc, dst=edst, type=u16("ether_type"), data=net)

    # assumed contract of dpkt 1.9.8 (read from its source; the same model as in contracts/checksums.py): serialising an IP / IP6 object is
    # NOT pure - when the transport checksum field of the parsed segment is zero (and, for IPv4, the header checksum too) __bytes__ computes
    # the correct checksum and WRITES IT BACK into ip.data.sum, the very object Packet exposes as .tcp / .udp
    def ip_bytes(I, o):
        d = o.attrs["data"]
        if "sum" in getattr(d, "attrs", {}):
            may = d.attrs["sum"] == 0
            if "sum" in o.attrs:
                may = band(may, o.attrs["sum"] == 0)
            if I.truth(may):
                d.attrs["sum"] = c.fresh_int("checksum_written_back_by_dpkt", 0, 65535)
        return c.bytes_fresh("ip_packet_bytes", 20, None)
    for k in ("dpkt.ip6.IP6", "dpkt.ip.IP"):
        c.lib_model_raw(k + ".__bytes__", ip_bytes)
        c.lib_model_raw(k + ".__len__", lambda I, o: c.fresh_int("ip_packet_length", 20, 65575))
    for k in ("dpkt.tcp.TCP", "dpkt.udp.UDP", "dpkt.ethernet.Ethernet"):
        c.lib_model_raw(k + ".__bytes__", lambda I, o: c.bytes_fresh("serialised", 8, None))
        c.lib_model_raw(k + ".__len__", lambda I, o: c.fresh_int("serialised_length", 8, 65575))
    decoded = []
    c.lib_model("dpkt.ethernet.Ethernet", lambda b: decoded.append(b) or eth)
    out = c.new(PK, buf, ts)
    c.ensure("no_raise", out.exc is None, kind="raises")
    if out.exc is not None:
        return
    p = out.value
    g = lambda n: c.get(p, n)
    c.ensure("decoder_gets_the_frame_bytes", len(decoded) == 1 and decoded[0] is buf)
    c.ensure("capture_timestamp_kept_as_handed_in", g("timestamp") is ts)
    c.ensure("frame_bytes_kept", g("binary") is buf)
    if l4 == "non_ip":
        c.ensure("non_ip.flagged_as_neither", g("tcp_packet") is False and g("udp_packet") is False)
        return
    c.ensure("ip_version_flag", g("ipv6_packet") is bool(ipv6))
    c.ensure("endpoints.macs_in_direction", g("ethernet_src") is esrc and g("ethernet_dst") is edst)
    c.ensure("endpoints.addresses_in_direction", g("ip_src") is isrc and g("ip_dst") is idst)
    c.ensure("ip_object_is_the_decoders", g("ip") is net)
    # the checksum fields the decoder delivered are what -c will verify: building the wrapper must not touch them (dpkt rewrites a zero
    # checksum field when an IP object is serialised)
    c.ensure("decoders_checksum_fields_untouched", ("l4" not in sums or c.same_object(seg.attrs["sum"], sums["l4"])) and ("ip" not in sums or c.same_object(net.attrs["sum"], sums["ip"])))
    if l4 == "tcp":
        c.ensure("tcp.flags", g("tcp_packet") is True and g("udp_packet") is False)
        c.ensure("tcp.ports_in_direction", c.same_object(g("sport"), sport) and c.same_object(g("dport"), dport))
        c.ensure("tcp.sequence_numbers", c.same_object(g("seq"), seq) and c.same_object(g("ack"), ack))
        c.ensure("tcp.payload_and_segment_object", g("tls_data") is payload and g("tcp") is seg and not c.has(p, "udp"))
    elif l4 == "udp":
        c.ensure("udp.flags", g("tcp_packet") is False and g("udp_packet") is True)
        c.ensure("udp.ports_in_direction", c.same_object(g("sport"), sport) and c.same_object(g("dport"), dport))
        c.ensure("udp.payload_and_datagram_object", g("tls_data") is payload and g("udp") is seg and not c.has(p, "tcp"))
    else:
        c.ensure("other.flagged_as_neither", g("tcp_packet") is False and g("udp_packet") is False)
    c.cover("built")


h_packet_init.must_cover = ["built"]


def h_packet_init_native(c, ipv6, l4):
    """native evaluation: the frame is packed by hand from the same named values (so that checksum fields, flags and the payload are
    exactly the chosen ones - dpkt's own serialiser would repair zero checksums), decoded by the REAL dpkt, wrapped by the real Packet"""
    import struct
    if l4 == "non_ip":
        return
    ts = float(c.int("capture_timestamp_ticks", 0, 2 ** 40)) / 1e6
    esrc, edst = c.bytes("eth_src", length=6), c.bytes("eth_dst", length=6)
    alen = 16 if ipv6 else 4
    isrc, idst = c.bytes("ip_src", length=alen), c.bytes("ip_dst", length=alen)
    sport, dport = c.int("sport", 0, 65535), c.int("dport", 0, 65535)
    seq, ack = c.int("seq", 0, 2 ** 32 - 1), c.int("ack", 0, 2 ** 32 - 1)
    payload = c.bytes("transport_payload", max_len=40)
    l4sum = None
    if l4 == "tcp":
        l4sum, flags = c.int("tcp_sum", 0, 65535), c.int("tcp_flags", 0, 255)
        seg = struct.pack(">HHIIBBHHH", sport, dport, seq, ack, 5 << 4, flags, c.int("tcp_win", 0, 65535), l4sum, c.int("tcp_urp", 0, 65535)) + payload
        proto = 6
    elif l4 == "udp":
        l4sum = c.int("udp_sum", 0, 65535)
        seg = struct.pack(">HHHH", sport, dport, 8 + len(payload), l4sum) + payload
        proto = 17
    else:
        seg = struct.pack(">BBH", 8, 0, c.int("icmp_sum", 0, 65535)) + b"\x00\x00\x00\x00" + payload
        proto = 58 if ipv6 else 1
    ipsum = None
    if ipv6:
        net = struct.pack(">IHBB", 6 << 28, len(seg), proto, 64) + isrc + idst + seg
        etype = 0x86DD
    else:
        ipsum = c.int("ip_sum", 0, 65535)
        net = struct.pack(">BBHHHBBH", 0x45, 0, 20 + len(seg), c.int("ip_id", 0, 65535), 0, 64, proto, ipsum) + isrc + idst + seg
        etype = 0x0800
    buf = edst + esrc + struct.pack(">H", etype) + net
    out = c.new(PK, buf, ts)
    c.ensure("no_raise", out.exc is None, kind="raises")
    if out.exc is not None:
        return
    p = out.value
    c.ensure("capture_timestamp_kept_as_handed_in", p.timestamp is ts)
    c.ensure("frame_bytes_kept", p.binary is buf)
    c.ensure("ip_version_flag", p.ipv6_packet is bool(ipv6))
    c.ensure("endpoints.macs_in_direction", bytes(p.ethernet_src) == esrc and bytes(p.ethernet_dst) == edst)
    c.ensure("endpoints.addresses_in_direction", bytes(p.ip_src) == isrc and bytes(p.ip_dst) == idst)
    if l4 == "tcp":
        c.ensure("tcp.flags", p.tcp_packet is True and p.udp_packet is False)
        c.ensure("tcp.ports_in_direction", p.sport == sport and p.dport == dport)
        c.ensure("tcp.sequence_numbers", p.seq == seq and p.ack == ack)
        c.ensure("tcp.payload_and_segment_object", bytes(p.tls_data) == payload)
        c.ensure("decoders_checksum_fields_untouched", p.tcp.sum == l4sum and (ipsum is None or p.ip.sum == ipsum))
    elif l4 == "udp":
        c.ensure("udp.flags", p.tcp_packet is False and p.udp_packet is True)
        c.ensure("udp.ports_in_direction", p.sport == sport and p.dport == dport)
        c.ensure("udp.payload_and_datagram_object", bytes(p.tls_data) == payload)
        c.ensure("decoders_checksum_fields_untouched", p.udp.sum == l4sum and (ipsum is None or p.ip.sum == ipsum))
    else:
        c.ensure("other.flagged_as_neither", p.tcp_packet is False and p.udp_packet is False)
