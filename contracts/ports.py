"""C10: server-port selection and port mapping (README / -h text: without -m the server port is kept; with -m
it is the mapped port for listed server ports and 8080 for others; the client port never changes; TCP traffic
is TLS only if one side uses a server port, that side being the server) - for TLS and QUIC alike."""
from pyvc.api import harness, ite, eq, band, bor, bnot

M = "tlexport.main"
OB = "tlexport.output_builder.OutputBuilder"
QOB = "tlexport.quic.quic_output_builder.QUICOutputbuilder"
SE = "tlexport.session.Session"
QS = "tlexport.quic.quic_session.QuicSession"


def mapped_port(c, keep, portmap, p):
    """the documented rule"""
    return ite(keep, p, c.map_get(portmap, p, 8080))


@harness("C10", "ports.builder_init", functions=[OB + ".__init__", QOB + ".__init__"], cases=[("tls",), ("quic",)])
def h_builder(c, kind):
    """for ANY port map, any server/client port and either value of keep_original_ports"""
    pm = c.int_map("portmap")
    sp, cp = c.int("server_port", 0, 65535), c.int("client_port", 0, 65535)
    keep = c.bool("keep_original_ports")
    recs = []
    args = [recs, "10.0.0.1", "10.0.0.2", sp, cp, c.opaque("smac"), c.opaque("cmac"), pm, False, keep]
    out = c.new(OB if kind == "tls" else QOB, *args)
    c.ensure("no_raise", out.exc is None, kind="raises")
    if out.exc is not None:
        return
    b = out.value
    c.ensure("server_port", c.get(b, "server_port") == mapped_port(c, keep, pm, sp))
    c.ensure("client_port_unchanged", c.get(b, "client_port") == cp)
    c.ensure("portmap_not_modified", c.map_unmodified(pm))     # the map is shared by all sessions of a run
    c.cover("reached")


h_builder.must_cover = ["reached"]


@harness("C10", "ports.get_port_map", functions=[M + ".get_port_map"], cases=[(0,), (1,), (2,), ("absent",), ("none",)])
def h_port_map(c, n):
    """items 'a:b' (optionally followed by a comma) give {a: b}; -m absent gives {}"""
    if n == "absent":
        ns = c.namespace(keep_original_ports=True)
        pairs = []
    elif n == "none":
        ns = c.namespace(mapports=None)
        pairs = []
    else:
        pairs = [(c.int("a%d" % i, 0, 65535), c.int("b%d" % i, 0, 65535)) for i in range(n)]
        comma = [c.choice("comma%d" % i, ["", ","]) for i in range(n)]
        ns = c.namespace(mapports=[c.decimal(a) + ":" + c.decimal(b) + cm for (a, b), cm in zip(pairs, comma)])
    out = c.call(M + ".get_port_map", ns)
    c.ensure("no_raise", out.exc is None, kind="raises")
    if out.exc is not None:
        return
    d = out.value
    if n == 2:
        same = pairs[0][0] == pairs[1][0]
        c.ensure("size", len(d) == ite(same, 1, 2))
    else:
        c.ensure("size", len(d) == len(pairs))
    for i, (a, b) in enumerate(pairs):
        later = [pairs[j] for j in range(i + 1, len(pairs))]
        want = b
        for (a2, b2) in later:          # a later item for the same port wins (dict assignment)
            want = ite(a2 == a, b2, want)
        got = c.dict_get(d, a)
        c.ensure("entry%d" % i, (got is not None) and eq(got, want))


@harness("C10", "ports.map_action", functions=[M + ".MapPortsAction.__call__"], cases=[("bare",), ("values",)])
def h_map_action(c, how):
    """-m with values stores them, bare -m stores the documented default ['443:8080']; either way
    keep_original_ports becomes False"""
    ns = c.namespace(keep_original_ports=True)
    act = c.obj(M + ".MapPortsAction", dest="mapports")
    vals = [] if how == "bare" else ["8443:9000"]
    out = c.method(act, "__call__", c.opaque("parser"), ns, vals, "-m")
    c.ensure("no_raise", out.exc is None, kind="raises")
    c.ensure("keep_false", c.get(ns, "keep_original_ports") is False)
    c.ensure("mapports", c.get(ns, "mapports") == (["443:8080"] if how == "bare" else ["8443:9000"]))


@harness("C10", "ports.argparse_defaults", functions=[M + ".arg_parser_init"])
def h_argparse(c):
    """call-site obligations on the real add_argument / set_defaults calls (argparse itself is assumed):
    -m uses MapPortsAction with nargs='*' and default SUPPRESS (so the attribute is absent without -m), and the
    parser default is keep_original_ports=True; -p defaults to [443]."""
    calls = []
    parser = c.recorder("ArgumentParser", handler=lambda m, a, k: c.namespace() if m == "parse_args" else None)
    c.lib_model("argparse.ArgumentParser", lambda *a, **k: parser)
    out = c.call(M + ".arg_parser_init")
    c.ensure("no_raise", out.exc is None, kind="raises")
    adds = {a[0]: k for (m, a, k) in c.calls(parser) if m == "add_argument"}
    defaults = [k for (m, a, k) in c.calls(parser) if m == "set_defaults"]
    c.ensure("has_-m", "-m" in adds)
    if "-m" in adds:
        k = adds["-m"]
        c.ensure("-m.action", c.same_object(k.get("action"), c.const_of(M + ".MapPortsAction")))
        c.ensure("-m.nargs", k.get("nargs") == "*")
        c.ensure("-m.default_suppressed", c.is_external(k.get("default"), "argparse.SUPPRESS"))
        c.ensure("-m.dest", adds["-m"] is not None and [a for (m, a, kk) in c.calls(parser) if m == "add_argument" and a[0] == "-m"][0][1] == "--mapports")
    c.ensure("keep_default_true", len(defaults) == 1 and defaults[0].get("keep_original_ports") is True)
    c.ensure("-p.default", "-p" in adds and adds["-p"].get("default") == [443])


def make_packet(c, sport, dport, prefix=""):
    return c.obj("tlexport.packet.Packet", ipv6_packet=False, ip_src=c.bytes(prefix + "ip_src", length=4),
                 ip_dst=c.bytes(prefix + "ip_dst", length=4), sport=sport, dport=dport,
                 ethernet_src=c.bytes(prefix + "eth_src", length=6), ethernet_dst=c.bytes(prefix + "eth_dst", length=6),
                 seq=c.int(prefix + "seq", 0, 2 ** 32 - 1), tls_data=c.bytes(prefix + "tls_data", min_len=1), timestamp=1.0,
                 tcp_packet=True, udp_packet=False)


@harness(["C10", "C07"], "ports.roles", functions=[SE + ".set_client_and_server_ports", QS + ".set_server_client_address"],
         cases=[("tls",), ("quic",)])
def h_roles(c, kind):
    """the side whose port is a server port is the server (source side checked first); addresses, MACs and
    ports of both roles are the packet's"""
    sport, dport = c.int("sport", 0, 65535), c.int("dport", 0, 65535)
    ports = [443, 44330, c.int("extra_port", 0, 65535)]
    pkt = make_packet(c, sport, dport)
    s = c.obj(SE if kind == "tls" else QS)
    meth = "set_client_and_server_ports" if kind == "tls" else "set_server_client_address"
    out = c.method(s, meth, pkt, ports)
    c.ensure("no_raise", out.exc is None, kind="raises")
    if out.exc is not None:
        return
    src_is_server = bor(*[sport == p for p in ports])
    g = lambda n: c.get(s, n)
    p = lambda n: c.get(pkt, n)
    if c.truth_fork(src_is_server):
        want = dict(server_ip=p("ip_src"), server_port=sport, server_mac_addr=p("ethernet_src"),
                    client_ip=p("ip_dst"), client_port=dport, client_mac_addr=p("ethernet_dst"))
    else:
        want = dict(server_ip=p("ip_dst"), server_port=dport, server_mac_addr=p("ethernet_dst"),
                    client_ip=p("ip_src"), client_port=sport, client_mac_addr=p("ethernet_src"))
    for k, v in want.items():
        c.ensure("role." + k, eq(g(k), v))


@harness(["C10", "C05", "C01"], "ports.tls_only_on_server_ports", functions=[M + ".handle_packet"])
def h_guard(c):
    """main.handle_packet with no matching session: a TLS Session is created iff sport or dport is one of the
    server ports (defaults 443 and 44330 plus user-selected ones), with the run's keep_original_ports/portmap -
    WHATEVER the segment carries (C05: whether a connection is tracked must not depend on how TCP cut its first bytes)"""
    sport, dport = c.int("sport", 0, 65535), c.int("dport", 0, 65535)
    extra = c.int("extra_port", 0, 65535)
    pkt = make_packet(c, sport, dport)
    made = []
    c.summary_override(SE + ".__init__", lambda ctx, cls, *a, **k: made.append((a, k)) or ctx.make_obj(cls))
    ports = c.module_global(M, "server_ports")
    c.ensure("defaults", list(ports) == [443, 44330])
    ports.append(extra)
    sessions = []
    pm = c.int_map("portmap")
    keep = c.bool("keep")
    meta = c.bool("exp_meta")
    keylog = []
    out = c.call(M + ".handle_packet", pkt, c.namespace(), keylog, sessions, pm, keep, meta)
    c.ensure("no_raise", out.exc is None, kind="raises")
    on_port = bor(*[bor(sport == p, dport == p) for p in [443, 44330, extra]])
    if c.truth_fork(on_port):
        c.ensure("session_created", len(made) == 1 and len(sessions) == 1)
        if len(made) == 1:
            a, k = made[0]
            allargs = list(a) + list(k.values())
            c.ensure("session_args", (allargs[0] is pkt) and (allargs[1] is ports) and (allargs[2] is keylog)
                     and (allargs[3] is pm) and c.same_object(allargs[4], keep) and c.same_object(allargs[5], meta))
    else:
        c.ensure("no_session_off_server_ports", len(made) == 0 and len(sessions) == 0)
    if c.native:
        del ports[2:]          # the module-level list outlives the call in CPython; restore it for the next replay


@harness(["C04", "C10", "C03"], "demux.matches_session", functions=[SE + ".matches_session", QS + ".matches_session_dgram"],
         cases=[("tls", False), ("tls", True), ("quic", False), ("quic", True)])
def h_matches(c, kind, ipv6):
    """a packet belongs to a session iff its (src ip, src port, dst ip, dst port) equals the session's
    4-tuple in one of the two directions - all four components, both directions (exact iff)"""
    n = 16 if ipv6 else 4
    sip, cip = c.bytes("server_ip", length=n), c.bytes("client_ip", length=n)
    sp, cp = c.int("server_port", 0, 65535), c.int("client_port", 0, 65535)
    psrc, pdst = c.bytes("ip_src", length=n), c.bytes("ip_dst", length=n)
    psp, pdp = c.int("sport", 0, 65535), c.int("dport", 0, 65535)
    s = c.obj(SE if kind == "tls" else QS, server_ip=sip, client_ip=cip, server_port=sp, client_port=cp)
    if kind == "tls":
        pkt = c.obj("tlexport.packet.Packet", ip_src=psrc, ip_dst=pdst, sport=psp, dport=pdp)
        out = c.method(s, "matches_session", pkt)
    else:
        out = c.method(s, "matches_session_dgram", psrc, pdst, psp, pdp)
    c.ensure("no_raise", out.exc is None, kind="raises")
    if out.exc is not None:
        return
    s2c = band(eq(psrc, sip), psp == sp, eq(pdst, cip), pdp == cp)
    c2s = band(eq(psrc, cip), psp == cp, eq(pdst, sip), pdp == sp)
    c.ensure("iff_same_4tuple", eq(c.truth(out.value), bor(s2c, c2s)))
    c.ensure("returns_bool", c.is_bool(out.value))


@harness("C10", "ports.threading", functions=[SE + ".decrypt", QS + ".build_output", M + ".handle_quic_packet"],
         cases=[("tls",), ("quic",), ("quic_session_created",)])
def h_threading(c, kind):
    """call-site obligations: the run's keep_original_ports / portmap / ports reach the builders unchanged"""
    pm = c.int_map("portmap")
    keep = c.bool("keep_original_ports")
    got = []
    if kind == "tls":
        c.summary_override(OB + ".__init__", lambda ctx, cls, *a, **k: got.append((a, k)) or ctx.make_obj(cls))
        c.summary_override(OB + ".build", lambda ctx, slf: [])
        c.summary_override(SE + ".get_tls_records", lambda ctx, slf: None)
        s = c.obj(SE, server_ip=c.bytes("sip", length=4), client_ip=c.bytes("cip", length=4), server_port=c.int("sp", 0, 65535),
                  client_port=c.int("cp", 0, 65535), server_mac_addr=c.bytes("smac", length=6), client_mac_addr=c.bytes("cmac", length=6),
                  portmap=pm, ipv6=False, keep_original_ports=keep, application_traffic=[])
        out = c.method(s, "decrypt")
        c.ensure("no_raise", out.exc is None, kind="raises")
        c.ensure("builder_made_once", len(got) == 1)
        if len(got) == 1:
            a, k = got[0]
            c.ensure("args", (a[0] is c.get(s, "application_traffic")) and c.same_object(a[3], c.get(s, "server_port"))
                     and c.same_object(a[4], c.get(s, "client_port")) and (a[5] is c.get(s, "server_mac_addr"))
                     and (a[6] is c.get(s, "client_mac_addr")) and (a[7] is pm) and (a[8] is False) and c.same_object(a[9], keep))
    elif kind == "quic":
        c.summary_override(QOB + ".__init__", lambda ctx, cls, *a, **k: got.append((a, k)) or ctx.make_obj(cls))
        c.summary_override(QOB + ".build", lambda ctx, slf, metadata: [])
        s = c.obj(QS, server_ip=c.bytes("sip", length=4), client_ip=c.bytes("cip", length=4), server_port=c.int("sp", 0, 65535),
                  client_port=c.int("cp", 0, 65535), server_mac_addr=c.bytes("smac", length=6), client_mac_addr=c.bytes("cmac", length=6),
                  portmap=pm, ipv6=False, keep_original_ports=keep, output_buffer=[c.opaque("frame")])
        out = c.method(s, "build_output", False)
        c.ensure("no_raise", out.exc is None, kind="raises")
        c.ensure("builder_made_once", len(got) == 1)
        if len(got) == 1:
            a, k = got[0]
            allargs = list(a) + list(k.values())
            c.ensure("args", len(allargs) == 10 and c.same_object(allargs[3], c.get(s, "server_port"))
                     and c.same_object(allargs[4], c.get(s, "client_port")) and (allargs[7] is pm) and c.same_object(allargs[9], keep))
    else:
        c.summary_override(QS + ".__init__", lambda ctx, cls, *a, **k: got.append((a, k)) or ctx.make_obj(cls))
        c.summary_override(QS + ".handle_packet", lambda ctx, slf, *a: None)
        pkt = c.obj("tlexport.packet.Packet", tls_data=cat_(const_(b"\xc0\x00\x00\x00\x01\x04"), c.bytes("rest", min_len=8)),
                    ip_src=c.bytes("ip_src", length=4), ip_dst=c.bytes("ip_dst", length=4), sport=c.int("sport", 0, 65535),
                    dport=c.int("dport", 0, 65535))
        keylog = []
        out = c.call(M + ".handle_quic_packet", pkt, keylog, [], pm, keep)
        c.ensure("no_raise", out.exc is None, kind="raises")
        c.ensure("session_made_once", len(got) == 1)
        if len(got) == 1:
            a, k = got[0]
            allargs = list(a) + list(k.values())
            c.ensure("args", len(allargs) == 5 and (allargs[0] is pkt) and (allargs[1] is c.module_global(M, "server_ports"))
                     and (allargs[2] is keylog) and (allargs[3] is pm) and c.same_object(allargs[4], keep))
    c.ensure("portmap_not_modified", c.map_unmodified(pm))


from pyvc.api import cat as cat_, const as const_  # noqa: E402
