"""C08: cutting the capture only removes a suffix of the export.  The export is a left fold over the capture whose
accumulated outputs only grow:
  FRAME obligations (syntactic, on the real ASTs): every accumulating list is append-only outside its constructor
  (reset at the start of run() excepted); every fold loop reads its input only through its loop variable;
  PRODUCT contract (bounded): records delivered from the first k captured segments are a prefix of those delivered
  from all of them; builders: per-iteration transition relations (tcp_out.build, quic_out.build) read only the
  current element."""
from pyvc.api import harness, eq, band, bor, bnot, len_, cat, const, be

SE = "tlexport.session.Session"
M = "tlexport.main"


@harness("C08", "prefix.accumulators_only_grow", functions=[])
def h_frames(c):
    if c.native:
        return
    from pyvc import frames
    import ast
    grow = [("tlexport.session.Session", ["packet_buffer", "application_traffic", "seen_packets_server", "seen_packets_client"]),
            ("tlexport.quic.quic_session.QuicSession", ["output_buffer"]),
            ("tlexport.output_builder.OutputBuilder", ["out", "decrypted_records"]),
            ("tlexport.quic.quic_output_builder.QUICOutputbuilder", ["out", "decrypted_traffic"])]
    for q, attrs in grow:
        cls = c.const_of(q)
        for a in attrs:
            bad = frames.attr_grows_only(cls.node, a)
            c.ensure("frame[%s.%s].append_only" % (cls.name, a), not bad, kind="frame")
    mi = c.I.module(M)
    fns = [n for n in mi.tree.body if isinstance(n, ast.FunctionDef)]
    for name in ("sessions", "quic_sessions", "keylog", "server_ports"):
        bad = [b for b in frames.name_grows_only(fns, name)
               if not (b[0] == "run" and ("clear" in b[2] or "deletes from" in b[2]))]       # the documented reset at the start of run()
        c.ensure("frame[main.%s].append_only_after_reset" % name, not bad, kind="frame")
    run = [n for n in fns if n.name == "run"][0]
    c.ensure("frame[run].reset_precedes_the_fold", _reset_first(run), kind="frame")
    folds = [(M + ".run", "for ts, buf in pcap_reader"), (SE + ".get_tls_records", "for packet in self.packet_buffer"),
             ("tlexport.output_builder.OutputBuilder.build", "for record in self.decrypted_records"),
             ("tlexport.quic.quic_output_builder.QUICOutputbuilder.build", "for frame in self.decrypted_traffic"),
             ("tlexport.quic.quic_session.QuicSession.handle_quic_packet", "for quic_packet in self.packet_buffer_quic")]
    for q, head in folds:
        fv = c.const_of(q)
        ok = frames.loop_reads_iterable_only_through_target(fv.node, head)
        c.ensure("frame[%s].no_lookahead" % q.split(".")[-2 if q.count(".") > 2 else -1] + "." + q.split(".")[-1], ok is True, kind="frame")


def _reset_first(run):
    """every .clear()/del of the module lists in run() occurs before the first loop"""
    import ast
    first_loop = min((n.lineno for n in ast.walk(run) if isinstance(n, (ast.For, ast.While))), default=10 ** 9)
    for n in ast.walk(run):
        if isinstance(n, ast.Call) and isinstance(n.func, ast.Attribute) and n.func.attr == "clear" and n.lineno > first_loop:
            return False
        if isinstance(n, ast.Delete) and n.lineno > first_loop:
            return False
    return True


@harness(["C08", "C05"], "prefix.records_of_a_cut_capture", functions=[SE + ".get_tls_records"],
         cases=[(d, perm, k) for d in ("server",) for perm in ((0, 1), (1, 0), (0, 1, 2), (0, 2, 1), (2, 0, 1), (1, 2, 0)) for k in range(1, len(perm))],
         timeout=20000)
def h_cut(c, direction, perm, k):
    """PRODUCT, BOUNDED (<= 3 segments, <= 14 bytes): the records delivered from the first k captured segments are a
    prefix (same raw bytes, same order) of the records delivered from the whole capture - whatever the cut points, the
    contents, the initial sequence number and the capture order, including orders inside the open finding's region"""
    if c.native:
        return
    from contracts.framing import MAXB
    npk = len(perm)
    total = c.int("stream_len", 1, MAXB)
    S = c.bytes("stream", length=total)
    isn = c.int("isn", 0, 2 ** 32 - 1)
    cuts = [0] + [c.int("cut%d" % i, 1, MAXB) for i in range(1, npk)] + [total]
    for a, b in zip(cuts, cuts[1:]):
        c.assume(a < b)
    sip, cip = c.bytes("server_ip", length=4), c.bytes("client_ip", length=4)
    c.assume(bnot(eq(sip, cip)))
    segs = [c.obj("tlexport.packet.Packet", seq=(isn + cuts[i]) % (2 ** 32), tls_data=S[cuts[i]:cuts[i + 1]], timestamp=float(i),
                  ip_src=sip, ip_dst=cip, sport=443, dport=50000) for i in range(npk)]
    runs = []
    for upto in (k, npk):
        s = c.obj(SE, server_ip=sip, client_ip=cip, server_port=443, client_port=50000, packet_buffer=[segs[i] for i in perm[:upto]],
                  server_packet_buffer=[], client_packet_buffer=[], server_tls_records=[], client_tls_records=[], server_counter=0, client_counter=0)
        delivered = []
        c.summary_override(SE + ".handle_tls_record", lambda ctx, slf, record, isserver, _d=delivered: _d.append(record))
        out = c.method(s, "get_tls_records")
        c.ensure("no_raise", out.exc is None, kind="raises")
        runs.append(delivered)
    cutrun, full = runs
    c.ensure("cut_delivers_a_prefix_of_full", len(cutrun) <= len(full) and all(c.prove(eq(c.get(a, "raw"), c.get(b, "raw"))) for a, b in zip(cutrun, full)))
    c.cover("compared")
