"""C02 (link 'CRYPTO stream'): QuicTlsSession.update_session for ANY number of buffered CRYPTO fragments (the bounded harness
quic.crypto_reassembly stays as the composed cross-check over whole arrival orders of <= 3 fragments).

Per-call loop contract.  Ghost description of the direction's fragment buffer AFTER the new fragment has been appended and the list
sorted by offset (list.sort's contract: a stable permutation in key order - assumed, as for the TCP framing): F(0) .. F(N-1), offsets
off(j) non-decreasing, lengths ln(j) >= 0; every fragment carries the bytes of ONE stream S at its offset: crypto(j) = S[off(j) :
off(j)+ln(j)] (what 'retransmissions carry the same bytes' means; RFC 9000 19.6) and has crypto_length = len(crypto) (the frame contract,
C17).  The scan is a fold with state cur(i) = the direction's stream offset at the head of iteration i:
    cur(0) = offset before the call,   cur(i+1) = cur(i) + ln(i) if off(i) == cur(i) else cur(i)          (definitional ghost facts)
and took(i) = number of fragments consumed among the first i.  Invariant at iteration i: the direction's offset is cur(i); its byte buffer
is  buffer_before ++ S[cur(0) : cur(i)]; the fragment list is  kept(0..i-took(i)) ++ F(i..N)  (consumed fragments are gone, the others
stay in order).  Hence after the call - for any N, any offsets, duplicates and gaps included: what has been handed on is ALWAYS a
contiguous piece of the stream starting where the previous call stopped (never a byte twice, never out of order, never a byte that is
not the stream's), and handle_buffer runs for this direction, afterwards.  With the chain hypothesis (the buffer is a gap-free run
starting at the current offset: off(0) = cur(0), off(j+1) = off(j) + ln(j)) every fragment is consumed and the offset ends at the end of
the run: together with 'sorted', this is 'as soon as the missing piece arrives, everything contiguous is delivered'.
Other packet-number spaces and the other direction are untouched (frame)."""
from pyvc.api import harness, eq, band, bor, bnot, implies, ite, len_, cat, const

QT = "tlexport.quic.quic_tls_parser.QuicTlsSession"
QF = "tlexport.quic.quic_frame"
PT = "tlexport.quic.quic_packet.QuicPacketType"
SPACES = ["INITIAL", "RTT_O", "RTT_1", "HANDSHAKE"]


@harness(["C02", "C08"], "quic.crypto_unbounded.update_session", functions=[QT + ".update_session"],
         cases=[(srv, sp, chain) for srv in (True, False) for sp in ("INITIAL", "HANDSHAKE") for chain in (False, True)], timeout=20000)
def h_update(c, isserver, space, chain):
    if c.native:
        return
    from pyvc.core import Unsupported, PyExc
    from pyvc.interp import Builtin
    I = c.I
    N = c.int("n_buffered_fragments_incl_new", 1, None)
    S = c.bytes("crypto_stream", min_len=0)
    buf0 = c.bytes("reassembled_before", min_len=0, max_len=70000)
    cur0 = c.int("offset_before", 0, None)
    c.assume(cur0 <= len_(S))
    off, ln, cur, took, kidx = c.uf("fragment_offset"), c.uf("fragment_length"), c.uf("offset_at_iteration"), c.uf("consumed_before"), c.uf("kept_position")
    c.assume(band(cur(0) == cur0, took(0) == 0))
    ptype = c.enum(PT, space)
    spkt = c.record("QuicPacket", isserver=isserver, packet_type=ptype)

    def frag_def(j):
        """definitional facts about fragment j and the fold at j (instantiated where the loop touches them)"""
        inside = band(0 <= j, j < N)
        consumed = eq(off(j), cur(j))
        c.assume(implies(inside, band(off(j) >= 0, ln(j) >= 0, off(j) + ln(j) <= len_(S),
                                      cur(j + 1) == ite(consumed, cur(j) + ln(j), cur(j)), took(j + 1) == took(j) + ite(consumed, 1, 0),
                                      implies(bnot(consumed), kidx(j - took(j)) == j))))
        c.assume(implies(band(0 <= j, j + 1 < N), off(j) <= off(j + 1)))                       # sorted by offset
        if chain:
            c.assume(implies(inside, band(off(0) == cur0, off(j + 1) == off(j) + ln(j))))       # gap-free run from the current offset

    def make(j):
        return c.obj(QF + ".CryptoFrame", _bare=True, offset=off(j), crypto_length=ln(j), crypto=S[off(j):off(j) + ln(j)], src_packet=spkt, ghost_index=j)

    class FragmentList:
        """the direction's fragment list, by ghost structure: phase 'before' (N-1 fragments of earlier calls), 'appended' (plus the new
        one, unsorted), 'sorted' = kept(0..kept) ++ F(rest..N)"""

        def __init__(self):
            self.phase, self.kept, self.rest, self.new = "before", 0, 0, None

        def pyvc_len(self, I):
            if self.phase != "sorted":
                raise Unsupported("length of the fragment list before it is sorted")
            return self.kept + (N - self.rest)

        def pyvc_copy(self, I):
            if self.phase != "sorted" or self.kept != 0 or self.rest != 0:
                raise Unsupported("copy of the fragment list in phase %s" % self.phase)
            return Snapshot()

        def pyvc_getattr(self, I, name):
            if name == "append":
                def app(I, x):
                    c.ensure("fragment_list.appended_once_before_sorting", self.phase == "before")
                    self.phase, self.new = "appended", x
                return Builtin("list.append", app)
            if name == "sort":
                def srt(I, key=None, reverse=False):
                    probe = make(c.fresh_int("sort_probe", 0, None))
                    ok = self.phase == "appended" and key is not None and not reverse and c.same_object(I.call(key, [probe]), probe.attrs["offset"])
                    c.ensure("fragment_list.sorted_by_offset_after_the_append", ok)
                    self.phase = "sorted"
                return Builtin("list.sort", srt)
            if name == "remove":
                def rem(I, x):
                    # fragments are distinct objects without __eq__: remove(x) takes out x itself
                    gi = x.attrs.get("ghost_index") if hasattr(x, "attrs") else None
                    if self.phase != "sorted" or gi is None or not c.prove(eq(gi, self.rest)):
                        raise Unsupported("removal of a fragment that is not the scan's current one")
                    self.rest = self.rest + 1
                return Builtin("list.remove", rem)
            raise Unsupported("method %s on the fragment list" % name)

    class Snapshot:
        def pyvc_len(self, I):
            return N

        def pyvc_getitem(self, I, k):
            return make(k)

    FL = FragmentList()
    tls_out = c.new(QT)
    assert tls_out.exc is None, tls_out
    tls = tls_out.value
    side = "server" if isserver else "client"
    other = "client" if isserver else "server"
    c.get(tls, side + "_frame_buffer")[ptype] = FL
    c.get(tls, side + "_offset")[ptype] = cur0
    c.get(tls, side + "_buffer")[ptype] = buf0
    before = {a: dict(c.get(tls, a)) for a in ("server_frame_buffer", "client_frame_buffer", "server_offset", "client_offset", "server_buffer", "client_buffer")}
    calls = []
    c.summary_override(QT + ".handle_buffer", lambda ctx, slf, srv: calls.append((srv, FL.rest)))
    p = c.int("position_of_the_new_fragment_after_sorting", 0, None)
    c.assume(p < N)
    frag_def(p)
    new = make(p)
    gh = {}

    def put_state(i):
        c.get(tls, side + "_offset")[ptype] = cur(i)
        c.get(tls, side + "_buffer")[ptype] = cat(buf0, S[cur0:cur(i)])
        FL.kept, FL.rest = i - took(i), i

    def ghost(phase, e):
        if phase == "havoc":
            i = e.it
            gh["i"] = i
            frag_def(i)
            put_state(i)
        elif phase == "step":
            i = gh["i"]
            # a fragment that was not consumed moves from the unscanned part to the kept part: kept(i - took(i)) = F(i) by definition of kidx
            if c.prove(eq(FL.rest, i)):
                FL.kept, FL.rest = FL.kept + 1, i + 1
            c.cover("iteration")

    def inv(e):
        i = e.it
        r = band(eq(c.get(tls, side + "_offset")[ptype], cur(i)), eq(c.get(tls, side + "_buffer")[ptype], cat(buf0, S[cur0:cur(i)])),
                 eq(FL.rest, i), eq(FL.kept, i - took(i)), cur0 <= cur(i), cur(i) <= len_(S), 0 <= took(i), took(i) <= i)
        if chain:
            r = band(r, eq(took(i), i), implies(i < N, eq(cur(i), off(i))), implies(band(i >= 1, i <= N), eq(cur(i), off(i - 1) + ln(i - 1))))
        return r
    frag_def(0)
    anchor = "for crypto_frame in list(self.%s_frame_buffer[frame.src_packet.packet_type])" % side
    keep = lambda curv: curv
    c.loop(QT + ".update_session", anchor, invariant=inv, ghost_step=ghost,
           havoc={"self.%s_buffer" % side: keep, "self.%s_offset" % side: keep, "self.%s_frame_buffer" % side: keep})
    out = c.method(tls, "update_session", new)
    c.ensure("no_raise", out.exc is None, kind="raises")
    if out.exc is not None:
        return
    frag_def(N - 1)
    c.ensure("offset_is_the_fold_over_all_buffered_fragments", c.prove(eq(c.get(tls, side + "_offset")[ptype], cur(N))))
    got = c.get(tls, side + "_buffer")[ptype]
    c.ensure("delivered_bytes_are_the_streams_next_piece", c.prove(eq(got, cat(buf0, S[cur0:cur(N)]))))
    c.ensure("delivered_piece_lies_in_the_stream_and_only_grows", c.prove(band(cur0 <= cur(N), cur(N) <= len_(S))))
    c.ensure("fragment_list.consumed_fragments_gone_the_others_stay", c.get(tls, side + "_frame_buffer")[ptype] is FL and c.prove(band(eq(FL.rest, N), eq(FL.kept, N - took(N)))))
    # the reassembled bytes are parsed for THIS direction, after the whole scan (a run before its end would see a shorter buffer); it must
    # happen whenever the buffer can hold a handshake message header (handle_buffer does nothing on <= 4 bytes, so skipping it then is harmless)
    c.ensure("handle_buffer_only_for_this_direction_after_the_scan", all(c.same_object(x[0], isserver) and c.prove(eq(x[1], N)) for x in calls))
    if c.truth_fork(len_(got) > 4):
        c.ensure("handle_buffer_runs_when_a_message_header_fits", len(calls) >= 1)
    if chain:
        c.ensure("gap_free_run.everything_delivered", c.prove(band(eq(took(N), N), eq(cur(N), off(N - 1) + ln(N - 1)))))
    # frame: other packet-number spaces of this direction and everything of the other direction
    untouched = True
    for a, d0 in before.items():
        d1 = c.get(tls, a)
        for k, v in d0.items():
            if a.startswith(side) and k is ptype:
                continue
            untouched = untouched and (k in d1) and (d1[k] is v or (isinstance(v, (bytes, int, list)) and d1[k] == v))
        untouched = untouched and len(d1) == len(d0)
    c.ensure("frame.other_spaces_and_the_other_direction_untouched", untouched, kind="frame")
    c.cover("returned")


h_update.must_cover = ["returned", "iteration"]
