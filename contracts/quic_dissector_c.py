"""C02 (link 'header'): tlexport.quic.quic_dissector.extract_quic_packet on datagrams laid out as RFC 9000 17.2 / 17.3 prescribes.

For a datagram  = one QUIC packet (any connection-ID lengths 0..20, any token, every varint width, packet-number length 1..4, any
payload) ++ arbitrary following bytes (coalesced packets), the dissector returns exactly one packet object whose fields are the
encoded ones - type, version, DCID/SCID and their length bytes, token and its length bytes, Length bytes, the UNPROTECTED first byte
and packet number, the payload delimited by the Length field - leaves exactly the following bytes in the capture packet, and asks
header-protection removal for exactly what RFC 9001 5.4 says: the 16-byte sample 4 bytes after the start of the packet number,
the hp key of the packet's level and direction, AES for Initial packets whatever suite is negotiated.
remove_header_protection itself is under contract in C16 (pkn.header_protection); here it is replaced by that contract."""
from pyvc.api import harness, eq, band, bor, bnot, len_, cat, const, be
from contracts.quic_varint import enc_varint

QDI = "tlexport.quic.quic_dissector"
QP = "tlexport.quic.quic_packet"
PT = QP + ".QuicPacketType"
HT = QP + ".QuicHeaderType"
KINDS = {"INITIAL": 0, "RTT_O": 1, "HANDSHAKE": 2}
HPKEY = {"INITIAL": "%s_initial_hp", "HANDSHAKE": "%s_handshake_hp", "RTT_O": "client_early_hp", "RTT_1": "%s_application_hp"}


def _world(c, kind, isserver, suite):
    keys = {n: c.bytes(n, length=16) for n in ("client_initial_hp", "server_initial_hp", "client_handshake_hp", "server_handshake_hp", "client_early_hp",
                                               "client_application_hp", "server_application_hp")}
    want_key = HPKEY[kind] % ("server" if isserver else "client") if "%s" in HPKEY[kind] else HPKEY[kind]
    return keys, keys[want_key]


def _hp_summary(c, calls, u, pn_len, pn_plain):
    """contract of remove_header_protection (C16 pkn.header_protection): returns (unprotected first byte, unprotected packet-number
    bytes, their count); the count is the two low bits of the unprotected first byte + 1"""
    def s(ctx, header_type=None, sample=None, first_packet_byte=None, hp_key=None, datagram_data=None, pn_offset=None, ciphersuite=None):
        calls.append(dict(header_type=header_type, sample=sample, first_packet_byte=first_packet_byte, hp_key=hp_key, datagram_data=datagram_data,
                          pn_offset=pn_offset, ciphersuite=ciphersuite))
        return (c.bytes_of([u]), pn_plain, pn_len)
    return s


@harness("C02", "quic.dissector.long", functions=[QDI + ".extract_quic_packet", QDI + ".get_header_type", QDI + ".get_packet_type"],
         cases=[(k, s, pl, wl, wt) for k in ("INITIAL", "HANDSHAKE", "RTT_O") for s in (True, False) for pl in (1, 2, 3, 4) for wl in (1, 2, 4, 8)
                for wt in ((1, 2, 4, 8) if k == "INITIAL" else (0,))], timeout=20000)
def h_long(c, kind, isserver, pn_len, w_len, w_tok):
    if c.native:
        return
    suite = c.choice("suite", [None, b"\x13\x01", b"\x13\x03"])
    keys, want_key = _world(c, kind, isserver, suite)
    b0 = c.int("first_byte", 128, 255)
    c.assume((b0 // 16) % 4 == KINDS[kind])
    u = c.int("unprotected_first_byte", 128, 255)
    c.assume(band(u // 16 == b0 // 16, u % 4 == pn_len - 1))            # header protection touches the low 4 bits only (C16)
    version = c.bytes("version", length=4)
    c.assume(be(version) != 0)
    dcid, scid = c.bytes("dcid", max_len=20), c.bytes("scid", max_len=20)
    payload, rest = c.bytes("payload"), c.bytes("following_bytes")
    pn_prot, pn_plain = c.bytes("protected_pn", length=pn_len), c.bytes("unprotected_pn", length=pn_len)
    L = pn_len + len_(payload)
    c.assume(L >= 20)                                                     # RFC 9001 5.4.2: the sample lies inside the packet
    c.assume(L < 2 ** (8 * w_len - 2))
    len_enc = enc_varint(c, "length", L, w_len)
    head = cat(c.bytes_of([b0]), version, c.bytes_of([len_(dcid)]), dcid, c.bytes_of([len_(scid)]), scid)
    if kind == "INITIAL":
        token = c.bytes("token")
        c.assume(len_(token) < 2 ** (8 * w_tok - 2))
        tok_enc = enc_varint(c, "token_length", len_(token), w_tok)
        head = cat(head, tok_enc, token)
    pn_offset = len_(head) + w_len
    datagram = cat(head, len_enc, pn_prot, payload, rest)
    calls = []
    c.summary_override(QDI + ".remove_header_protection", _hp_summary(c, calls, u, pn_len, pn_plain))
    ts = c.int("timestamp", 0, 2 ** 40)
    pkt = c.obj("tlexport.packet.Packet", tls_data=datagram, timestamp=ts)
    out = c.call(QDI + ".extract_quic_packet", in_packet=pkt, isserver=isserver, guessed_dcid=c.bytes("guessed_dcid", max_len=20), keys=keys,
                 ciphersuite=(const(suite) if suite else None))
    c.ensure("no_raise", out.exc is None, kind="raises")
    if out.exc is not None:
        return
    pkts, same = out.value
    c.ensure("one_packet", len(pkts) == 1 and same is pkt)
    if len(pkts) != 1:
        return
    q = pkts[0]
    g = lambda n: c.get(q, n)
    c.ensure("following_bytes_left_for_the_next_packet", eq(c.get(pkt, "tls_data"), rest))
    c.ensure("field.packet_type", g("packet_type") is c.enum(PT, kind))
    c.ensure("field.version", eq(g("version"), version))
    c.ensure("field.dcid", band(eq(g("dcid"), dcid), eq(g("dcid_len"), c.bytes_of([len_(dcid)]))))
    c.ensure("field.scid", band(eq(g("scid"), scid), eq(g("scid_len"), c.bytes_of([len_(scid)]))))
    if kind == "INITIAL":
        c.ensure("field.token", band(eq(g("token"), token), eq(g("token_len_bytes"), tok_enc), g("token_len") == len_(token)))
    c.ensure("field.length_bytes", eq(g("packet_len_bytes"), len_enc))
    c.ensure("field.length_value", band(len_(g("packet_len")) == w_len, be(g("packet_len")) == L))
    c.ensure("field.unprotected_first_byte_and_packet_number", band(eq(g("first_byte"), c.bytes_of([u])), g("packet_num") is pn_plain))
    c.ensure("field.payload_is_delimited_by_the_length_field", eq(g("payload"), payload))
    c.ensure("field.direction_and_time", c.same_object(g("isserver"), isserver) and c.same_object(g("ts"), ts))
    c.ensure("header_protection.called_once", len(calls) == 1)
    if len(calls) == 1:
        k = calls[0]
        c.ensure("header_protection.sample_is_16_bytes_4_after_the_packet_number_offset", eq(k["sample"], datagram[pn_offset + 4:pn_offset + 20]))
        c.ensure("header_protection.key_of_the_packets_level_and_direction", k["hp_key"] is want_key)
        c.ensure("header_protection.arguments", k["header_type"] is c.enum(HT, "LONG") and c.prove(eq(k["first_packet_byte"], b0)) and k["datagram_data"] is datagram
                 and c.prove(eq(k["pn_offset"], pn_offset)))
        c.ensure("header_protection.initial_packets_always_aes", (k["ciphersuite"] is None) if kind == "INITIAL" else
                 (k["ciphersuite"] is None if suite is None else c.prove(eq(k["ciphersuite"], const(suite)))))
    c.cover("returned")


h_long.must_cover = ["returned"]


@harness("C02", "quic.dissector.short", functions=[QDI + ".extract_quic_packet", QDI + ".get_header_type"],
         cases=[(s, pl) for s in (True, False) for pl in (1, 2, 3, 4)], timeout=20000)
def h_short(c, isserver, pn_len):
    """RFC 9000 17.3.1: a 1-RTT packet has no length field - it extends to the end of the datagram; its connection ID is the one
    the session matched; the key phase is bit 0x04 of the UNPROTECTED first byte"""
    if c.native:
        return
    suite = c.choice("suite", [None, b"\x13\x01", b"\x13\x03"])
    keys, want_key = _world(c, "RTT_1", isserver, suite)
    b0 = c.int("first_byte", 64, 127)                                     # RFC 9000 17.3.1: the fixed bit is set (an all-zero remainder of a datagram is padding)
    u = c.int("unprotected_first_byte", 64, 127)
    c.assume(band(u // 32 == b0 // 32, u % 4 == pn_len - 1))            # header protection touches the low 5 bits only (C16)
    dcid = c.bytes("dcid", max_len=20)
    payload = c.bytes("payload")
    pn_prot, pn_plain = c.bytes("protected_pn", length=pn_len), c.bytes("unprotected_pn", length=pn_len)
    c.assume(pn_len + len_(payload) >= 20)
    datagram = cat(c.bytes_of([b0]), dcid, pn_prot, payload)
    calls = []
    c.summary_override(QDI + ".remove_header_protection", _hp_summary(c, calls, u, pn_len, pn_plain))
    ts = c.int("timestamp", 0, 2 ** 40)
    pkt = c.obj("tlexport.packet.Packet", tls_data=datagram, timestamp=ts)
    out = c.call(QDI + ".extract_quic_packet", in_packet=pkt, isserver=isserver, guessed_dcid=dcid, keys=keys, ciphersuite=(const(suite) if suite else None))
    c.ensure("no_raise", out.exc is None, kind="raises")
    if out.exc is not None:
        return
    pkts, same = out.value
    c.ensure("one_packet", len(pkts) == 1 and same is pkt)
    if len(pkts) != 1:
        return
    q = pkts[0]
    g = lambda n: c.get(q, n)
    c.ensure("datagram_consumed", len_(c.get(pkt, "tls_data")) == 0)
    c.ensure("field.packet_type", g("packet_type") is c.enum(PT, "RTT_1"))
    c.ensure("field.dcid_is_the_matched_connection_id", g("dcid") is dcid)
    c.ensure("field.unprotected_first_byte_and_packet_number", band(eq(g("first_byte"), c.bytes_of([u])), g("packet_num") is pn_plain))
    c.ensure("field.key_phase", g("key_phase") == (u // 4) % 2)
    c.ensure("field.payload_extends_to_the_end_of_the_datagram", eq(g("payload"), payload))
    c.ensure("field.direction_and_time", c.same_object(g("isserver"), isserver) and c.same_object(g("ts"), ts))
    c.ensure("header_protection.called_once", len(calls) == 1)
    if len(calls) == 1:
        k = calls[0]
        po = 1 + len_(dcid)
        c.ensure("header_protection.sample_is_16_bytes_4_after_the_packet_number_offset", eq(k["sample"], datagram[po + 4:po + 20]))
        c.ensure("header_protection.key_of_the_packets_level_and_direction", k["hp_key"] is want_key)
        c.ensure("header_protection.arguments", k["header_type"] is c.enum(HT, "SHORT") and c.prove(eq(k["first_packet_byte"], b0)) and k["datagram_data"] is datagram
                 and c.prove(eq(k["pn_offset"], po)))
        c.ensure("header_protection.suite", k["ciphersuite"] is None if suite is None else c.prove(eq(k["ciphersuite"], const(suite))))
    c.cover("returned")


h_short.must_cover = ["returned"]


@harness("C02", "quic.dissector.retry_and_version_negotiation", functions=[QDI + ".extract_quic_packet"], cases=[("RETRY",), ("VERSION_NEG",)], timeout=20000)
def h_unprotected(c, kind):
    """Retry and Version Negotiation packets carry no protected header: they are recognised (Retry by its type bits, Version
    Negotiation by version 0), take the whole rest of the datagram, and need no key"""
    if c.native:
        return
    isserver = c.bool("isserver")
    b0 = c.int("first_byte", 128, 255)
    dcid, scid = c.bytes("dcid", max_len=20), c.bytes("scid", max_len=20)
    if kind == "RETRY":
        c.assume((b0 // 16) % 4 == 3)
        version = c.bytes("version", length=4)
        c.assume(be(version) != 0)
        token, tag = c.bytes("retry_token"), c.bytes("retry_integrity_tag", length=16)
        body = cat(token, tag)
    else:
        version = const(b"\x00\x00\x00\x00")
        body = c.bytes("supported_versions", min_len=4)
    datagram = cat(c.bytes_of([b0]), version, c.bytes_of([len_(dcid)]), dcid, c.bytes_of([len_(scid)]), scid, body)
    ts = c.int("timestamp", 0, 2 ** 40)
    pkt = c.obj("tlexport.packet.Packet", tls_data=datagram, timestamp=ts)
    out = c.call(QDI + ".extract_quic_packet", in_packet=pkt, isserver=isserver, guessed_dcid=c.bytes("guessed_dcid", max_len=20), keys={}, ciphersuite=None)
    c.ensure("no_raise", out.exc is None, kind="raises")
    if out.exc is not None:
        return
    pkts, same = out.value
    c.ensure("one_packet", len(pkts) == 1 and same is pkt)
    if len(pkts) != 1:
        return
    q = pkts[0]
    g = lambda n: c.get(q, n)
    c.ensure("field.packet_type", g("packet_type") is c.enum(PT, kind))
    c.ensure("field.connection_ids", band(eq(g("dcid"), dcid), eq(g("scid"), scid)))
    c.ensure("field.direction_and_time", c.same_object(g("isserver"), isserver) and c.same_object(g("ts"), ts))
    if kind == "RETRY":
        c.ensure("retry.token_and_tag", band(eq(g("retry_token"), token), eq(g("retry_integ_tag"), tag)))
        c.ensure("retry.datagram_consumed", len_(c.get(pkt, "tls_data")) == 0)
    c.cover("returned")


h_unprotected.must_cover = ["returned"]
