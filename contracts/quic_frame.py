"""C17 (part 2): the QUIC frame constructors of tlexport/quic/quic_frame.py against RFC 9000 section 19
and RFC 9221 section 4.

For every frame class K and every type byte t of K two contracts are proved on the real __init__:
  wf : payload = t ++ enc(fields, widths) ++ rest   (every varint width in {1,2,4,8}, non-minimal
       encodings included; `rest` arbitrary)  ==>  no exception, every parsed attribute equals the
       encoded field, length == len(encoding), byte attributes are exactly the encoded bytes.
  any: payload arbitrary with payload[0] == t  ==>  IndexError, or length >= 1 and every byte
       attribute is a window of payload (never invents bytes).
The layouts below are written from the RFC text, not from the code.
"""
from pyvc.api import harness, summary, len_, cat, const, is_slice_of, eq, band
from contracts.quic_varint import enc_varint, QD

QF = "tlexport.quic.quic_frame"

V, U8, BYTES, REST = "varint", "u8", "bytes", "rest"

# RFC 9000 19.x: (class, type bytes, fields).  ("bytes", attr, n): n is an int or the attr holding the length.
LAYOUT = {
    "ResetStreamFrame": ([0x04], [(V, "stream_id"), (V, "application_protocol_error_code"), (V, "final_size")]),
    "StopSendingFrame": ([0x05], [(V, "stream_id"), (V, "application_protocol_error_code")]),
    "CryptoFrame": ([0x06], [(V, "offset"), (V, "crypto_length"), (BYTES, "crypto", "crypto_length")]),
    "NewTokenFrame": ([0x07], [(V, "token_length"), (BYTES, "token", "token_length")]),
    "MaxDataFrame": ([0x10], [(V, "maximum_data")]),
    "MaxStreamDataFrame": ([0x11], [(V, "stream_id"), (V, "maximum_stream_data")]),
    "MaxStreamsFrame": ([0x12, 0x13], [(V, "maximum_streams")]),
    "DataBlockedFrame": ([0x14], [(V, "maximum_data")]),
    "StreamDataBlockedFrame": ([0x15], [(V, "stream_id"), (V, "maximum_stream_data")]),
    "StreamsBlockedFrame": ([0x16, 0x17], [(V, "maximum_streams")]),
    "NewConnectionIdFrame": ([0x18], [(V, "sequence_number"), (V, "retire_prior_to"), (U8, "connection_id_length"),
                                      (BYTES, "connection_id", "connection_id_length"),
                                      (BYTES, "stateless_reset_token", 16)]),
    "RetireConnectionIdFrame": ([0x19], [(V, "sequence_number")]),
    "PathChallengeFrame": ([0x1a], [(BYTES, "data", 8)]),
    "PathResponseFrame": ([0x1b], [(BYTES, "data", 8)]),
    "PingFrame": ([0x01], []),
    "HandshakeDoneFrame": ([0x1e], []),
}


def layout_for(cls, t):
    if cls == "StreamFrame":  # RFC 9000 19.8: 0b00001 OFF LEN FIN
        f = [(V, "stream_id")]
        if t & 0x04:
            f.append((V, "offset"))
        if t & 0x02:
            f += [(V, "data_length"), (BYTES, "stream_data", "data_length")]
        else:
            f.append((REST, "stream_data"))
        return f
    if cls == "ConnectionCloseFrame":  # 19.19
        f = [(V, "error_code")]
        if t == 0x1c:
            f.append((V, "close_frame_type"))
        return f + [(V, "reason_phrase_length"), (BYTES, "reason_phrase", "reason_phrase_length")]
    if cls == "DatagramFrame":  # RFC 9221 4
        if t == 0x31:
            return [(V, None), (BYTES, "payload", 0)]  # length field is not stored by the code: checked via len(payload)
        return [(REST, "payload")]
    return LAYOUT[cls][1]


CASES = []
for _cls, (_types, _f) in LAYOUT.items():
    for _t in _types:
        CASES.append((_cls, _t))
for _t in range(0x08, 0x10):
    CASES.append(("StreamFrame", _t))
CASES += [("ConnectionCloseFrame", 0x1c), ("ConnectionCloseFrame", 0x1d), ("DatagramFrame", 0x30), ("DatagramFrame", 0x31)]

CTOR_FUNCS = sorted({QF + "." + c + ".__init__" for c, _ in CASES} | {QF + ".Frame.__init__"})


def build_wf(c, cls, t):
    """payload = type byte ++ encoded fields ++ rest; returns (payload, fields, enc_len, rest)"""
    fields = {}
    parts = [const(bytes([t]))]
    enc_len = 1
    to_end = False
    for i, f in enumerate(layout_for(cls, t)):
        kind, attr = f[0], f[1]
        if kind == V:
            w = c.choice("w%d" % i, [1, 2, 4, 8])
            v = c.int("f%d" % i, 0, 2 ** (8 * w - 2) - 1)
            parts.append(enc_varint(c, "e%d" % i, v, w))
            enc_len = enc_len + w
            fields[attr if attr else "_len%d" % i] = v
        elif kind == U8:
            v = c.int("f%d" % i, 0, 255)
            parts.append(c.bytes_of([v]))
            enc_len = enc_len + 1
            fields[attr] = v
        elif kind == BYTES:
            n = f[2]
            if cls == "DatagramFrame":
                n = fields["_len0"]
            elif isinstance(n, str):
                n = fields[n]
            b = c.bytes("f%d" % i, length=n)
            parts.append(b)
            enc_len = enc_len + n
            fields[attr] = b
        elif kind == REST:
            b = c.bytes("f%d" % i)
            parts.append(b)
            enc_len = enc_len + len_(b)
            fields[attr] = b
            to_end = True
    rest = const(b"") if to_end else c.bytes("rest")
    return cat(*(parts + [rest])), fields, enc_len, rest


@harness("C17", "frame.wf", functions=CTOR_FUNCS, cases=CASES)
def h_wf(c, cls, t):
    payload, fields, enc_len, rest = build_wf(c, cls, t)
    src = c.opaque("src_packet")
    out = c.new(QF + "." + cls, payload, src)
    c.ensure("no_raise", out.exc is None, kind="raises")
    if out.exc is not None:
        return
    fr = out.value
    c.ensure("length", c.get(fr, "length") == enc_len)
    c.ensure("frame_type", c.get(fr, "frame_type") == t)
    c.ensure("src_packet", c.get(fr, "src_packet") is src)
    for attr, v in fields.items():
        if attr.startswith("_len"):
            continue
        c.ensure("field." + attr, eq(c.get(fr, attr), v))
    if cls == "StreamFrame":  # 19.8: FIN bit; 2.1: stream id bits; offset absent means 0; LEN absent: to the end
        sid = fields["stream_id"]
        c.ensure("stream.fin", eq(c.get(fr, "fin"), (t & 1) == 1))
        c.ensure("stream.server_initiated", eq(c.get(fr, "server_initiated"), sid % 2 == 1))
        c.ensure("stream.unidirectional", eq(c.get(fr, "stream_unidirectional"), (sid // 2) % 2 == 1))
        if not t & 0x04:
            c.ensure("stream.offset0", c.get(fr, "offset") == 0)
        c.ensure("stream.data_length", c.get(fr, "data_length") == len_(fields["stream_data"]))
    c.cover("reached")


# attributes that hold bytes taken from the packet
DATA_ATTRS = {"CryptoFrame": ["crypto"], "NewTokenFrame": ["token"], "StreamFrame": ["stream_data"],
              "NewConnectionIdFrame": ["connection_id", "stateless_reset_token"], "PathChallengeFrame": ["data"],
              "PathResponseFrame": ["data"], "ConnectionCloseFrame": ["reason_phrase"], "DatagramFrame": ["payload"],
              "GenericFrame": ["data"]}

ANY_CASES = CASES + [("GenericFrame", None), ("AckFrame", 0x02), ("AckFrame", 0x03), ("PaddingFrame", 0x00)]


def any_contract(c, out, cls, payload):
    """the contract every constructor offers on arbitrary bytes (also its call-site summary)"""
    if out.exc is not None:
        c.ensure("any.exc_class", out.exc == "IndexError", kind="raises")
        return
    fr = out.value
    c.ensure("any.length_ge_1", c.get(fr, "length") >= 1)
    for a in DATA_ATTRS.get(cls, []):
        c.ensure("any.window." + a, is_slice_of(c.get(fr, a), payload))
    c.cover("any.returned")


@harness("C17", "frame.any", functions=CTOR_FUNCS + [QF + ".GenericFrame.__init__", QF + ".AckFrame.__init__",
                                                    QF + ".PaddingFrame.__init__"], cases=ANY_CASES)
def h_any(c, cls, t):
    payload = c.bytes("payload", min_len=1)
    if t is not None:
        c.assume(payload[0] == t)
    else:
        c.assume(payload[0] > 0x1e)  # unknown type: anything outside the RFC 9000 table
        c.assume((payload[0] != 0x30) & (payload[0] != 0x31))
    if cls == "AckFrame":
        c.loop(QF + ".AckFrame.__init__", "for i in range(0, self.range_count)",
               invariant=lambda e: (e.self.attrs["length"] >= 1) & (e.index == e.self.attrs["length"]))
    if cls == "PaddingFrame":
        c.loop(QF + ".PaddingFrame.__init__", "for i, byte in enumerate(payload)", invariant=lambda e: True)
    out = c.new(QF + "." + cls, payload, c.opaque("src_packet"))
    any_contract(c, out, cls, payload)
