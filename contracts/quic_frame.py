"""C17 (part 2): the QUIC frame constructors of tlexport/quic/quic_frame.py against RFC 9000 section 19
and RFC 9221 section 4.

For every frame class K and every type byte t of K two contracts are proved on the real __init__:
  wf : payload = t ++ enc(fields, widths) ++ rest   (every varint width in {1,2,4,8}, non-minimal
       encodings included; `rest` arbitrary)  ==>  no exception, every parsed attribute equals the
       encoded field, length == len(encoding), byte attributes are exactly the encoded bytes.
  any: payload arbitrary with payload[0] == t  ==>  IndexError, or length >= 1 and every byte
       attribute is a window of payload (never invents bytes).
The layouts below are written from the RFC text, not from the code.
"""
from pyvc.api import harness, summary, len_, cat, const, is_slice_of, eq, band
from contracts.quic_varint import enc_varint, QD

QF = "tlexport.quic.quic_frame"

V, U8, BYTES, REST = "varint", "u8", "bytes", "rest"

# RFC 9000 19.x: (class, type bytes, fields).  ("bytes", attr, n): n is an int or the attr holding the length.
LAYOUT = {
    "ResetStreamFrame": ([0x04], [(V, "stream_id"), (V, "application_protocol_error_code"), (V, "final_size")]),
    "StopSendingFrame": ([0x05], [(V, "stream_id"), (V, "application_protocol_error_code")]),
    "CryptoFrame": ([0x06], [(V, "offset"), (V, "crypto_length"), (BYTES, "crypto", "crypto_length")]),
    "NewTokenFrame": ([0x07], [(V, "token_length"), (BYTES, "token", "token_length")]),
    "MaxDataFrame": ([0x10], [(V, "maximum_data")]),
    "MaxStreamDataFrame": ([0x11], [(V, "stream_id"), (V, "maximum_stream_data")]),
    "MaxStreamsFrame": ([0x12, 0x13], [(V, "maximum_streams")]),
    "DataBlockedFrame": ([0x14], [(V, "maximum_data")]),
    "StreamDataBlockedFrame": ([0x15], [(V, "stream_id"), (V, "maximum_stream_data")]),
    "StreamsBlockedFrame": ([0x16, 0x17], [(V, "maximum_streams")]),
    "NewConnectionIdFrame": ([0x18], [(V, "sequence_number"), (V, "retire_prior_to"), (U8, "connection_id_length"),
                                      (BYTES, "connection_id", "connection_id_length"),
                                      (BYTES, "stateless_reset_token", 16)]),
    "RetireConnectionIdFrame": ([0x19], [(V, "sequence_number")]),
    "PathChallengeFrame": ([0x1a], [(BYTES, "data", 8)]),
    "PathResponseFrame": ([0x1b], [(BYTES, "data", 8)]),
    "PingFrame": ([0x01], []),
    "HandshakeDoneFrame": ([0x1e], []),
}


def layout_for(cls, t):
    if cls == "StreamFrame":  # RFC 9000 19.8: 0b00001 OFF LEN FIN
        f = [(V, "stream_id")]
        if t & 0x04:
            f.append((V, "offset"))
        if t & 0x02:
            f += [(V, "data_length"), (BYTES, "stream_data", "data_length")]
        else:
            f.append((REST, "stream_data"))
        return f
    if cls == "ConnectionCloseFrame":  # 19.19
        f = [(V, "error_code")]
        if t == 0x1c:
            f.append((V, "close_frame_type"))
        return f + [(V, "reason_phrase_length"), (BYTES, "reason_phrase", "reason_phrase_length")]
    if cls == "DatagramFrame":  # RFC 9221 4
        if t == 0x31:
            return [(V, None), (BYTES, "payload", 0)]  # length field is not stored by the code: checked via len(payload)
        return [(REST, "payload")]
    return LAYOUT[cls][1]


CASES = []
for _cls, (_types, _f) in LAYOUT.items():
    for _t in _types:
        CASES.append((_cls, _t))
for _t in range(0x08, 0x10):
    CASES.append(("StreamFrame", _t))
CASES += [("ConnectionCloseFrame", 0x1c), ("ConnectionCloseFrame", 0x1d), ("DatagramFrame", 0x30), ("DatagramFrame", 0x31)]

CTOR_FUNCS = sorted({QF + "." + c + ".__init__" for c, _ in CASES} | {QF + ".Frame.__init__"})


def build_wf(c, cls, t):
    """payload = type byte ++ encoded fields ++ rest; returns (payload, fields, enc_len, rest)"""
    fields = {}
    parts = [const(bytes([t]))]
    enc_len = 1
    to_end = False
    for i, f in enumerate(layout_for(cls, t)):
        kind, attr = f[0], f[1]
        if kind == V:
            w = c.choice("w%d" % i, [1, 2, 4, 8])
            v = c.int("f%d" % i, 0, 2 ** (8 * w - 2) - 1)
            parts.append(enc_varint(c, "e%d" % i, v, w))
            enc_len = enc_len + w
            fields[attr if attr else "_len%d" % i] = v
        elif kind == U8:
            v = c.int("f%d" % i, 0, 255)
            parts.append(c.bytes_of([v]))
            enc_len = enc_len + 1
            fields[attr] = v
        elif kind == BYTES:
            n = f[2]
            if cls == "DatagramFrame":
                n = fields["_len0"]
            elif isinstance(n, str):
                n = fields[n]
            b = c.bytes("f%d" % i, length=n)
            parts.append(b)
            enc_len = enc_len + n
            fields[attr] = b
        elif kind == REST:
            b = c.bytes("f%d" % i)
            parts.append(b)
            enc_len = enc_len + len_(b)
            fields[attr] = b
            to_end = True
    rest = const(b"") if to_end else c.bytes("rest")
    return cat(*(parts + [rest])), fields, enc_len, rest


@harness(["C17", "C02"], "frame.wf", functions=CTOR_FUNCS, cases=CASES)
def h_wf(c, cls, t):
    payload, fields, enc_len, rest = build_wf(c, cls, t)
    src = c.opaque("src_packet")
    out = c.new(QF + "." + cls, payload, src)
    c.ensure("no_raise", out.exc is None, kind="raises")
    if out.exc is not None:
        return
    fr = out.value
    c.ensure("length", c.get(fr, "length") == enc_len)
    c.ensure("frame_type", c.get(fr, "frame_type") == t)
    c.ensure("src_packet", c.get(fr, "src_packet") is src)
    for attr, v in fields.items():
        if attr.startswith("_len"):
            continue
        c.ensure("field." + attr, eq(c.get(fr, attr), v))
    if cls == "StreamFrame":  # 19.8: FIN bit; 2.1: stream id bits; offset absent means 0; LEN absent: to the end
        sid = fields["stream_id"]
        c.ensure("stream.fin", eq(c.get(fr, "fin"), (t & 1) == 1))
        c.ensure("stream.server_initiated", eq(c.get(fr, "server_initiated"), sid % 2 == 1))
        c.ensure("stream.unidirectional", eq(c.get(fr, "stream_unidirectional"), (sid // 2) % 2 == 1))
        if not t & 0x04:
            c.ensure("stream.offset0", c.get(fr, "offset") == 0)
        c.ensure("stream.data_length", c.get(fr, "data_length") == len_(fields["stream_data"]))
    c.cover("reached")


# attributes that hold bytes taken from the packet
DATA_ATTRS = {"CryptoFrame": ["crypto"], "NewTokenFrame": ["token"], "StreamFrame": ["stream_data"],
              "NewConnectionIdFrame": ["connection_id", "stateless_reset_token"], "PathChallengeFrame": ["data"],
              "PathResponseFrame": ["data"], "ConnectionCloseFrame": ["reason_phrase"], "DatagramFrame": ["payload"],
              "GenericFrame": ["data"]}

ANY_CASES = CASES + [("GenericFrame", None), ("AckFrame", 0x02), ("AckFrame", 0x03), ("PaddingFrame", 0x00)]


def any_contract(c, out, cls, payload):
    """the contract every constructor offers on arbitrary bytes (also its call-site summary)"""
    if out.exc is not None:
        c.ensure("any.exc_class", out.exc == "IndexError", kind="raises")
        return
    fr = out.value
    c.ensure("any.length_ge_1", c.get(fr, "length") >= 1)
    for a in DATA_ATTRS.get(cls, []):
        c.ensure("any.window." + a, is_slice_of(c.get(fr, a), payload))
    c.cover("any.returned")


@harness("C17", "frame.any", functions=CTOR_FUNCS + [QF + ".GenericFrame.__init__", QF + ".AckFrame.__init__",
                                                    QF + ".PaddingFrame.__init__"], cases=ANY_CASES)
def h_any(c, cls, t):
    payload = c.bytes("payload", min_len=1)
    if t is not None:
        c.assume(payload[0] == t)
    else:
        c.assume(payload[0] > 0x1e)  # unknown type: anything outside the RFC 9000 table
        c.assume((payload[0] != 0x30) & (payload[0] != 0x31))
    if cls == "AckFrame":
        c.loop(QF + ".AckFrame.__init__", "for i in range(0, self.range_count)",
               invariant=lambda e: (e.self.attrs["length"] >= 1) & (e.index == e.self.attrs["length"]))
    if cls == "PaddingFrame":
        c.loop(QF + ".PaddingFrame.__init__", "for i, byte in enumerate(payload)", invariant=lambda e: True)
    out = c.new(QF + "." + cls, payload, c.opaque("src_packet"))
    any_contract(c, out, cls, payload)


# ------------------------------------------------------------------------------------------------
# ACK (RFC 9000 19.3): the only constructor with a loop of symbolic trip count -> loop contract

def _native_pairs_end(R, count):
    """native replay: offsets of `count` varint pairs in R, or None"""
    pos = 0
    for _ in range(2 * count):
        if pos >= len(R):
            return None
        pos += 1 << (R[pos] >> 6)
    return pos if pos <= len(R) else None


ACK_CASES = [(0x02, None, None)] + [(0x03, a, b) for a in (1, 2, 4, 8) for b in (1, 2, 4, 8)]


def enc_varint_any_width(c, name):
    """a varint whose WIDTH is symbolic too: any region E with len(E) == RFC length of E[0]; its field
    value is the RFC value of E (varint.roundtrip proves this is the same relation as enc_varint).
    Returns (bytes, value, width) without splitting the path."""
    from contracts.quic_varint import varint_len_merged, varint_value_merged
    E = c.bytes(name, min_len=1, max_len=8)
    w = len_(E)
    c.assume(w == varint_len_merged(c, E[0]))
    return E, varint_value_merged(c, E, w), w


@harness("C17", "frame.wf.ack", functions=[QF + ".AckFrame.__init__"], cases=[(0x02, "sym", None), (0x03, "sym", None)])
def h_wf_ack_q(c, t, fw0, fw1):
    return h_wf_ack(c, t, fw0, fw1)


@harness("C17", "frame.wf.ack.enum", functions=[QF + ".AckFrame.__init__"], cases=ACK_CASES, tier="thorough")
def h_wf_ack(c, t, fw0, fw1):
    """payload = t ++ largest ++ delay ++ count ++ first ++ R ++ [ect0 ect1 ce] ++ rest, where the region R
    is `count` pairs of varints (ghost: pos(i) = offset of pair i in R; pos(0)=0, pos(count)=len(R))."""
    ws, vals, parts = [], [], [const(bytes([t]))]
    sym = fw0 == "sym"
    for i in range(4):
        if sym:
            e, v, w = enc_varint_any_width(c, "e%d" % i)
            parts.append(e)
        else:
            fixed = (fw0, fw1, None, None)[i]
            w = fixed if fixed is not None else c.choice("w%d" % i, [1, 2, 4, 8])
            v = c.int("f%d" % i, 0, 2 ** (8 * w - 2) - 1)
            parts.append(enc_varint(c, "e%d" % i, v, w))
        ws.append(w)
        vals.append(v)
    count = vals[2]
    H = 1 + sum(ws)
    R = c.bytes("R")
    Rlen = len_(R)
    ecn_vals, ecn_len, ecn_parts = [], 0, []
    if t == 0x03:
        for i in range(4, 7):
            if sym:
                e, v, w = enc_varint_any_width(c, "e%d" % i)
                ecn_parts.append(e)
            else:
                w = c.choice("w%d" % i, [1, 2, 4, 8])
                v = c.int("f%d" % i, 0, 2 ** (8 * w - 2) - 1)
                ecn_parts.append(enc_varint(c, "e%d" % i, v, w))
            ecn_len += w
            ecn_vals.append(v)
    rest = c.bytes("rest")
    payload = cat(*(parts + [R] + ecn_parts + [rest]))
    if c.native:
        c.assume(_native_pairs_end(R, count) == len(R))
    else:
        from contracts.quic_varint import varint_len_merged
        pos = c.uf("ackpos")
        c.assume(pos(0) == 0)
        c.assume(pos(count) == Rlen)

        def unfold(phase, e):
            # the well-formedness of R instantiated at the loop's current pair (ghost unfolding)
            if phase != "havoc":
                return
            i = e.it
            a = pos(i)
            w1 = varint_len_merged(c, R[a])
            w2 = varint_len_merged(c, R[a + w1])
            c.assume((i >= count) | ((a >= 0) & (a + w1 < Rlen) & (pos(i + 1) == a + w1 + w2) & (pos(i + 1) <= Rlen)))

        c.loop(QF + ".AckFrame.__init__", "for i in range(0, self.range_count)",
               invariant=lambda e: (e.index == H + pos(e.it)) & (e.self.attrs["length"] == e.index)
               & (pos(e.it) >= 0) & (pos(e.it) <= Rlen),
               ghost_step=unfold)
    src = c.opaque("src_packet")
    out = c.new(QF + ".AckFrame", payload, src)
    c.ensure("no_raise", out.exc is None, kind="raises")
    if out.exc is not None:
        return
    fr = out.value
    c.ensure("length", c.get(fr, "length") == H + Rlen + ecn_len)
    c.ensure("frame_type", c.get(fr, "frame_type") == t)
    for attr, v in zip(["largest_acknowledged", "ack_delay", "range_count", "first_ack_range"], vals):
        c.ensure("field." + attr, c.get(fr, attr) == v)
    for attr, v in zip(["ect_0_count", "ect_1_count", "ect_ce_count"], ecn_vals):
        c.ensure("field." + attr, c.get(fr, attr) == v)
    c.cover("reached")


@harness("C17", "frame.wf.padding", functions=[QF + ".PaddingFrame.__init__"])
def h_wf_padding(c):
    """a maximal run of k >= 1 PADDING bytes followed by nothing or by a non-zero byte is ONE frame of
    length k (RFC 9000 19.1 makes each 0x00 a frame; the parser merges the run - same bytes accounted)."""
    k = c.int("k", 1, None)
    rest = c.bytes("rest")
    if c.native:
        c.assume(len(rest) == 0 or rest[0] != 0)
    else:
        c.assume((len_(rest) == 0) | (rest[0] != 0))
    payload = cat(c.fill(0, k), rest)
    c.loop(QF + ".PaddingFrame.__init__", "for i, byte in enumerate(payload)", invariant=lambda e: e.it <= k)
    out = c.new(QF + ".PaddingFrame", payload, c.opaque("src_packet"))
    c.ensure("no_raise", out.exc is None, kind="raises")
    if out.exc is None:
        c.ensure("length", c.get(out.value, "length") == k)
        c.ensure("frame_type", c.get(out.value, "frame_type") == 0)


# ------------------------------------------------------------------------------------------------
# parse_frames: dispatch, termination on arbitrary bytes, exact split of a well-formed sequence

ALL_CLASSES = sorted({c for c, _ in ANY_CASES})
RFC_DISPATCH = {}          # RFC 9000 table 3 / RFC 9221: first byte -> frame class
for _c, _t in ANY_CASES:
    if _t is not None:
        RFC_DISPATCH[_t] = _c


def rfc_class_of(b0):
    return RFC_DISPATCH.get(b0, "GenericFrame")


def _suffix_of(p, orig):
    """p == orig[k:] for some k, decided structurally (windows of the same base) + one LIA fact"""
    from pyvc.api import MODE
    if MODE == "native":
        return bytes(orig).endswith(bytes(p))
    from pyvc.core import BSlice, BList, to_bytes_val
    p = to_bytes_val(p)
    if p is orig:
        return True
    if isinstance(p.length, int) and p.length == 0:
        return True
    if isinstance(p, BSlice) and p.base is orig:
        return (p.start + p.length == len_(orig)) & (p.start >= 0)
    return False


def _offset_in(p, orig):
    from pyvc.core import BSlice, to_bytes_val
    p = to_bytes_val(p)
    if p is orig:
        return 0
    if isinstance(p, BSlice) and p.base is orig:
        return p.start
    return None


def ctor_summary(cls_name):
    """call-site contract of a frame constructor = its `any` contract (proved by frame.any for every class
    and type byte) plus, when the caller's ghost says the bytes at this offset are a well-formed K frame of
    length L, its `wf` contract (proved by frame.wf*: no exception, length == L)."""
    def s(ctx, cls, payload, src_packet):
        g = getattr(ctx, "ghost", None) or {}
        L = ctx.fresh_int("frame_length", 1, None)
        wf = False
        if "dispatch" in g:
            g["dispatch"](cls_name, payload)
        if "wf_at" in g:
            o = _offset_in(payload, g["orig"])
            if o is not None:
                wf = g["wf_at"](o, cls_name)
                ctx.assume(implies_(wf, L == g["wf_len"](o)))
        if ctx.nondet("ctor_raises"):
            ctx.assume(bnot_(wf))
            ctx.raise_("IndexError")
        return ctx.make_obj(cls, length=L, src_packet=src_packet)
    return s


from pyvc.api import implies as implies_, bnot as bnot_  # noqa: E402

for _cls in ALL_CLASSES:
    summary(QF + "." + _cls + ".__init__")(ctor_summary(_cls))


def _parse_loop(c, orig, frames_havoc=None, extra_inv=None):
    def hv_payload(cur):
        k = c.fresh_int("consumed", 0, None)
        c.assume(k <= len_(orig))
        from pyvc.api import slice_
        return slice_(orig, k, None)

    def inv(e):
        r = _suffix_of(e.payload, orig)
        if extra_inv is not None:
            r = band(r, extra_inv(e))
        return r

    hv = {"payload": hv_payload}
    if frames_havoc is not None:
        hv["frames"] = frames_havoc
    c.loop(QF + ".parse_frames", "while len(payload) != 0", invariant=inv, decreases=lambda e: len_(e.payload), havoc=hv)


@harness(["C17", "C02"], "parse_frames.any", functions=[QF + ".parse_frames"])
def h_parse_any(c):
    """arbitrary bytes: the parser terminates (variant len(payload), strictly decreasing because every
    constructor contract gives length >= 1), the remaining input is always a suffix of the packet, the class
    chosen for every first byte is the RFC's, and the only exception is IndexError."""
    orig = c.bytes("payload")
    def dispatch(cls_name, payload):
        # at an arbitrary iteration: the class instantiated for first byte b is the RFC's class of b
        b0 = payload[0]
        types = [t for t, k in RFC_DISPATCH.items() if k == cls_name]
        if cls_name == "GenericFrame":
            c.ensure("dispatch.unknown_type_only", band(*[b0 != t for t in RFC_DISPATCH]))
        else:
            from pyvc.api import bor
            c.ensure("dispatch." + cls_name, bor(*[b0 == t for t in types]))
        c.cover("dispatch." + cls_name)

    if c.native:
        # replay: the loop obligations quantify over an arbitrary iteration, i.e. an arbitrary suffix of the
        # packet - so every suffix of the model's packet is tried as an input (follow-up search)
        src = c.opaque("src_packet")
        for k in range(2 * (min(len(orig), 400) + 1)):
            data = orig[k // 2:] + (bytes(64) if k % 2 else b"")   # also with room after a truncated frame
            out = c.call(QF + ".parse_frames", data, src)
            if out.exc is not None:
                c.ensure("exc_class", out.exc == "IndexError", kind="raises")
                continue
            off = 0
            for f in out.value:
                if off >= len(data):
                    c.ensure("loop[while len(payload) != 0].variant", False)
                    break
                want = rfc_class_of(data[off])
                c.ensure("dispatch." + ("unknown_type_only" if want == "GenericFrame" else type(f).__name__)
                         if type(f).__name__ != want else "dispatch.ok", type(f).__name__ == want)
                c.ensure("any.length_ge_1", f.length >= 1)
                off += f.length
        return
    c.ghost = {"orig": orig, "dispatch": dispatch}
    _parse_loop(c, orig)
    out = c.call(QF + ".parse_frames", orig, c.opaque("src_packet"))
    if out.exc is not None:
        c.ensure("exc_class", out.exc == "IndexError", kind="raises")
    c.cover("returned" if out.exc is None else "raised")


h_parse_any.must_cover = ["returned", "raised"] + ["dispatch." + k for k in ALL_CLASSES]




WF_CLASSES = [k for k in ALL_CLASSES if k != "GenericFrame"]
CLS_IDX = {k: i for i, k in enumerate(ALL_CLASSES)}


def rfc_split(b):
    """independent reference splitter (native replays only): RFC layouts -> [(class, length)] or None"""
    out, pos = [], 0
    b = bytes(b)

    def vint(p):
        if p >= len(b):
            raise IndexError
        w = 1 << (b[p] >> 6)
        if p + w > len(b):
            raise IndexError
        v = b[p] & 0x3f
        for x in b[p + 1:p + w]:
            v = v * 256 + x
        return v, w
    try:
        while pos < len(b):
            t = b[pos]
            cls = RFC_DISPATCH.get(t)
            if cls is None:
                return None
            p = pos + 1
            if cls == "PaddingFrame":
                while p < len(b) and b[p] == 0:
                    p += 1
            elif cls == "AckFrame":
                vals = []
                for _ in range(4):
                    v, w = vint(p)
                    p += w
                    vals.append(v)
                for _ in range(2 * vals[2] + (3 if t == 3 else 0)):
                    v, w = vint(p)
                    p += w
            else:
                vals = {}
                for i, f in enumerate(layout_for(cls, t)):
                    if f[0] == V:
                        v, w = vint(p)
                        p += w
                        vals[f[1] if f[1] else "_len0"] = v
                    elif f[0] == U8:
                        vals[f[1]] = b[p]
                        p += 1
                    elif f[0] == BYTES:
                        n = f[2]
                        if cls == "DatagramFrame":
                            n = vals["_len0"]
                        elif isinstance(n, str):
                            n = vals[n]
                        p += n
                    else:
                        p = len(b)
            if p > len(b):
                return None
            out.append((cls, p - pos))
            pos = p
    except IndexError:
        return None
    return out


@harness(["C17", "C02"], "parse_frames.wf", functions=[QF + ".parse_frames"])
def h_parse_wf(c):
    """orig = F_0 ++ ... ++ F_{n-1}, every F_i a well-formed frame (n symbolic; ghost pos(i) = offset of
    F_i, kcls(i) its class).  Then parse_frames raises nothing and returns exactly n frames, frame i being
    of class kcls(i) with length pos(i+1)-pos(i): the frames tile the packet, every byte counted once."""
    orig = c.bytes("payload")
    src = c.opaque("src_packet")
    if c.native:
        want = rfc_split(orig)
        c.assume(want is not None)
        out = c.call(QF + ".parse_frames", orig, src)
        c.ensure("no_raise", out.exc is None, kind="raises")
        if out.exc is None:
            got = [(type(f).__name__, f.length) for f in out.value]
            c.ensure("count", len(got) == len(want))
            c.ensure("tiling", got == want)
        return
    from pyvc.api import SymList, from_list, forall, bor
    n = c.int("n", 0, None)
    pos, kcls = c.uf("fpos"), c.uf("fcls")
    wfk, wflen = c.uf("WFk"), c.uf("WFlen")
    N = len_(orig)
    c.assume(pos(0) == 0)
    c.assume(pos(n) == N)

    def project(fr):
        return {"length": fr.attrs["length"], "cls": CLS_IDX[fr.cls.name]}

    def as_sl(x):
        return x if isinstance(x, SymList) else from_list(x, "frames", ["length", "cls"], project)

    def wf_instance(j):
        # the precondition "F_j is a well-formed frame of class kcls(j) at pos(j)" instantiated at j
        a = pos(j)
        starts = band(*[bor(kcls(j) != CLS_IDX[k], bor(*[orig[a] == t for t, kk in RFC_DISPATCH.items() if kk == k]))
                        for k in WF_CLASSES])
        known = bor(*[kcls(j) == CLS_IDX[k] for k in WF_CLASSES])
        return bor(j >= n, band(a >= 0, pos(j + 1) - a >= 1, pos(j + 1) <= N, wfk(a) == kcls(j),
                                wflen(a) == pos(j + 1) - a, starts, known,
                                pos(j) < pos(n)))  # partial sums of positive lengths are strictly increasing

    def off_of(p):
        o = _offset_in(p, orig)
        if o is None:
            return N  # empty remainder
        return o

    def inv(e):
        F = as_sl(e.frames)
        j = F.length
        return band(_suffix_of(e.payload, orig), off_of(e.payload) == pos(j), j >= 0, j <= n,
                    forall(lambda i: (F.field("length", i) == pos(i + 1) - pos(i)) & (F.field("cls", i) == kcls(i)), 0, j))

    def hv_payload(cur):
        from pyvc.api import slice_
        k = c.fresh_int("consumed", 0, None)
        c.assume(k <= N)
        return slice_(orig, k, None)

    def unfold(phase, e):
        if phase == "havoc":
            c.assume(wf_instance(as_sl(e.frames).length))

    c.ghost = {"orig": orig, "wf_at": lambda o, k: wfk(o) == CLS_IDX[k], "wf_len": lambda o: wflen(o)}
    c.loop(QF + ".parse_frames", "while len(payload) != 0", invariant=inv, decreases=lambda e: len_(e.payload),
           havoc={"payload": hv_payload, "frames": lambda cur: as_sl(cur).fresh("frames")}, ghost_step=unfold)
    out = c.call(QF + ".parse_frames", orig, src)
    c.ensure("no_raise", out.exc is None, kind="raises")
    if out.exc is None:
        F = as_sl(out.value)
        c.ensure("count", F.length == n)
        c.ensure("tiling", forall(lambda i: (F.field("length", i) == pos(i + 1) - pos(i)) & (F.field("cls", i) == kcls(i)), 0, n))
        c.cover("returned")


h_parse_wf.must_cover = ["returned"]
