"""C03 (QUIC path) / C02: the representation invariant that makes QuicSession.decrypt_packet's decryptor look-ups safe, and its
preservation by key installation for ANY subset of key-log lines.

  INV(session):  for every encryption level T in {Handshake, Application, Early}:
                 some header-protection key of T in session.keys is usable (present and not None)  =>  T in session.decryptors
                 (and Application is a non-empty list of key generations).

Why it matters: the dissector builds a Handshake / 0-RTT / 1-RTT packet only if it could remove header protection, i.e. only
with a usable hp key of that level and direction (robust.quic_dissector.packets_only_with_a_usable_hp_key); decrypt_packet then
indexes session.decryptors[T] OUTSIDE its try block.  INV is what stands between a partial key log and a KeyError that would
abort the whole run."""
from pyvc.api import harness, eq, band, bor, bnot, len_, const
from contracts.keys import key_obj, spelled, AEAD, H, QK

QS = "tlexport.quic.quic_session.QuicSession"
QDEC = "tlexport.quic.quic_decryptor.QuicDecryptor"
QP = "tlexport.quic.quic_packet"
PT = QP + ".QuicPacketType"
LABELS = ["CLIENT_HANDSHAKE_TRAFFIC_SECRET", "SERVER_HANDSHAKE_TRAFFIC_SECRET", "CLIENT_TRAFFIC_SECRET_0", "SERVER_TRAFFIC_SECRET_0", "CLIENT_EARLY_TRAFFIC_SECRET"]
LEVELS = [("Handshake", ["client_handshake_hp", "server_handshake_hp"]), ("Application", ["client_application_hp", "server_application_hp"]),
          ("Early", ["client_early_hp"])]
SUITES = {b"\x13\x01": ("SHA256", 32), b"\x13\x02": ("SHA384", 48), b"\x13\x03": ("SHA256", 32), b"\x13\x04": ("SHA256", 32)}
KEYLEN_OK = {"AESGCM": (16, 24, 32), "AESCCM": (16, 24, 32), "ChaCha20Poly1305": (32,)}


def inv_holds(c, s):
    keys, decs = c.get(s, "keys"), c.get(s, "decryptors")
    ok = isinstance(keys, dict) and isinstance(decs, dict)
    if not ok:
        return False
    for level, names in LEVELS:
        usable = any(keys.get(n) is not None for n in names)
        if usable and level not in decs:
            return False
        if level == "Application" and level in decs and not (isinstance(decs[level], list) and len(decs[level]) >= 1):
            return False
    return True


def aead_models(c):
    """assumed contract of the AEAD constructors of `cryptography`: a key of an allowed length is accepted, anything else raises"""
    def ctor(name):
        def mk(key, *a):
            if key is None:
                c.raise_in_code("TypeError")
            n = len_(key)
            if not c.truth_fork(bor(*[n == k for k in KEYLEN_OK[name]])):
                c.raise_in_code("ValueError")
            return c.recorder("aead:" + name, key=key)
        return mk
    for name in KEYLEN_OK:
        c.lib_model(AEAD + name, ctor(name))


@harness(["C03", "C02"], "quic.keystate.install", functions=[QS + ".set_tls_decryptors", QK + ".dev_quic_keys", QDEC + ".__init__"],
         cases=[(suite, mask, pre) for suite in (b"\x13\x01", b"\x13\x02", b"\x13\x03", b"\x13\x04", b"\x13\x05") for mask in range(32) for pre in ("fresh", "installed")],
         timeout=20000)
def h_install(c, suite, mask, pre):
    """for EVERY subset of this connection's key-log lines (five QUIC-relevant labels + a foreign one; BOUNDED: each label at most
    once) and every suite: set_tls_decryptors either raises an ordinary exception (its only caller runs inside decrypt_packet's
    barrier) or returns - and in both cases INV holds afterwards; with the four handshake/1-RTT secrets it installs both levels"""
    if c.native:
        return
    cr = c.bytes("client_random", length=32)
    digest = SUITES.get(suite, ("SHA256", 32))[1]
    keylog = []
    for i, label in enumerate(LABELS):
        if mask >> i & 1:
            k, _ = key_obj(c, label, "k%d" % i, digest)
            c.assume(eq(spelled(c, c.get(k, "client_random")), cr))
            keylog.append(k)
    k, _ = key_obj(c, "EXPORTER_SECRET", "foreign", digest)
    c.assume(eq(spelled(c, c.get(k, "client_random")), cr))
    keylog.insert(len(keylog) // 2, k)
    aead_models(c)
    v1 = c.enum("tlexport.quic.quic_decode.QuicVersion", "V1")
    if pre == "fresh":
        keys = {"client_initial_hp": c.bytes("cihp", length=16), "server_initial_hp": c.bytes("sihp", length=16)}
        decs = {"Initial": c.opaque("initial")}
    else:
        keys = {n: c.bytes(n, length=16) for _, names in LEVELS for n in names}
        decs = {"Initial": c.opaque("initial"), "Handshake": c.opaque("hs"), "Application": [c.opaque("app0")], "Early": c.opaque("early")}
    s = c.obj(QS, keylog=keylog, quic_version=v1, keys=keys, decryptors=decs, can_decrypt=True, hash_fun=None, cipher=None, key_length=None,
              early_traffic_keys=False)
    assert inv_holds(c, s)
    out = c.method(s, "set_tls_decryptors", cr, const(suite))
    c.ensure("raises_only_ordinary_exceptions", out.exc is None or out.exc not in ("KeyboardInterrupt", "SystemExit", "GeneratorExit"), kind="raises")
    c.ensure("invariant.usable_hp_key_implies_decryptor", inv_holds(c, s))
    complete = (mask & 0b1111) == 0b1111 and suite in SUITES
    if complete:
        c.ensure("complete_secrets.no_raise", out.exc is None, kind="raises")
        c.ensure("complete_secrets.both_levels_installed", "Handshake" in c.get(s, "decryptors") and "Application" in c.get(s, "decryptors"))
        c.cover("complete")
    else:
        c.cover("partial")


h_install.must_cover = ["complete", "partial"]


@harness(["C03", "C02"], "quic.keystate.lookup", functions=[QS + ".decrypt_packet"], cases=[(t, s) for t in ("INITIAL", "HANDSHAKE", "RTT_O", "RTT_1") for s in (True, False)])
def h_lookup(c, ptype, isserver):
    """decrypt_packet raises nothing for a packet the dissector can have produced (its level's hp key for its direction is usable)
    in ANY session state satisfying INV - in particular in a state where ONLY that level's decryptor exists"""
    if c.native:
        return
    level = {"INITIAL": "Initial", "HANDSHAKE": "Handshake", "RTT_O": "Early", "RTT_1": "Application"}[ptype]
    hp = {"INITIAL": "%s_initial_hp", "HANDSHAKE": "%s_handshake_hp", "RTT_O": "client_early_hp", "RTT_1": "%s_application_hp"}[ptype]
    hp = hp % ("server" if isserver else "client") if "%s" in hp else hp
    keys = {hp: c.bytes("hp_key", length=16)}
    dec = c.recorder("decryptor", handler=lambda m, a, k: c.raise_in_code("InvalidTag") if c.nondet("aead_fails") else c.bytes_fresh("plaintext", 0, None))
    # the weakest state INV allows: a decryptor for this level only (Initial keys are installed before any packet is dissected:
    # quic.handle_packet.initial_keys)
    decs = {level: [dec] if level == "Application" else dec}
    first, pn, payload = c.bytes("first_byte", length=1), c.bytes("packet_num", min_len=1, max_len=4), c.bytes("payload")
    common = dict(packet_type=c.enum(PT, ptype), isserver=isserver, first_byte=first, dcid=c.bytes("dcid", max_len=20), packet_num=pn, payload=payload)
    if ptype == "RTT_1":
        pkt = c.obj(QP + ".ShortQuicPacket", key_phase=c.int("key_phase", 0, 1), **common)
    else:
        extra = dict(version=c.bytes("version", length=4), dcid_len=c.bytes("dcid_len", length=1), scid=c.bytes("scid", max_len=20), scid_len=c.bytes("scid_len", length=1),
                     packet_len_bytes=c.bytes("packet_len_bytes", min_len=1, max_len=8))
        if ptype == "INITIAL":
            extra.update(token_len_bytes=c.bytes("token_len_bytes", min_len=1, max_len=8), token=c.bytes("token"))
        pkt = c.obj(QP + ".LongQuicPacket", **common, **extra)
    s = c.obj(QS, keys=keys, decryptors=decs, epoch_server=0, epoch_client=0)
    assert inv_holds(c, s)
    c.summary_override(QS + ".get_full_packet_number", lambda ctx, slf, p: c.bytes_fresh("full_pn", 8, 8))

    def s_epoch(ctx, slf, kp, srv):
        c.ensure("key_epoch.precondition.application_generations_exist", "Application" in slf.attrs["decryptors"])
    c.summary_override(QS + ".check_key_epoch", s_epoch)
    c.summary_override("tlexport.quic.quic_frame.parse_frames", lambda ctx, pl, p: c.raise_in_code("IndexError") if c.nondet("frames_fail") else [])
    out = c.method(s, "decrypt_packet", pkt)
    c.ensure("no_raise", out.exc is None, kind="raises")
    c.cover("returned")


h_lookup.must_cover = ["returned"]
