"""C02 (output link) / C06 / C07 / C13 (QUIC): QUICOutputbuilder.build groups exported frame data into one UDP
datagram per capture timestamp, oriented and timed as the input datagram; QuicSession.build_output hands only
real frames to the writer.

build() is a fold over the frame list; its per-iteration TRANSITION RELATION is proved for an arbitrary state
(loop cut with ghost snapshots), plus the final flush.  That the fold of this relation yields 'maximal runs of
kept frames with equal timestamp' is the (paper) composition step."""
from pyvc.api import harness, len_, ite, eq, band, bor, bnot, implies, cat, const
from contracts.tcp_output import frame_view, same

QOB = "tlexport.quic.quic_output_builder.QUICOutputbuilder"
QS = "tlexport.quic.quic_session.QuicSession"
STREAM_TYPES = list(range(0x08, 0x10))


def make_qbuilder(c, ipv6, traffic):
    b = {"ipv6": ipv6, "server_mac": c.bytes("server_mac", length=6), "client_mac": c.bytes("client_mac", length=6),
         "server_ip": c.ip_text("server_ip", ipv6), "client_ip": c.ip_text("client_ip", ipv6),
         "server_port": c.int("server_port", 0, 65535), "client_port": c.int("client_port", 0, 65535)}
    c.assume(bnot(eq(b["server_mac"], b["client_mac"])))
    obj = c.obj(QOB, decrypted_traffic=traffic, server_ip=b["server_ip"], client_ip=b["client_ip"], server_port=b["server_port"],
                client_port=b["client_port"], default_port=8080, server_mac_address=b["server_mac"],
                client_mac_address=b["client_mac"], ipv6=ipv6, out=[])
    return obj, b


def kept_data(c, fr, metadata):
    """what the property says is exported from a frame: STREAM data always; CRYPTO / version-negotiation bytes only
    with -a"""
    t = c.get(fr, "frame_type")
    if t in STREAM_TYPES:
        return c.get(fr, "stream_data")
    if metadata and t == 0x06:
        return c.get(fr, "crypto")
    if metadata and t == 0xfe:
        return c.get(fr, "payload")          # PseudoVersionNegotiationFrame keeps the versions it was built from in .payload
    return None


LQP, SQP, QPT = "tlexport.quic.quic_packet.LongQuicPacket", "tlexport.quic.quic_packet.ShortQuicPacket", "tlexport.quic.quic_packet.QuicPacketType"
PVN = "tlexport.quic.quic_frame.PseudoVersionNegotiationFrame"


def source_packet(c, frame_type, ts, isserver, pn):
    """the packet object a frame of this type hangs on, BUILT BY THE REAL CONSTRUCTORS of quic_packet.py (the attribute set is
    theirs, not the contract's): CRYPTO frames come in Initial packets, STREAM frames in 1-RTT packets, the pseudo frame on a
    Version Negotiation packet - which has neither packet number nor payload"""
    if frame_type == 0xfe:
        r = c.new(LQP, packet_type=c.enum(QPT, "VERSION_NEG"), version=const(b"\x00\x00\x00\x00"), dcid_len=const(b"\x00"), dcid=const(b""),
                  scid_len=const(b"\x00"), scid=const(b""), first_byte=0x80, ts=ts, isserver=isserver, supported_version=const(b"\x00\x00\x00\x01"))
    elif frame_type == 0x06:
        r = c.new(LQP, packet_type=c.enum(QPT, "INITIAL"), version=const(b"\x00\x00\x00\x01"), dcid_len=const(b"\x00"), dcid=const(b""),
                  scid_len=const(b"\x00"), scid=const(b""), first_byte=0xc0, ts=ts, isserver=isserver, packet_num=pn, payload=const(b""))
    else:
        r = c.new(SQP, packet_type=c.enum(QPT, "RTT_1"), key_phase=0, dcid=const(b""), packet_num=pn, payload=const(b""), isserver=isserver,
                  first_byte=0x40, ts=ts)
    assert r.exc is None, r
    return r.value


def make_frame(c, t, data, sp):
    if t == 0xfe:
        r = c.new(PVN, data, sp)             # the real class: its attribute is .payload
        assert r.exc is None, r
        return r.value
    attrs = {"frame_type": t, "src_packet": sp}
    attrs["crypto" if t == 0x06 else "stream_data"] = data
    return c.record("Frame", **attrs)


def check_datagram(c, label, entry, b, isserver, payload, ts):
    pkt, ets = entry
    v = frame_view(c, pkt, b)
    c.ensure(label + ".wellformed_udp", v["wellformed"] and v["l4"] == "UDP" and v["payload"] is not None)
    if not (v["wellformed"] and v["payload"] is not None):
        return
    c.ensure(label + ".direction", v["orient"] == (1 if isserver else 2))
    c.ensure(label + ".payload", eq(v["payload"], payload))
    c.ensure(label + ".timestamp", ets == ts if c.native else c.same_object(ets, ts) or c.prove(ets == ts))


@harness(["C02", "C06", "C07", "C13", "C08", "C03", "C18", "C10"], "quic_out.build", functions=[QOB + ".build"],
         cases=[(v6, md) for v6 in (False, True) for md in (False, True)])
def h_qbuild(c, ipv6, metadata):
    if c.native:
        return h_qbuild_native(c, ipv6, metadata)
    from pyvc.api import SymList
    from pyvc.core import BBase, SymInt
    E = c.E
    n = c.int("n_frames", 1, None)
    ftype, fts, fsrv, flen = c.uf("frame_type"), c.uf("frame_ts"), c.uf("frame_isserver", boolean=True), c.uf("frame_len")

    def element(vals, k):
        t = c.concrete(c.fresh_choice(ftype(k), [0x06, 0x08, 0x0b, 0x0f, 0xfe, 0x1c]))
        c.assume(flen(k) >= 0)
        data = BBase(E.fresh_name("data"), flen(k))
        return make_frame(c, t, data, source_packet(c, t, fts(k), fsrv(k), c.bytes_fresh("pn", 1, 4)))
    traffic = SymList("decrypted_traffic", [], n, {}, project=None, inject=element)
    obj, b = make_qbuilder(c, ipv6, traffic)
    c.ensure("frame.out_is_append_only", c.appends_only(QOB + ".build", "self.out"), kind="frame")
    snap = {}

    def ghost(phase, e):
        if phase == "havoc":
            snap["packets"] = e.packets.val
            snap["ts"], snap["isserver"] = e.ts, e.isserver
        elif phase == "step":
            fr = e.frame
            data = kept_data(c, fr, metadata)
            new = e.self.attrs["out"]
            fts_, fsrv_ = c.get(c.get(fr, "src_packet"), "ts"), c.get(c.get(fr, "src_packet"), "isserver")
            if data is None:
                c.ensure("step.skipped_frame_changes_nothing", len(new) == 0 and eq(e.packets.val, snap["packets"])
                         and c.same_object(e.ts, snap["ts"]) and c.same_object(e.isserver, snap["isserver"]))
                c.cover("step.skipped")
            elif len(new) == 0:
                c.ensure("step.same_datagram.only_if_same_timestamp", c.prove(fts_ == snap["ts"]))
                c.ensure("step.same_datagram.data_appended", eq(e.packets.val, cat(snap["packets"], data)))
                c.ensure("step.same_datagram.group_unchanged", c.same_object(e.ts, snap["ts"]) and c.same_object(e.isserver, snap["isserver"]))
                c.cover("step.extended")
            else:
                c.ensure("step.new_datagram.only_if_other_timestamp", c.prove(fts_ != snap["ts"]))
                c.ensure("step.new_datagram.exactly_one_flushed", len(new) == 1)
                check_datagram(c, "step.flushed", new[0], b, c.concrete_bool(snap["isserver"]), snap["packets"], snap["ts"])
                c.ensure("step.flushed.timestamp_is_a_capture_time", new[0][1] is not None)
                c.ensure("step.new_datagram.group_restarts", eq(e.packets.val, data) and c.prove(e.ts == fts_)
                         and c.prove(eq(e.isserver, fsrv_)))
                c.cover("step.flushed")
        elif phase == "exit":
            snap["exit"] = (e.packets.val, e.ts, e.isserver)

    c.loop(QOB + ".build", "for frame in self.decrypted_traffic",
           # the group's timestamp is always a capture time (a number the reader produced), never "no timestamp": the pcapng writer
           # stamps a packet handed over without one with the wall clock, and the export would differ from run to run (C18)
           invariant=lambda e: band(c.is_bool(e.isserver), e.ts is not None),
           havoc={"self.out": lambda cur: [], "data": lambda cur: None, "packet": lambda cur: None,
                  # the remembered packet number: any byte string, or None (Version Negotiation packets have none)
                  "pn": lambda cur: None if c.nondet("pn_is_none") else c.bytes_fresh("pn_state", 0, 4)}, ghost_step=ghost)
    out = c.method(obj, "build", metadata)
    c.ensure("no_raise", out.exc is None, kind="raises")
    if out.exc is not None:
        return
    res = out.value
    c.ensure("returns_out", res is c.get(obj, "out"))
    c.ensure("final_flush.exactly_one", len(res) == 1 and "exit" in snap)
    if len(res) == 1 and "exit" in snap:
        pk, ts, srv = snap["exit"]
        check_datagram(c, "final_flush", res[0], b, c.concrete_bool(srv), pk, ts)
        c.ensure("final_flush.timestamp_is_a_capture_time", res[0][1] is not None)
    c.cover("returned")


h_qbuild.must_cover = ["returned", "step.skipped", "step.extended", "step.flushed"]


def _varint(v):
    return bytes([v]) if v < 64 else (0x4000 | v).to_bytes(2, "big")


def h_qbuild_native(c, ipv6, metadata):
    """native evaluation: reference grouping (maximal runs of kept frames with equal timestamp) vs the real build.  The frames are
    built by the REAL frame constructors from encoded payloads (so they carry every attribute real frames carry: offsets, stream
    ids, lengths), several frames share one source packet, several packets share one datagram (timestamp)"""
    QF = "tlexport.quic.quic_frame."
    frames = []
    n_dgrams = 1 + c.int("n_datagrams", 0, 3)
    i = 0
    for d in range(n_dgrams):
        ts = float(d + 1) if c.int("ts_repeat%d" % d, 0, 3) else float(max(d, 1))      # mostly distinct timestamps, sometimes equal neighbours
        srv = c.bool("srv%d" % d)
        for p in range(1 + c.int("n_packets%d" % d, 0, 1)):
            kind = [0x06, 0x0e, 0x0e, 0xfe][c.int("kind%d_%d" % (d, p), 0, 3)]
            sp = source_packet(c, kind, ts, srv, bytes([c.int("pn%d" % i, 0, 2)]))
            for f in range(1 + c.int("n_frames%d_%d" % (d, p), 0, 2)):
                i += 1
                data = bytes([0x41 + i % 26]) * c.int("len%d" % i, 0, 5)
                off = c.int("off%d" % i, 0, 300)
                if kind == 0xfe:
                    fr = make_frame(c, 0xfe, data, sp)
                elif kind == 0x06:
                    r = c.new(QF + "CryptoFrame", b"\x06" + _varint(off) + _varint(len(data)) + data, sp)
                    assert r.exc is None, r
                    fr = r.value
                else:
                    r = c.new(QF + "StreamFrame", b"\x0e" + _varint(4 * (i % 3)) + _varint(off) + _varint(len(data)) + data, sp)
                    assert r.exc is None, r
                    fr = r.value
                frames.append(fr)
    obj, b = make_qbuilder(c, ipv6, frames)
    out = c.method(obj, "build", metadata)
    c.ensure("no_raise", out.exc is None, kind="raises")
    if out.exc is not None:
        return
    want = []
    cur = None
    first = frames[0].src_packet
    cur = [first.ts, first.isserver, b""]
    for f in frames:
        d = kept_data(c, f, metadata)
        if d is None:
            continue
        if f.src_packet.ts == cur[0]:
            cur[2] += d
        else:
            want.append(tuple(cur))
            cur = [f.src_packet.ts, f.src_packet.isserver, d]
    want.append(tuple(cur))
    got = []
    for pkt, ts in out.value:
        v = frame_view(c, pkt, b)
        c.ensure("step.flushed.wellformed_udp", v["wellformed"] and v["l4"] == "UDP")
        got.append((ts, v["orient"] == 1, bytes(v["payload"] or b"")))
    c.ensure("step.flushed.payload", [g[2] for g in got] == [w[2] for w in want])
    c.ensure("step.flushed.timestamp", [g[0] for g in got] == [w[0] for w in want])
    c.ensure("step.flushed.direction", [g[1] for g in got] == [w[1] for w in want])
    c.ensure("step.flushed.timestamp_is_a_capture_time", all(g[0] is not None for g in got))


@harness(["C06", "C03"], "quic_out.build_output", functions=[QS + ".build_output"], cases=[("empty",), ("nonempty",)])
def h_build_output(c, how):
    """everything QuicSession.build_output returns is (frame, timestamp) pairs produced by the builder: a session
    with nothing to export contributes NOTHING (no placeholder pseudo-packet)"""
    built = [(c.opaque("frame"), 1.0)]
    c.summary_override(QOB + ".__init__", lambda ctx, cls, *a, **k: ctx.make_obj(cls))
    c.summary_override(QOB + ".build", lambda ctx, slf, metadata: built)
    s = c.obj(QS, output_buffer=[] if how == "empty" else [c.opaque("f")], server_ip=c.bytes("sip", length=4),
              client_ip=c.bytes("cip", length=4), server_port=443, client_port=50000, server_mac_addr=c.bytes("sm", length=6),
              client_mac_addr=c.bytes("cm", length=6), portmap={}, ipv6=False, keep_original_ports=True)
    out = c.method(s, "build_output", c.bool("metadata"))
    c.ensure("no_raise", out.exc is None, kind="raises")
    if out.exc is None:
        c.ensure("only_builder_frames", (out.value is built) if how == "nonempty" else (isinstance(out.value, list) and len(out.value) == 0))


@harness(["C13", "C03", "C02"], "quic.version_negotiation_end_to_end", functions=["tlexport.quic.quic_dissector.extract_quic_packet", QS + ".handle_quic_packet", QS + ".handle_frame",
                                                                                 QS + ".build_output", QOB + ".__init__", QOB + ".build"], cases=[(False,), (True,)], timeout=20000)
def h_vn_end_to_end(c, metadata):
    """COMPOSITION for a Version Negotiation packet, every stage from its real body: dissector -> handle_quic_packet (pseudo frame) ->
    build_output.  The per-function contracts fix what each stage does with values of the type IT expects; that the value one stage
    produces (the list of supported versions) is of a type the next stage can consume - with and without -a - is a property of the
    composition.  Nothing of it may abort the export (C03), and -a must not turn a quiet packet into a failure (C13)."""
    if c.native:
        return
    from contracts.quic_session_c import full_qsession
    isserver = c.bool("isserver")
    b0 = c.int("first_byte", 128, 255)
    dcid, scid = c.bytes("dcid", max_len=20), c.bytes("scid", max_len=20)
    versions = c.bytes("supported_versions", length=8)
    datagram = cat(c.bytes_of([b0]), const(b"\x00\x00\x00\x00"), c.bytes_of([len_(dcid)]), dcid, c.bytes_of([len_(scid)]), scid, versions)
    ts = c.int("timestamp", 0, 2 ** 40)
    pkt = c.obj("tlexport.packet.Packet", tls_data=datagram, timestamp=ts)
    out = c.call("tlexport.quic.quic_dissector.extract_quic_packet", in_packet=pkt, isserver=isserver, guessed_dcid=c.bytes("guessed_dcid", max_len=20), keys={}, ciphersuite=None)
    c.ensure("dissector.no_raise", out.exc is None, kind="raises")
    if out.exc is not None:
        return
    pkts, _ = out.value
    c.ensure("dissector.one_packet", len(pkts) == 1)
    if len(pkts) != 1:
        return
    s = full_qsession(c, packet_buffer_quic=list(pkts), output_buffer=[])
    out = c.method(s, "handle_quic_packet")
    c.ensure("handle_quic_packet.no_raise", out.exc is None, kind="raises")
    if out.exc is not None:
        return
    out = c.method(s, "build_output", metadata)
    c.ensure("build_output.no_raise", out.exc is None, kind="raises")
    if out.exc is not None:
        return
    res = out.value
    c.ensure("exported_items_are_frame_timestamp_pairs_of_this_datagram", isinstance(res, list) and all(isinstance(x, tuple) and len(x) == 2 and c.same_object(x[1], ts) for x in res))
    c.cover("returned")


h_vn_end_to_end.must_cover = ["returned"]
