"""C16: QUIC packet-number reconstruction (RFC 9000 Appendix A.3) and its use as AEAD nonce.

Oracle: the RFC's DecodePacketNumber pseudo-code transcribed over mathematical integers."""
from pyvc.api import harness, len_, ite, cat, const, be, eq, band

QS = "tlexport.quic.quic_session"
QP = "tlexport.quic.quic_packet"
QDc = "tlexport.quic.quic_decryptor"
PT = QP + ".QuicPacketType"


def rfc9000_a3(largest, truncated, bits):
    expected = largest + 1
    win = 2 ** bits
    hwin = win // 2
    cand = expected - expected % win + truncated          # (expected & ~mask) | truncated
    return ite((cand <= expected - hwin) & (cand < 2 ** 62 - win), cand + win,
               ite((cand > expected + hwin) & (cand >= win), cand - win, cand))


PTYPES = ["INITIAL", "HANDSHAKE", "RTT_O", "RTT_1"]
# RFC 9000 12.3: Initial, Handshake and application data (0-RTT and 1-RTT together) are the three spaces
SPACE_OF = {"INITIAL": "initial", "HANDSHAKE": "handshake", "RTT_O": "app", "RTT_1": "app"}


def make_session(c):
    sess = c.obj(QS + ".QuicSession")
    out = c.method(sess, "set_packet_number_spaces")   # the real initialiser builds the tables
    c.ensure("spaces.init.no_raise", out.exc is None, kind="raises")
    return sess


def make_packet(c, ptype, isserver, pn):
    if ptype == "RTT_1":
        return c.obj(QP + ".ShortQuicPacket", packet_type=c.enum(PT, ptype), isserver=isserver, packet_num=pn)
    return c.obj(QP + ".LongQuicPacket", packet_type=c.enum(PT, ptype), isserver=isserver, packet_num=pn)


@harness("C16", "pkn.spaces", functions=[QS + ".QuicSession.set_packet_number_spaces"])
def h_spaces(c):
    """PACKET_TYPE_MAP and the initial tables: three spaces per direction, 0-RTT and 1-RTT share one,
    Initial and Handshake have their own (finite enumeration on the real constants)."""
    sess = make_session(c)
    pmap = c.const_of(QS + ".PACKET_TYPE_MAP")
    keys = {p: pmap[c.enum(PT, p)] for p in PTYPES}
    for a in PTYPES:
        for b in PTYPES:
            same = SPACE_OF[a] == SPACE_OF[b]
            c.ensure("map.%s.%s" % (a, b), (keys[a] == keys[b]) == same)
    for tbl in ("packet_number_server", "packet_number_client"):
        d = c.get(sess, tbl)
        c.ensure(tbl + ".three_spaces", len(d) == 3)
        for p in PTYPES:
            c.ensure("%s.has.%s" % (tbl, p), keys[p] in d and d[keys[p]] == 0)


@harness("C16", "pkn.full", functions=[QS + ".QuicSession.get_full_packet_number"],
         cases=[(p, s) for p in PTYPES for s in (True, False)])
def h_full(c, ptype, isserver):
    sess = make_session(c)
    n = c.choice("pn_len", [1, 2, 3, 4])
    pn = c.bytes("packet_num", length=n)
    tables = {"packet_number_server": c.get(sess, "packet_number_server"),
              "packet_number_client": c.get(sess, "packet_number_client")}
    old = {}
    for tn, d in tables.items():
        for i, k in enumerate(list(d.keys())):
            d[k] = c.int("%s.%d" % (tn, i), 0, 2 ** 62 - 1)     # any largest packet number < 2^62
            old[(tn, k)] = d[k]
    pmap = c.const_of(QS + ".PACKET_TYPE_MAP")
    mine = ("packet_number_server" if isserver else "packet_number_client", pmap[c.enum(PT, ptype)])
    largest = old[mine]
    pkt = make_packet(c, ptype, isserver, pn)
    out = c.method(sess, "get_full_packet_number", pkt)
    c.ensure("no_raise", out.exc is None, kind="raises")
    if out.exc is not None:
        return
    full = rfc9000_a3(largest, be(pn), 8 * n)
    res = out.value
    c.ensure("result.fits_iv", len_(res) <= 12)
    c.ensure("result.value_is_rfc_a3", be(res) == full)
    c.ensure("state.largest_updated", tables[mine[0]][mine[1]] == ite(full > largest, full, largest))
    for (tn, k), v in old.items():
        if (tn, k) != mine:
            c.ensure("state.other_spaces_unchanged", tables[tn][k] == v)
    c.ensure("state.same_tables", band(c.get(sess, "packet_number_server") is tables["packet_number_server"],
                                       c.get(sess, "packet_number_client") is tables["packet_number_client"]))
    c.cover("reached")


h_full.must_cover = ["reached"]


@harness("C16", "pkn.nonce", functions=[QDc + ".QuicDecryptor.decrypt"],
         cases=[(s, n) for s in (True, False) for n in (1, 2, 3, 4, 8)])
def h_nonce(c, isserver, n):
    """the AEAD of the packet's direction is called with nonce = iv XOR (packet number left-padded to the IV
    length) - RFC 9001 5.3 - for both shapes get_full_packet_number returns (raw 1-4 bytes, or 8 bytes)."""
    pnb = c.bytes("packet_number", length=n)
    s_iv, c_iv = c.bytes("server_iv", length=12), c.bytes("client_iv", length=12)
    ct, aad = c.bytes("ciphertext"), c.bytes("associated_data")
    plain = c.bytes("plaintext")
    s_aead = c.recorder("server_aead", handler=lambda m, a, k: plain)
    c_aead = c.recorder("client_aead", handler=lambda m, a, k: plain)
    dec = c.obj(QDc + ".QuicDecryptor", server_iv=s_iv, client_iv=c_iv, server_bulk_cipher=s_aead,
                client_bulk_cipher=c_aead)
    out = c.method(dec, "decrypt", ct, pnb, aad, isserver)
    c.ensure("no_raise", out.exc is None, kind="raises")
    if out.exc is not None:
        return
    used, other = (s_aead, c_aead) if isserver else (c_aead, s_aead)
    iv = s_iv if isserver else c_iv
    c.ensure("direction.only_own_aead", (len(c.calls(used)) == 1) and (len(c.calls(other)) == 0))
    if len(c.calls(used)) != 1:
        return
    name, args, kw = c.calls(used)[0]
    c.ensure("aead.call_shape", name == "decrypt" and len(args) == 3 and not kw)
    nonce, got_ct, got_aad = args
    pad = cat(const(bytes(12 - n)), pnb)
    c.ensure("nonce.length", len_(nonce) == 12)
    for i in range(12):
        c.ensure("nonce.byte%d" % i, nonce[i] == (pad[i] ^ iv[i]))
    c.ensure("aead.ciphertext", eq(got_ct, ct))
    c.ensure("aead.aad", eq(got_aad, aad))
    c.ensure("result", eq(out.value, plain))


# ------------------------------------------------------------------------------------------------
# header protection (RFC 9001 5.4): the packet-number bytes handed to A.3 are the unmasked ones

QDi = "tlexport.quic.quic_dissector"
QK = "tlexport.quic.quic_key_generation"
CIPH = "cryptography.hazmat.primitives.ciphers."


def rfc9001_mask(c, suite, hp_key, sample):
    """RFC 9001 5.4.3 / 5.4.4, written with the library primitives (assumed contracts)"""
    if suite == b"\x13\x03":   # ChaCha20: counter = sample[0..3], nonce = sample[4..15] (the library takes the 16 bytes), 5 zero bytes
        enc = c.libmethod(c.lib(CIPH + "Cipher", c.lib(CIPH + "algorithms.ChaCha20", hp_key, sample), mode=None), "encryptor")
        return c.libmethod(enc, "update", b"\x00" * 5)
    enc = c.libmethod(c.lib(CIPH + "Cipher", c.lib(CIPH + "algorithms.AES", hp_key), c.lib(CIPH + "modes.ECB")), "encryptor")
    return c.libmethod(enc, "update", sample)


@harness("C16", "pkn.header_protection", functions=[QDi + ".remove_header_protection", QDi + ".byte_xor", QDi + ".byte_and",
                                                    QK + ".make_hp_mask", QK + ".make_chacha_hp_mask"],
         cases=[(h, s) for h in ("LONG", "SHORT") for s in (b"\x13\x01", b"\x13\x02", b"\x13\x03", b"\x13\x04", None)])
def h_hp(c, htype, suite):
    klen = 32 if suite in (b"\x13\x02", b"\x13\x03") else 16
    hp_key = c.bytes("hp_key", length=klen)
    sample = c.bytes("sample", length=16)
    first = c.int("first_byte", 0, 255)
    pn_offset = c.int("pn_offset", 1, 64)
    data = c.bytes("datagram", min_len=0, max_len=1500)
    c.assume(len_(data) >= pn_offset + 20)          # RFC 9001 5.4.2: the sample lies within the packet
    out = c.call(QDi + ".remove_header_protection", c.enum(QP + ".QuicHeaderType", htype), sample, first, hp_key, data,
                 pn_offset, suite)
    c.ensure("no_raise", out.exc is None, kind="raises")
    if out.exc is not None:
        return
    mask = rfc9001_mask(c, suite, hp_key, sample)
    c.ensure("mask.at_least_5_bytes", len_(mask) >= 5)
    fb, pn, pn_len = out.value
    want_first = first ^ (mask[0] & (0x0f if htype == "LONG" else 0x1f))
    c.ensure("first_byte.length", len_(fb) == 1)
    c.ensure("first_byte.unmasked", fb[0] == want_first)
    want_len = (want_first % 4) + 1
    c.ensure("pn_len", pn_len == want_len)
    c.ensure("pn.length", len_(pn) == want_len)
    n = c.concrete(want_len)
    for i in range(n):
        c.ensure("pn.byte%d" % i, pn[i] == (data[pn_offset + i] ^ mask[1 + i]))
    c.cover("reached")


h_hp.must_cover = ["reached"]
