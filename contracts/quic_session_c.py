"""C02 (links 'CRYPTO stream', 'keys/AAD', 'frames'): QuicTlsSession.update_session, QuicSession.decrypt_packet,
QuicSession.handle_frame.  The remaining links are C04 (routing), C16 (packet numbers, header protection), C15
(keys), C17 (frames) and quic_out.* (output)."""
from pyvc.api import harness, eq, band, bor, bnot, len_, cat, const

QT = "tlexport.quic.quic_tls_parser.QuicTlsSession"
QS = "tlexport.quic.quic_session.QuicSession"
QP = "tlexport.quic.quic_packet"
QF = "tlexport.quic.quic_frame"
PT = QP + ".QuicPacketType"
ORDERS = {2: [(0, 1), (1, 0)], 3: [(0, 1, 2), (0, 2, 1), (1, 0, 2), (1, 2, 0), (2, 0, 1), (2, 1, 0)]}


def full_qsession(c, **overrides):
    """a QuicSession with EVERY attribute the real constructor sets (so that code reading or writing any of them is executed, not
    answered with a spurious AttributeError), then put into the state the contract quantifies over"""
    pkt = c.obj("tlexport.packet.Packet", ipv6_packet=False, ip_src=c.bytes("q_ip_src", length=4), ip_dst=c.bytes("q_ip_dst", length=4), sport=50000, dport=443,
                ethernet_src=c.bytes("q_eth_src", length=6), ethernet_dst=c.bytes("q_eth_dst", length=6), tls_data=const(b"\xc0"), timestamp=1.0)
    r = c.new(QS, pkt, [443], [], {}, True)
    assert r.exc is None, r
    for k, v in overrides.items():
        c.set(r.value, k, v)
    return r.value


@harness("C02", "quic.crypto_reassembly", functions=[QT + ".update_session"],
         cases=[(srv, n, order) for srv in (True, False) for n in (2, 3) for order in ORDERS[n]], timeout=20000)
def h_crypto(c, isserver, n, order):
    """BOUNDED (a CRYPTO stream prefix cut into <= 3 fragments at arbitrary points, any arrival order): after all
    fragments arrived the reassembled handshake bytes handed on are exactly the stream bytes [0, total), each byte once,
    in order; before that, what has been handed on is always a prefix of them"""
    if c.native:
        return
    total = c.int("total", n, 6000)
    stream = c.bytes("crypto_stream", length=total)
    cuts = [0] + [c.int("cut%d" % i, 1, 6000) for i in range(1, n)] + [total]
    for a, b in zip(cuts, cuts[1:]):
        c.assume(a < b)
    ptype = c.enum(PT, c.choice("packet_type", ["INITIAL", "HANDSHAKE"]))
    sp = c.record("QuicPacket", isserver=isserver, packet_type=ptype)
    frames = [c.obj(QF + ".CryptoFrame", offset=cuts[i], crypto_length=cuts[i + 1] - cuts[i], crypto=stream[cuts[i]:cuts[i + 1]], src_packet=sp)
              for i in range(n)]
    tls_out = c.new(QT)
    c.ensure("init.no_raise", tls_out.exc is None, kind="raises")
    if tls_out.exc is not None:
        return
    tls = tls_out.value
    seen = []

    def s_handle_buffer(ctx, slf, srv):
        # observation point: the bytes reassembled so far (handle_buffer consumes complete handshake messages from it)
        buf = (slf.attrs["server_buffer"] if srv else slf.attrs["client_buffer"])[ptype]
        seen.append(buf)
    c.summary_override(QT + ".handle_buffer", s_handle_buffer)
    for i in order:
        out = c.method(tls, "update_session", frames[i])
        c.ensure("no_raise", out.exc is None, kind="raises")
        if out.exc is not None:
            return
    c.ensure("observed_after_every_fragment", len(seen) == n)
    for b in seen:
        c.ensure("always_a_prefix_of_the_stream", c.prove(eq(b, stream[0:len_(b)])))
    if seen:
        c.ensure("complete_after_all_fragments", c.prove(eq(seen[-1], stream)))
    off = c.get(tls, "server_offset" if isserver else "client_offset")[ptype]
    c.ensure("offset_is_total", off == total)
    c.cover("reached")


h_crypto.must_cover = ["reached"]


@harness(["C02", "C16"], "quic.decrypt_packet", functions=[QS + ".decrypt_packet"],
         cases=[(t, s, f) for t in ("INITIAL", "HANDSHAKE", "RTT_O", "RTT_1") for s in (True, False) for f in ("none", "parse_frames", "handle_frame", "decrypt")])
def h_decrypt_packet(c, ptype, isserver, fail="none"):
    """the packet is opened with the decryptor of ITS type (and, for 1-RTT, of its direction's key epoch), the packet
    number A.3 reconstructed for it, and the associated data RFC 9001 5.3 prescribes: the header bytes from the first
    byte through the (unprotected) packet number; the frames of the plaintext are then handled once each, in order"""
    if c.native:
        return
    first, pn, payload = c.bytes("first_byte", length=1), c.bytes("packet_num", min_len=1, max_len=4), c.bytes("payload")
    dcid = c.bytes("dcid", max_len=20)
    decs = {"Initial": c.recorder("dec_initial"), "Handshake": c.recorder("dec_handshake"), "Early": c.recorder("dec_early"),
            "Application": [c.recorder("dec_app0"), c.recorder("dec_app1")]}
    plain = c.bytes("plaintext")
    for d in [decs["Initial"], decs["Handshake"], decs["Early"]] + decs["Application"]:
        d.attrs["__handler__"] = lambda m, a, k: plain
    if ptype == "RTT_1":
        pkt = c.obj(QP + ".ShortQuicPacket", packet_type=c.enum(PT, ptype), isserver=isserver, first_byte=first, dcid=dcid, packet_num=pn,
                    payload=payload, key_phase=c.int("key_phase", 0, 1))
        want_aad = cat(first, dcid, pn)
    else:
        ver, dl, scid, sl = c.bytes("version", length=4), c.bytes("dcid_len", length=1), c.bytes("scid", max_len=20), c.bytes("scid_len", length=1)
        plb = c.bytes("packet_len_bytes", min_len=1, max_len=8)
        attrs = dict(packet_type=c.enum(PT, ptype), isserver=isserver, first_byte=first, version=ver, dcid_len=dl, dcid=dcid, scid_len=sl, scid=scid,
                     packet_len_bytes=plb, packet_num=pn, payload=payload)
        want_aad = cat(first, ver, dl, dcid, sl, scid)
        if ptype == "INITIAL":
            tlb, tok = c.bytes("token_len_bytes", min_len=1, max_len=8), c.bytes("token")
            attrs.update(token_len_bytes=tlb, token=tok)
            want_aad = cat(want_aad, tlb, tok)
        want_aad = cat(want_aad, plb, pn)
        pkt = c.obj(QP + ".LongQuicPacket", **attrs)
    epoch_s, epoch_c = c.choice("epoch_server", [0, 1]), c.choice("epoch_client", [0, 1])
    full_pn = c.bytes("full_packet_number", length=8)
    s = c.obj(QS, decryptors=decs, epoch_server=epoch_s, epoch_client=epoch_c)
    c.method(s, "set_packet_number_spaces")          # the real tables: one entry per packet-number space and direction
    tables = {True: c.get(s, "packet_number_server"), False: c.get(s, "packet_number_client")}
    before = {d: dict(t) for d, t in tables.items()}
    new_largest = c.int("largest_after_this_packet", 0, 2 ** 62 - 1)
    space = [k for k in tables[isserver] if any(m is c.enum(PT, ptype) for m in k)]
    assert len(space) == 1, space

    def s_full_pn(ctx, slf, p):
        # contract of get_full_packet_number (C16 pkn.full): the space/direction entry becomes the new largest; returns the nonce value
        tables[isserver][space[0]] = new_largest
        return full_pn
    c.summary_override(QS + ".get_full_packet_number", s_full_pn)
    c.summary_override(QS + ".check_key_epoch", lambda ctx, slf, kp, srv: None)
    f1, f2 = c.opaque("frame1"), c.opaque("frame2")
    parsed = []
    c.summary_override(QF + ".parse_frames", lambda ctx, pl, p: c.raise_in_code("IndexError") if fail == "parse_frames" else parsed.append((pl, p)) or [f1, f2])
    handled = []
    c.summary_override(QS + ".handle_frame", lambda ctx, slf, fr: c.raise_in_code("ValueError") if fail == "handle_frame" else handled.append(fr))
    if fail == "decrypt":
        for d in [decs["Initial"], decs["Handshake"], decs["Early"]] + decs["Application"]:
            d.attrs["__handler__"] = lambda m, a, k: c.raise_in_code("InvalidTag")
    out = c.method(s, "decrypt_packet", pkt)
    c.ensure("no_raise", out.exc is None, kind="raises")
    if out.exc is not None:
        return
    # C16: 'largest received' per space and direction is maintained by get_full_packet_number alone - an authenticated packet
    # counts even if a frame in it cannot be processed, and no other space or direction is touched
    if fail != "decrypt":
        c.ensure("largest_received.kept_for_an_authenticated_packet", c.get(s, "packet_number_server") is tables[True] and c.get(s, "packet_number_client") is tables[False]
                 and c.prove(eq(tables[isserver][space[0]], new_largest)))
    c.ensure("largest_received.other_spaces_and_direction_untouched", all(c.same_object(tables[d][k], before[d][k]) for d in tables for k in tables[d]
                                                                         if not (d == isserver and k == space[0])))
    if fail != "none":
        return
    want_dec = {"INITIAL": decs["Initial"], "HANDSHAKE": decs["Handshake"], "RTT_O": decs["Early"]}.get(ptype)
    if want_dec is None:
        want_dec = decs["Application"][epoch_s if isserver else epoch_c]
    all_decs = [decs["Initial"], decs["Handshake"], decs["Early"]] + decs["Application"]
    c.ensure("only_the_packets_decryptor", all((len(c.calls(d)) == (1 if d is want_dec else 0)) for d in all_decs))
    calls = c.calls(want_dec)
    if len(calls) != 1:
        return
    m, a, k = calls[0]
    c.ensure("decrypt_arguments", m == "decrypt" and len(a) == 4 and a[0] is payload and a[1] is full_pn and c.same_object(a[3], isserver))
    if len(a) == 4:
        c.ensure("associated_data_is_header_through_packet_number", eq(a[2], want_aad))
    c.ensure("frames_parsed_from_the_plaintext", len(parsed) == 1 and parsed[0][0] is plain and parsed[0][1] is pkt)
    c.ensure("frames_handled_once_in_order", handled == [f1, f2])


@harness("C02", "quic.handle_frame", functions=[QS + ".handle_frame"], cases=[("StreamFrame",), ("CryptoFrame",), ("NewConnectionIdFrame",), ("PingFrame",), ("ConnectionCloseFrame",)])
def h_handle_frame(c, kind):
    """STREAM frames are appended to the session's output in arrival order (nothing else is, except CRYPTO and
    version-negotiation frames, which the builder exports only with -a); NEW_CONNECTION_ID registers the ID for its sender"""
    if c.native:
        return
    isserver = c.bool("isserver")
    sp = c.record("QuicPacket", isserver=isserver)
    fr = c.obj(QF + "." + kind, src_packet=sp, connection_id=c.bytes("connection_id", max_len=20), frame_type=8)
    earlier = [c.opaque("earlier_frame")]
    crypto = []
    c.summary_override(QS + ".handle_crypto_frame", lambda ctx, slf, f: crypto.append(f) or slf.attrs["output_buffer"].append(f))
    s = c.obj(QS, output_buffer=list(earlier), server_cids=c.new_set_of([]), client_cids=c.new_set_of([]))
    out = c.method(s, "handle_frame", fr)
    c.ensure("no_raise", out.exc is None, kind="raises")
    if out.exc is not None:
        return
    ob = c.get(s, "output_buffer")
    c.ensure("earlier_output_kept", len(ob) >= 1 and ob[0] is earlier[0])
    if kind in ("StreamFrame", "CryptoFrame"):
        c.ensure("appended_last", len(ob) == 2 and ob[1] is fr)
    else:
        c.ensure("not_exported", len(ob) == 1)
    sc, cc = c.get(s, "server_cids"), c.get(s, "client_cids")
    if kind == "NewConnectionIdFrame":
        mine, other = (sc, cc) if c.truth_fork(isserver) else (cc, sc)
        c.ensure("cid_registered_for_sender", len(mine.items) == 1 and mine.items[0] is c.get(fr, "connection_id") and len(other.items) == 0)
    else:
        c.ensure("cids_untouched", len(sc.items) == 0 and len(cc.items) == 0)


@harness(["C02", "C16"], "quic.buffered_packets", functions=[QS + ".handle_quic_packet"], cases=[("RETRY",), ("INITIAL",), ("RTT_1",), ("VERSION_NEG",)])
def h_buffered(c, ptype):
    """every buffered QUIC packet except Retry / Version Negotiation is decrypted exactly once; a Retry restarts the
    handshake state (fresh TLS session, no decryptors, no keys) and nothing else; Initial packets register the
    connection IDs of both sides (by direction); the buffer is emptied"""
    if c.native:
        return
    isserver = c.bool("isserver")
    dcid, scid = c.bytes("dcid", max_len=20), c.bytes("scid", max_len=20)
    pkt = c.record("QuicPacket", packet_type=c.enum(PT, ptype), isserver=isserver, dcid=dcid, scid=scid, supported_version=c.bytes("versions", max_len=16))
    decrypted, fresh_tls = [], []
    c.summary_override(QS + ".decrypt_packet", lambda ctx, slf, p: decrypted.append(p))
    crypto_calls = []
    if ptype == "VERSION_NEG":
        # the ONE call of handle_frame outside decrypt_packet's barrier: executed from its real body on the real pseudo frame
        c.summary_override(QS + ".handle_crypto_frame", lambda ctx, slf, f: crypto_calls.append(f))
    else:
        c.summary_override(QS + ".handle_frame", lambda ctx, slf, f: None)
        c.summary_override(QF + ".PseudoVersionNegotiationFrame.__init__", lambda ctx, cls, **k: ctx.make_obj(cls))
    old_tls = c.opaque("tls_session_before")
    old_decs, old_keys = {"Initial": c.opaque("d")}, {"client_initial_hp": c.bytes("hp", length=16)}
    s = full_qsession(c, packet_buffer_quic=[pkt], tls_session=old_tls, decryptors=old_decs, keys=old_keys, hash_fun=c.opaque("h"), cipher=c.opaque("ci"),
                      key_length=16, alpn=c.opaque("alpn"), server_cids=c.new_set_of([]), client_cids=c.new_set_of([]))
    # the largest packet numbers received so far, per space and direction (RFC 9000 17.2.5.3: a Retry does NOT reset packet numbers)
    tables = {n: c.get(s, n) for n in ("packet_number_server", "packet_number_client")}
    for n, t in tables.items():
        for k in list(t):
            t[k] = c.int("largest_%s_%d" % (n[-6:], len(k)) + str(list(t).index(k)), 0, 2 ** 62 - 1)
    before = {n: dict(t) for n, t in tables.items()}
    out = c.method(s, "handle_quic_packet")
    c.ensure("no_raise", out.exc is None, kind="raises")
    if out.exc is not None:
        return
    g = lambda n: c.get(s, n)
    c.ensure("largest_received_packet_numbers_untouched", all(g(n) is tables[n] and set(tables[n]) == set(before[n]) and
                                                              all(c.same_object(tables[n][k], before[n][k]) for k in before[n]) for n in tables))
    c.ensure("buffer_emptied", len(g("packet_buffer_quic")) == 0)
    if ptype == "VERSION_NEG":
        ob = g("output_buffer")
        c.ensure("version_negotiation_frame_only_buffered", not crypto_calls and len(ob) == 1 and c.isinstance(ob[0], QF + ".PseudoVersionNegotiationFrame")
                 and c.get(ob[0], "src_packet") is pkt)
    c.ensure("decrypted_iff_protected_type", (decrypted == [pkt]) == (ptype not in ("RETRY", "VERSION_NEG")) and len(decrypted) <= 1)
    if ptype == "RETRY":
        # a FRESH TLS session (built by the real constructor, however that is written): not the old one, nothing parsed, nothing buffered
        nt = g("tls_session")
        fresh = nt is not old_tls and c.isinstance(nt, QT) and all(c.get(nt, a) is None for a in ("ciphersuite", "client_random", "alpn", "tls_vers"))
        if fresh:
            for side in ("server", "client"):
                fresh = fresh and all(v == 0 for v in c.get(nt, side + "_offset").values()) and all(len(v) == 0 for v in c.get(nt, side + "_frame_buffer").values()) \
                    and all(len(v) == 0 for v in c.get(nt, side + "_buffer").values())
        c.ensure("retry.fresh_tls_session", fresh)
        c.ensure("retry.keys_and_decryptors_dropped", len(g("decryptors")) == 0 and len(g("keys")) == 0 and g("hash_fun") is None
                 and g("cipher") is None and g("key_length") is None)
    else:
        c.ensure("handshake_state_kept", g("tls_session") is old_tls and g("decryptors") is old_decs and g("keys") is old_keys)
    sc, cc = g("server_cids"), g("client_cids")
    if ptype == "INITIAL":
        mine, other = (sc, cc) if c.truth_fork(isserver) else (cc, sc)
        c.ensure("initial.cids_registered_by_direction", len(mine.items) == 1 and mine.items[0] is scid and len(other.items) == 1 and other.items[0] is dcid)
    else:
        c.ensure("cids_untouched", len(sc.items) == 0 and len(cc.items) == 0)


@harness(["C02", "C15"], "quic.key_epoch", functions=[QS + ".check_key_epoch"], cases=[(True,), (False,)])
def h_key_epoch(c, isserver):
    """RFC 9001 6: a direction's key epoch advances exactly when ITS key-phase bit flips (the other direction's epoch and
    phase are untouched), and the list of 1-RTT decryptor generations is extended by exactly one key update of the LAST
    generation when an epoch reaches its end - so decryptors['Application'][n] is generation n for every epoch in use"""
    if c.native:
        return
    es, ec = c.int("epoch_server", 0, 50), c.int("epoch_client", 0, 50)
    ps, pc = c.int("phase_server", 0, 1), c.int("phase_client", 0, 1)
    bit = c.int("key_phase_bit", 0, 1)
    n = c.int("generations", 1, 60)
    c.assume((es < n) & (ec < n))                 # representation invariant: every epoch in use has its generation
    last = c.opaque("last_generation")
    gens = c.counted_list("generations_list", n, last)
    made = []
    c.summary_override("tlexport.quic.quic_key_generation.key_update", lambda ctx, dn, *a: made.append((dn, a)) or ctx.opaque("next_generation"))
    s = c.obj(QS, epoch_server=es, epoch_client=ec, last_key_phase_server=ps, last_key_phase_client=pc, decryptors={"Application": gens},
              hash_fun=c.opaque("hash"), key_length=16, cipher=c.opaque("cipher"), quic_version=c.opaque("v1"))
    out = c.method(s, "check_key_epoch", bit, isserver)
    c.ensure("no_raise", out.exc is None, kind="raises")
    if out.exc is not None:
        return
    g = lambda k: c.get(s, k)
    my_e, my_p, ot_e, ot_p = ("epoch_server", "last_key_phase_server", "epoch_client", "last_key_phase_client") if isserver else \
                             ("epoch_client", "last_key_phase_client", "epoch_server", "last_key_phase_server")
    old_e, old_p, oe, op = (es, ps, ec, pc) if isserver else (ec, pc, es, ps)
    flipped = old_p != bit
    c.ensure("own_epoch", g(my_e) == old_e + c.ite_(flipped, 1, 0))
    c.ensure("own_phase", g(my_p) == bit)
    c.ensure("other_direction_untouched", (g(ot_e) == oe) & (g(ot_p) == op))
    need = bor((old_e + c.ite_(flipped, 1, 0)) == n, oe == n)
    if c.truth_fork(need):
        c.ensure("one_update_of_the_last_generation", len(made) == 1 and made[0][0] is last and gens.appended == 1)
    else:
        c.ensure("no_update", len(made) == 0 and gens.appended == 0)
    c.ensure("every_epoch_has_its_generation", (g(my_e) < n + gens.appended) & (g(ot_e) < n + gens.appended))


@harness(["C15", "C02", "C14"], "quic.handle_crypto_frame", functions=[QS + ".handle_crypto_frame"],
         cases=[(nd, cr, cs, hs) for nd in (True, False) for cr in (True, False) for cs in (True, False) for hs in (True, False)])
def h_handle_crypto_frame(c, new_data, has_random, has_suite, has_handshake_keys):
    """RFC 9001 5: the packet protection keys follow the NEGOTIATED suite.  Whenever the TLS parser reports new data and both the
    client random and a cipher suite are known, the traffic keys are (re-)installed for exactly the CURRENT (client random,
    cipher suite) of the TLS session - also when keys derived earlier (from the suite the client offered first) are already
    installed; the frame is exported; the new-data flag is consumed"""
    if c.native:
        return
    random_, suite = (c.bytes("client_random", length=32) if has_random else None), (c.bytes("ciphersuite", length=2) if has_suite else None)
    alpn, grease = c.opaque("alpn"), c.bool("greasy_bit")
    frame = c.opaque("crypto_frame")
    updates, installs = [], []

    def s_update(m, a, k):
        # contract of QuicTlsSession.update_session: parses what the frame completes and publishes the results on the session
        updates.append(a)
        tls.attrs.update(new_data=new_data, client_random=random_, ciphersuite=suite, alpn=alpn, greasy_bit=grease)
    tls = c.recorder("tls_session", handler=lambda m, a, k: s_update(m, a, k) if m == "update_session" else None, new_data=False, client_random=None,
                         ciphersuite=None, alpn=None, greasy_bit=False)
    c.summary_override(QS + ".set_tls_decryptors", lambda ctx, slf, cr, cs: installs.append((cr, cs)))
    earlier = [c.opaque("earlier_frame")]
    decs = {"Initial": c.opaque("initial")}
    if has_handshake_keys:
        decs["Handshake"] = c.opaque("handshake_keys_of_the_first_offered_suite")
        decs["Application"] = [c.opaque("application_keys_of_the_first_offered_suite")]
    s = full_qsession(c, tls_session=tls, decryptors=decs, output_buffer=list(earlier), alpn=None, greasy_bit=False)
    if has_handshake_keys:
        # ... as left by the provisional installation for the suite the client offered first
        c.set(s, "cipher", c.opaque("aead_of_the_first_offered_suite"))
        c.set(s, "hash_fun", c.opaque("hash_of_the_first_offered_suite"))
        c.set(s, "key_length", 32)
        c.get(s, "keys").update({"client_handshake_hp": c.bytes("old_chp", length=32), "server_handshake_hp": c.bytes("old_shp", length=32)})
    out = c.method(s, "handle_crypto_frame", frame)
    c.ensure("no_raise", out.exc is None, kind="raises")
    if out.exc is not None:
        return
    c.ensure("tls_parser_fed_once_with_the_frame", len(updates) == 1 and len(updates[0]) == 1 and updates[0][0] is frame)
    if new_data and has_random and has_suite:
        c.ensure("keys_installed_for_the_current_random_and_suite", len(installs) == 1 and installs[0][0] is random_ and installs[0][1] is suite)
    else:
        c.ensure("no_keys_installed", len(installs) == 0)
    c.ensure("frame_exported_after_earlier_ones", len(c.get(s, "output_buffer")) == 2 and c.get(s, "output_buffer")[0] is earlier[0] and c.get(s, "output_buffer")[1] is frame)
    c.ensure("new_data_flag_consumed", c.get(tls, "new_data") is False)
    c.cover("returned")


h_handle_crypto_frame.must_cover = ["returned"]


QD = "tlexport.quic.quic_dissector"


@harness(["C02", "C03", "C15"], "quic.handle_packet", functions=[QS + ".handle_packet"], cases=[(True,), (False,)])
def h_handle_packet(c, has_initial):
    """one UDP datagram may carry several coalesced QUIC packets, and handling one of them can change the session (a CRYPTO frame
    fixes the cipher suite and installs keys, a Retry replaces keys and TLS state).  Loop contract of QuicSession.handle_packet,
    for ANY number of coalesced packets: every call of the dissector gets the session's CURRENT key table and CURRENT cipher suite
    (not the ones of an earlier iteration), the direction and connection ID of the datagram and the rest of the datagram; what it
    extracts is handed to handle_quic_packet before the next packet is dissected; Initial keys are set up once, always for AES;
    the loop terminates (variant: bytes left, by the dissector's progress contract robust.quic_dissector)"""
    if c.native:
        return
    from pyvc.api import len_
    QV = "tlexport.quic.quic_decode.QuicVersion"
    dcid = c.bytes("dcid", max_len=20)
    isserver = c.bool("isserver")
    version = c.enum(QV, c.choice("datagram_version", ["V1", "V2", "UNKNOWN"]))
    known = c.enum(QV, c.choice("session_version", ["V1", "UNKNOWN"]))
    pkt = c.obj("tlexport.packet.Packet", tls_data=c.bytes("datagram", min_len=1))
    s = full_qsession(c, quic_version=known, decryptors=({"Initial": c.opaque("initial_decryptor")} if has_initial else {}), keys={"k": c.opaque("key")},
                      tls_session=c.record("QuicTlsSession", ciphersuite=None), packet_buffer_quic=[])
    events, initial = [], []

    def scramble(tag):
        """whatever handling a packet may do to the handshake state: suite fixed or changed, keys added, or (Retry) both replaced"""
        how = c.E.choose(3)
        if how == 0:
            return
        suite = c.bytes_fresh("suite_" + tag, 2, 2)
        if how == 1:
            c.get(s, "tls_session").attrs["ciphersuite"] = suite
            c.get(s, "keys")["added_" + tag] = c.opaque("key")
        else:
            c.set(s, "tls_session", c.record("QuicTlsSession", ciphersuite=suite))
            c.set(s, "keys", {})
    c.summary_override(QS + ".set_initial_decryptor", lambda ctx, slf, d, chacha: initial.append((d, chacha)) or slf.attrs["decryptors"].__setitem__("Initial", c.opaque("initial")))
    c.summary_override(QS + ".packet_isserver", lambda ctx, slf, p, d: isserver)

    def s_extract(ctx, in_packet=None, isserver=None, guessed_dcid=None, keys=None, ciphersuite=None):
        cur = c.get(s, "tls_session")
        c.ensure("dissector.gets_the_current_key_table", keys is c.get(s, "keys"))
        c.ensure("dissector.gets_the_current_cipher_suite", ciphersuite is c.get(cur, "ciphersuite"))
        c.ensure("dissector.gets_the_datagram's_direction_and_connection_id", c.same_object(isserver, h_isserver[0]) and guessed_dcid is dcid)
        c.ensure("dissector.gets_the_rest_of_the_datagram", in_packet is pkt)
        old = len_(c.get(in_packet, "tls_data"))
        rest = c.bytes_fresh("rest", 0, None)
        c.assume(len_(rest) < old)                                   # progress: robust.quic_dissector.consumes_input
        c.set(in_packet, "tls_data", rest)
        qp = c.opaque("quic_packet")
        events.append(("extract", qp))
        return [qp], in_packet
    h_isserver = [isserver]
    c.summary_override(QD + ".extract_quic_packet", s_extract)

    def s_handle(ctx, slf):
        buf = slf.attrs["packet_buffer_quic"]
        events.append(("handle", list(buf)))
        del buf[:]
        scramble("h%d" % len(events))
    c.summary_override(QS + ".handle_quic_packet", s_handle)

    def ghost(phase, e):
        if phase == "havoc":
            del events[:]
            scramble("loop_head")                                     # the state at the head of an arbitrary iteration
            c.set(pkt, "tls_data", c.bytes_fresh("datagram_rest", 0, None))
        elif phase == "step":
            c.ensure("extracted_packets_handled_before_the_next_is_dissected", len(events) == 2 and events[0][0] == "extract" and events[1][0] == "handle"
                     and len(events[1][1]) == 1 and events[1][1][0] is events[0][1])
            c.cover("iteration")
    c.loop(QS + ".handle_packet", "while len(packet.tls_data) != 0", invariant=lambda e: e.packet is pkt and e.self.attrs["packet_buffer_quic"] == [],
           decreases=lambda e: len_(c.get(pkt, "tls_data")), havoc={"packet": lambda cur: pkt, "quic_packets": lambda cur: None, "self.packet_buffer_quic": lambda cur: []}, ghost_step=ghost)
    out = c.method(s, "handle_packet", pkt, dcid, version)
    c.ensure("no_raise", out.exc is None, kind="raises")
    if out.exc is not None:
        return
    c.ensure("initial_keys.set_up_once_for_aes_iff_missing", initial == ([] if has_initial else [(dcid, False)]))
    c.ensure("version_learned_from_the_first_datagram", c.get(s, "quic_version") is (known if known is not c.enum(QV, "UNKNOWN") else version))
    c.cover("returned")


h_handle_packet.must_cover = ["returned", "iteration"]


@harness(["C02", "C15"], "quic.retry_then_new_handshake", functions=[QS + ".handle_crypto_frame", QS + ".handle_quic_packet"], cases=[(True,), (False,)])
def h_retry_rehandshake(c, same_hello):
    """a HISTORY across two functions: keys installed from the first ClientHello, then a Retry (which drops keys, decryptors and TLS
    state), then the ClientHello again - with the same random and offered suite (RFC 9000 17.2.5: the client repeats its hello) or a
    different one.  After the second hello the handshake keys must be installed again for the current (client random, suite):
    nothing remembered from before the Retry may suppress it"""
    if c.native:
        return
    r1, s1 = c.bytes("client_random", length=32), c.bytes("first_offered_suite", length=2)
    r2, s2 = (r1, s1) if same_hello else (c.bytes("client_random_after_retry", length=32), c.bytes("suite_after_retry", length=2))
    hello = {"now": (r1, s1)}
    installs = []

    def s_update(ctx, slf, frame):
        slf.attrs.update(new_data=True, client_random=hello["now"][0], ciphersuite=hello["now"][1], alpn=None, greasy_bit=False)
    c.summary_override(QT + ".update_session", s_update)
    c.summary_override(QT + ".__init__", lambda ctx, cls: ctx.make_obj(cls, new_data=False, client_random=None, ciphersuite=None, alpn=None, greasy_bit=False))

    def s_install(ctx, slf, cr, cs):
        # contract of set_tls_decryptors for a complete key log (quic.keystate.install.complete_secrets / keys.quic_traffic_installed)
        installs.append((cr, cs))
        slf.attrs["decryptors"]["Handshake"] = ctx.opaque("handshake_decryptor")
        slf.attrs["decryptors"]["Application"] = [ctx.opaque("application_decryptor")]
        slf.attrs["keys"].update({"client_handshake_hp": ctx.bytes_fresh("chp", 16, 16), "server_handshake_hp": ctx.bytes_fresh("shp", 16, 16)})
        slf.attrs.update(cipher=ctx.opaque("aead"), hash_fun=ctx.opaque("hash"), key_length=16)
    c.summary_override(QS + ".set_tls_decryptors", s_install)
    c.summary_override(QS + ".decrypt_packet", lambda ctx, slf, p: None)
    s = full_qsession(c)
    c.set(s, "decryptors", {"Initial": c.opaque("initial")})
    out = c.method(s, "handle_crypto_frame", c.opaque("client_hello_frame"))
    c.ensure("no_raise", out.exc is None, kind="raises")
    if out.exc is not None:
        return
    c.ensure("first_hello.keys_installed", len(installs) == 1 and installs[0][0] is r1 and installs[0][1] is s1)
    retry = c.record("QuicPacket", packet_type=c.enum(PT, "RETRY"), isserver=True, dcid=c.bytes("dcid", max_len=20), scid=c.bytes("scid", max_len=20))
    c.set(s, "packet_buffer_quic", [retry])
    out = c.method(s, "handle_quic_packet")
    c.ensure("no_raise", out.exc is None, kind="raises")
    if out.exc is not None:
        return
    c.ensure("retry.handshake_keys_dropped", "Handshake" not in c.get(s, "decryptors"))
    hello["now"] = (r2, s2)
    out = c.method(s, "handle_crypto_frame", c.opaque("client_hello_frame_after_retry"))
    c.ensure("no_raise", out.exc is None, kind="raises")
    if out.exc is not None:
        return
    c.ensure("after_retry.keys_installed_again_for_the_current_hello", len(installs) == 2 and installs[1][0] is r2 and installs[1][1] is s2
             and "Handshake" in c.get(s, "decryptors"))
    c.cover("returned")


h_retry_rehandshake.must_cover = ["returned"]


@harness(["C02"], "quic.packet_frames_end_to_end", functions=[QS + ".decrypt_packet", QS + ".handle_frame", QF + ".parse_frames", QF + ".NewConnectionIdFrame.__init__",
                                                                     QF + ".StreamFrame.__init__"], cases=[(True,), (False,)], timeout=20000,
         inline=[QF + ".NewConnectionIdFrame.__init__", QF + ".StreamFrame.__init__", QF + ".Frame.__init__", QF + ".parse_frames"])
def h_frames_end_to_end(c, isserver):
    """COMPOSITION across parse_frames, the frame constructors and handle_frame, all from their real bodies: a 1-RTT packet whose
    plaintext is NEW_CONNECTION_ID followed by STREAM (the typical first server flight) - the connection ID is registered for its
    sender AND the stream data behind it is exported.  (Per-function contracts fix the VALUES of the parsed fields; whether those
    values can be used the way the session uses them - hashed into the set of connection IDs - is a property of the composition.)"""
    if c.native:
        return
    from contracts.quic_varint import enc_varint
    cid = c.bytes("new_connection_id", min_len=1, max_len=20)
    token = c.bytes("stateless_reset_token", length=16)
    seqno, retire = c.int("sequence_number", 0, 63), c.int("retire_prior_to", 0, 63)
    sid, off = c.int("stream_id", 0, 63), c.int("stream_offset", 0, 63)
    data = c.bytes("stream_data", min_len=1, max_len=63)
    ncid = cat(const(b"\x18"), enc_varint(c, "seq", seqno, 1), enc_varint(c, "retire", retire, 1), c.bytes_of([len_(cid)]), cid, token)
    stream = cat(const(b"\x0e"), enc_varint(c, "sid", sid, 1), enc_varint(c, "off", off, 1), enc_varint(c, "len", len_(data), 1), data)
    plain = cat(ncid, stream)
    dec = c.recorder("decryptor", handler=lambda m, a, k: plain)
    pkt = c.obj(QP + ".ShortQuicPacket", packet_type=c.enum(PT, "RTT_1"), isserver=isserver, first_byte=c.bytes("fb", length=1), dcid=c.bytes("dcid", max_len=20),
                packet_num=c.bytes("pn", min_len=1, max_len=4), payload=c.bytes("payload"), key_phase=0, ts=1.0)
    c.summary_override(QS + ".get_full_packet_number", lambda ctx, slf, p: c.bytes_fresh("full_pn", 8, 8))
    c.summary_override(QS + ".check_key_epoch", lambda ctx, slf, kp, srv: None)
    s = full_qsession(c, decryptors={"Application": [dec]}, epoch_server=0, epoch_client=0, output_buffer=[], server_cids=c.new_set_of([]), client_cids=c.new_set_of([]))
    out = c.method(s, "decrypt_packet", pkt)
    c.ensure("no_raise", out.exc is None, kind="raises")
    if out.exc is not None:
        return
    ob = c.get(s, "output_buffer")
    c.ensure("stream_data_behind_the_connection_id_frame_is_exported", len(ob) == 1 and c.has(ob[0], "stream_data") and c.prove(eq(c.get(ob[0], "stream_data"), data)))
    mine, other = (c.get(s, "server_cids"), c.get(s, "client_cids")) if isserver else (c.get(s, "client_cids"), c.get(s, "server_cids"))
    c.ensure("connection_id_registered_for_its_sender", len(mine.items) == 1 and c.prove(eq(mine.items[0], cid)) and len(other.items) == 0)
    c.cover("returned")


h_frames_end_to_end.must_cover = ["returned"]
