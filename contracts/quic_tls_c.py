"""C02 / C15 (link 'TLS messages inside CRYPTO streams'): QuicTlsSession.handle_buffer, handle_record, handle_client_hello,
handle_server_hello.  What QUIC key selection depends on is read from the handshake exactly as RFC 8446 4.1.2 / 4.1.3 lay it
out: the client random (it selects the key-log lines), the cipher suite the SERVER selected (it selects hash, AEAD and key
length), provisionally the client's first offered suite (for 0-RTT)."""
from pyvc.api import harness, eq, band, bor, bnot, len_, cat, const, be

QT = "tlexport.quic.quic_tls_parser.QuicTlsSession"
PT = "tlexport.quic.quic_packet.QuicPacketType"


def be3(c, name, v):
    return c.encode_be(name, v, 3)


@harness(["C02", "C15"], "quic.tls.client_hello", functions=[QT + ".handle_client_hello"])
def h_client_hello(c):
    """ClientHello = 01 | length(3) | legacy_version(2) | random(32) | session_id<0..32> | cipher_suites<2..2^16-2> |
    compression_methods<1..255> | extensions<..>: the session learns exactly the random, and the FIRST offered suite
    (provisional, for 0-RTT keys); the extension block - and nothing else - goes to get_extensions"""
    if c.native:
        return
    version, random_ = c.bytes("legacy_version", length=2), c.bytes("random", length=32)
    sid = c.bytes("session_id", max_len=32)
    n_suites = c.int("n_cipher_suites", 1, 32767)
    suites = c.bytes("cipher_suites", length=2 * n_suites)
    cms = c.bytes("compression_methods", min_len=1, max_len=255)
    exts = c.bytes("extensions_with_their_length_prefix", min_len=2)
    body = cat(version, random_, c.bytes_of([len_(sid)]), sid, c.encode_be("suites_len", 2 * n_suites, 2), suites, c.bytes_of([len_(cms)]), cms, exts)
    c.assume(len_(body) < 2 ** 24)
    msg = cat(const(b"\x01"), be3(c, "msg_len", len_(body)), body)
    seen = []
    c.summary_override(QT + ".get_extensions", lambda ctx, slf, rec: seen.append(rec))
    s = c.obj(QT, ciphersuite=None, client_random=None, alpn=None, tls_vers=None, new_data=False, greasy_bit=False)
    out = c.method(s, "handle_client_hello", msg)
    c.ensure("no_raise", out.exc is None, kind="raises")
    if out.exc is not None:
        return
    c.ensure("client_random", c.get(s, "client_random") is not None and c.prove(eq(c.get(s, "client_random"), random_)))
    c.ensure("first_offered_suite_provisionally", c.get(s, "ciphersuite") is not None and c.prove(eq(c.get(s, "ciphersuite"), suites[0:2])))
    c.ensure("extensions_block_handed_on", len(seen) == 1 and c.prove(eq(seen[0], exts)))
    c.ensure("new_data_flag", c.get(s, "new_data") is True)
    c.cover("parsed")


h_client_hello.must_cover = ["parsed"]


@harness(["C02", "C15"], "quic.tls.server_hello", functions=[QT + ".handle_server_hello"])
def h_server_hello(c):
    """ServerHello = 02 | length(3) | legacy_version(2) | random(32) | legacy_session_id_echo<0..32> | cipher_suite(2) |
    compression_method(1) | extensions<..>: the session's cipher suite becomes the SELECTED one"""
    if c.native:
        return
    version, random_ = c.bytes("legacy_version", length=2), c.bytes("random", length=32)
    sid = c.bytes("session_id_echo", max_len=32)
    suite = c.bytes("selected_cipher_suite", length=2)
    exts = c.bytes("extensions_with_their_length_prefix", min_len=2)
    body = cat(version, random_, c.bytes_of([len_(sid)]), sid, suite, const(b"\x00"), exts)
    c.assume(len_(body) < 2 ** 24)
    c.assume(len_(body) >= 40)          # RFC 8446: supported_versions and key_share are mandatory, so the extension block is never that short
    msg = cat(const(b"\x02"), be3(c, "msg_len", len_(body)), body)
    seen = []
    c.summary_override(QT + ".get_extensions", lambda ctx, slf, rec: seen.append(rec))
    offered_first = c.bytes("first_offered_suite", length=2)
    s = c.obj(QT, ciphersuite=offered_first, client_random=c.bytes("client_random", length=32), alpn=None, tls_vers=None, new_data=False, greasy_bit=False)
    out = c.method(s, "handle_server_hello", msg)
    c.ensure("no_raise", out.exc is None, kind="raises")
    if out.exc is not None:
        return
    c.ensure("selected_suite_replaces_the_provisional_one", c.prove(eq(c.get(s, "ciphersuite"), suite)))
    c.ensure("extensions_block_handed_on", len(seen) == 1 and c.prove(eq(seen[0], exts)))
    c.ensure("new_data_flag", c.get(s, "new_data") is True)
    c.cover("parsed")


h_server_hello.must_cover = ["parsed"]


@harness(["C02"], "quic.tls.handle_buffer", functions=[QT + ".handle_buffer", QT + ".handle_record"], cases=[(srv, lvl) for srv in (True, False) for lvl in ("INITIAL", "HANDSHAKE")],
         timeout=20000)
def h_handle_buffer(c, isserver, level):
    """the reassembled CRYPTO stream of a level is cut into handshake messages (type(1) | length(3) | body): every COMPLETE message
    is dispatched once, in order, as a whole (ClientHello / ServerHello / EncryptedExtensions to their parsers, others ignored);
    an incomplete tail stays in the buffer for the next CRYPTO frame; other levels and the other direction are untouched.
    BOUNDED: two complete messages followed by an incomplete one per call."""
    if c.native:
        return
    t1, t2 = c.choice("type1", [1, 2, 8, 11]), c.choice("type2", [1, 2, 8, 20])
    b1, b2 = c.bytes("body1", min_len=1), c.bytes("body2", min_len=1)
    c.assume(band(len_(b1) < 2 ** 24, len_(b2) < 2 ** 24))
    m1 = cat(c.bytes_of([t1]), be3(c, "len1", len_(b1)), b1)
    m2 = cat(c.bytes_of([t2]), be3(c, "len2", len_(b2)), b2)
    # an incomplete message: fewer than its 4 header bytes, or a header announcing more than is there
    tail = c.bytes("incomplete_tail", max_len=3) if c.nondet("tail_is_short") else None
    if tail is None:
        have = c.bytes("tail_body_so_far")
        announced = c.int("announced_length", 1, 2 ** 24 - 1)
        c.assume(len_(have) < announced)
        tail = cat(c.bytes_of([c.int("tail_type", 0, 255)]), be3(c, "tail_len", announced), have)
    lv = c.enum(PT, level)
    others = [c.enum(PT, x) for x in ("INITIAL", "RTT_O", "RTT_1", "HANDSHAKE") if x != level]
    mine, other = ("server_buffer", "client_buffer") if isserver else ("client_buffer", "server_buffer")
    bufs = {mine: {lv: cat(m1, m2, tail)}, other: {lv: c.bytes("other_direction")}}
    for o in others:
        bufs[mine][o] = const(b"")
        bufs[other][o] = const(b"")
    calls = []
    for n in ("handle_client_hello", "handle_server_hello", "handle_encrypted_extensions"):
        c.summary_override(QT + "." + n, (lambda n: lambda ctx, slf, rec: calls.append((n, rec)))(n))
    s = c.obj(QT, **bufs)
    other_before = dict(bufs[other])
    out = c.method(s, "handle_buffer", isserver)
    c.ensure("no_raise", out.exc is None, kind="raises")
    if out.exc is not None:
        return
    want = [(n, m) for t, m in ((t1, m1), (t2, m2)) for n in [{1: "handle_client_hello", 2: "handle_server_hello", 8: "handle_encrypted_extensions"}.get(t)] if n]
    c.ensure("complete_messages_dispatched_once_in_order", len(calls) == len(want) and all(a[0] == b[0] and c.prove(eq(a[1], b[1])) for a, b in zip(calls, want)))
    c.ensure("incomplete_tail_kept", c.prove(eq(c.get(s, mine)[lv], tail)))
    c.ensure("other_levels_and_direction_untouched", all(c.get(s, other)[k] is v for k, v in other_before.items()) and all(len_(c.get(s, mine)[o]) == 0 for o in others))
    c.cover("returned")


h_handle_buffer.must_cover = ["returned"]
