"""C17 (part 1): RFC 9000 section 16 variable-length integers.

Spec functions are written from the RFC, not from the code.  The two helpers are proved EQUAL to
their summaries (same raise condition, same value); everything else in C17 uses only the summaries.
"""
from pyvc.api import harness, summary, len_, ite, const, cat

QD = "tlexport.quic.quic_decode"


def varint_len(b0):
    """RFC 9000 16: the two most significant bits of the first byte encode log2 of the length"""
    if b0 < 64:
        return 1
    if b0 < 128:
        return 2
    if b0 < 192:
        return 4
    return 8


def varint_value(b, L):
    """value = the remaining 6 + 8*(L-1) bits in network byte order (Horner form: linear)"""
    v = b[0] % 64
    for i in range(1, L):
        v = v * 256 + b[i]
    return v


def varint_len_merged(ctx, b0):
    """same function as varint_len, but without forking the path: concrete when the width is already
    determined by the path condition, otherwise one if-then-else term (keeps callers' path counts small)"""
    for lo, hi, L in ((0, 64, 1), (64, 128, 2), (128, 192, 4), (192, 256, 8)):
        if ctx.prove((b0 >= lo) & (b0 < hi)):
            return L
    return ite(b0 < 64, 1, ite(b0 < 128, 2, ite(b0 < 192, 4, 8)))


def varint_value_merged(ctx, b, L):
    if isinstance(L, int):
        return varint_value(b, L)
    n = len_(b)
    v = None
    for w in (8, 4, 2, 1):
        if isinstance(n, int) and n < w:
            continue
        vw = varint_value(b, w)
        v = vw if v is None else ite(L == w, vw, v)
    return v


@summary(QD + ".get_variable_length_int_length")
def s_varint_length(ctx, first_byte_of_variable_int):
    b = first_byte_of_variable_int
    if len_(b) == 0:
        ctx.raise_("IndexError")
    return varint_len_merged(ctx, b[0])


@summary(QD + ".decode_variable_length_int")
def s_varint_decode(ctx, variable_integer):
    b = variable_integer
    if len_(b) == 0:
        ctx.raise_("IndexError")
    L = varint_len_merged(ctx, b[0])
    if len_(b) < L:
        ctx.raise_("IndexError")
    return varint_value_merged(ctx, b, L)


@harness("C17", "varint.length", functions=[QD + ".get_variable_length_int_length"])
def h_len(c):
    b = c.bytes("first_byte_of_variable_int")
    got = c.call(QD + ".get_variable_length_int_length", b)
    want = c.spec(s_varint_length, b)
    c.same_outcome("eq_spec", got, want)


@harness("C17", "varint.decode", functions=[QD + ".decode_variable_length_int"])
def h_dec(c):
    b = c.bytes("variable_integer")
    got = c.call(QD + ".decode_variable_length_int", b)
    want = c.spec(s_varint_decode, b)
    c.same_outcome("eq_spec", got, want)
    if got.exc is None:
        c.ensure("range", (got.value >= 0) & (got.value < 2 ** 62))


def enc_varint(c, name, v, w):
    """the w-byte encoding of v (w in 1,2,4,8; non-minimal encodings included). Symbolic mode: the
    digits are free variables tied to v by a Horner equation; native mode: computed."""
    d = c.encode_be(name, v, w, first_max=63)
    prefix = {1: 0, 2: 64, 4: 128, 8: 192}[w]
    return cat(c.bytes_of([d[0] + prefix]), d[1:])


@harness("C17", "varint.roundtrip", functions=[QD + ".decode_variable_length_int", QD + ".get_variable_length_int_length"],
         cases=[(1,), (2,), (4,), (8,)])
def h_roundtrip(c, w):
    """lemma varint_roundtrip: for all v < 2^(8w-2): decode(enc(v, w) ++ rest) == v and length == w"""
    v = c.int("v", 0, 2 ** (8 * w - 2) - 1)
    rest = c.bytes("rest")
    e = enc_varint(c, "e", v, w)
    got = c.call(QD + ".decode_variable_length_int", cat(e, rest))
    c.ensure("no_raise", got.exc is None, kind="raises")
    if got.exc is None:
        c.ensure("value", got.value == v)
    gl = c.call(QD + ".get_variable_length_int_length", cat(e, rest)[0:1])
    c.ensure("len.no_raise", gl.exc is None, kind="raises")
    if gl.exc is None:
        c.ensure("len.value", gl.value == w)
