"""C01 (links 'dispatch', 'record protection', 'TLS 1.3 inner plaintext'): decryptor.py and the TLS 1.3 handlers.

Each decrypt_* function is proved to hand the library primitive exactly the RFC's key (by direction), nonce,
additional data and ciphertext, to return what the record protection removes (explicit nonce/IV, padding, MAC),
and to update only its own direction's cipher state.  AEAD objects and cipher contexts are recorders; block and
stream decryption are stated as round trips (the context returns the protected plaintext structure)."""
from pyvc.api import harness, eq, band, bor, bnot, len_, cat, const, implies, ite

DEC = "tlexport.decryptor.Decryptor"
SE = "tlexport.session.Session"
AEADM = "cryptography.hazmat.primitives.ciphers.aead."
ALG = "cryptography.hazmat.primitives.ciphers.algorithms."
CIPH = "cryptography.hazmat.primitives.ciphers."
TV = "tlexport.tlsversion.TlsVersion"


def make_record(c, rtype=0x17, min_len=0):
    frag = c.bytes("fragment", min_len=min_len, max_len=17000)
    ver = c.bytes("record_version", length=2)
    ln = c.encode_be("record_length", len_(frag), 2)
    raw = cat(c.bytes_of([rtype]), ver, ln, frag)
    rec = c.obj("tlexport.tlsrecord.TlsRecord", binary=frag, record_type=rtype, record_version=ver, record_length=ln, raw=raw,
                metadata=[], isserver=True)
    return rec, frag, ver, ln


def aead_world(c, names):
    made, plain = [], c.bytes("aead_plaintext", max_len=17000)
    fails = c.bool("authentication_fails")

    def open_(m, args, k):
        if c.truth_fork(fails):
            c.raise_in_code("InvalidTag")
        return plain
    for n in names:
        def ctor(key, *a, _n=n):
            r = c.recorder("aead:" + _n, handler=open_, key=key, ctor_args=a)
            made.append((_n, key, a, r))
            return r
        c.lib_model(AEADM + n, ctor)
    return made, plain


def xor_pad(c, iv, seq_bytes):
    """iv XOR (seq left-padded with zeros to len(iv))"""
    n, m = len_(iv), len_(seq_bytes)
    return c.bytes_of([iv[i] ^ (seq_bytes[i - (n - m)] if i >= n - m else 0) for i in range(n)])


@harness("C01", "protect.tls13_aead", functions=[DEC + ".decrypt_tls13_aead", DEC + ".decrypt_tls13_stream_cipher", "tlexport.decryptor.byte_xor"],
         cases=[(a, s) for a in ("AESGCM", "AESCCM", "ChaCha20Poly1305") for s in (True, False)])
def h_tls13(c, aead, isserver):
    """RFC 8446 5.2/5.3: AEAD-Decrypt(peer_write_key, nonce = write_iv XOR seq (64 bit, left padded), additional data =
    the 5-byte record header, the whole fragment); own sequence number += 1, the other direction untouched"""
    if c.native:
        return
    made, plain = aead_world(c, ["AESGCM", "AESCCM", "ChaCha20Poly1305"])
    rec, frag, ver, ln = make_record(c)
    sk, ck = c.bytes("server_key", length=32), c.bytes("client_key", length=32)
    siv, civ = c.bytes("server_iv", length=12), c.bytes("client_iv", length=12)
    sseq, cseq = c.int("server_seq", 0, 2 ** 63), c.int("client_seq", 0, 2 ** 63)
    tag = c.choice("tag_length", [8, 16]) if aead == "AESCCM" else 16
    d = c.obj(DEC, server_key=sk, client_key=ck, server_iv=siv, client_iv=civ, server_seq=sseq, client_seq=cseq,
              bulk_alg=c.external(AEADM + aead), tag_length=tag)
    meth = "decrypt_tls13_stream_cipher" if aead == "ChaCha20Poly1305" else "decrypt_tls13_aead"
    out = c.method(d, meth, rec, isserver)
    if out.exc is not None:
        # a record that does not authenticate leaves the cipher state as it was (no sequence number is consumed)
        c.ensure("failure.only_authentication", out.exc == "InvalidTag", kind="raises")
        c.ensure("failure.state_unchanged", band(c.get(d, "server_seq") == sseq, c.get(d, "client_seq") == cseq))
        return
    key, iv, seq = (sk, siv, sseq) if isserver else (ck, civ, cseq)
    c.ensure("one_aead_object_of_the_suite", len(made) == 1 and made[0][0] == aead and made[0][1] is key)
    if len(made) != 1:
        return
    if aead == "AESCCM":
        c.ensure("ccm_tag_length", len(made[0][2]) == 1 and made[0][2][0] == tag)
    calls = c.calls(made[0][3])
    c.ensure("one_decrypt_call", len(calls) == 1 and calls[0][0] == "decrypt" and len(calls[0][1]) == 3)
    if len(calls) != 1:
        return
    nonce, ct, aad = calls[0][1]
    want_nonce = xor_pad(c, iv, c.encode_be("seq64", seq, 8))
    c.ensure("nonce", eq(nonce, want_nonce))
    c.ensure("additional_data_is_record_header", eq(aad, cat(c.bytes_of([0x17]), ver, ln)))
    c.ensure("ciphertext_is_whole_fragment", eq(ct, frag))
    c.ensure("returns_aead_output", eq(out.value, plain))
    g = lambda n: c.get(d, n)
    c.ensure("sequence_numbers", band(g("server_seq") == sseq + (1 if isserver else 0), g("client_seq") == cseq + (0 if isserver else 1)))
    c.ensure("keys_untouched", g("server_key") is sk and g("client_key") is ck and g("server_iv") is siv and g("client_iv") is civ)


@harness("C01", "protect.tls12_aead", functions=[DEC + ".decrypt_tls12_aead", DEC + ".decrypt_tls12_chacha20"],
         cases=[(a, s) for a in ("AESGCM", "AESCCM", "ChaCha20Poly1305") for s in (True, False)])
def h_tls12_aead(c, aead, isserver):
    """RFC 5246 6.2.3.3 + RFC 5288/6655: nonce = salt (4, the write IV) || explicit nonce (first 8 fragment bytes);
    additional data = seq(8) || type || version || plaintext length (= fragment - 8 - tag); ciphertext = fragment[8:].
    RFC 7905 (ChaCha20): nonce = write_iv XOR padded seq, ciphertext = whole fragment, plaintext length = fragment - 16."""
    if c.native:
        return
    made, plain = aead_world(c, ["AESGCM", "AESCCM", "ChaCha20Poly1305"])
    chacha = aead == "ChaCha20Poly1305"
    tag = 16 if aead != "AESCCM" else c.choice("tag_length", [8, 16])
    rec, frag, ver, ln = make_record(c, min_len=(16 if chacha else 8 + tag))
    sk, ck = c.bytes("server_key", length=32), c.bytes("client_key", length=32)
    ivlen = 12 if chacha else 4
    siv, civ = c.bytes("server_iv", length=ivlen), c.bytes("client_iv", length=ivlen)
    sseq, cseq = c.int("server_seq", 0, 2 ** 63), c.int("client_seq", 0, 2 ** 63)
    d = c.obj(DEC, server_key=sk, client_key=ck, server_iv=siv, client_iv=civ, server_seq=sseq, client_seq=cseq,
              bulk_alg=c.external(AEADM + aead), tag_length=tag, compression_method=0)
    out = c.method(d, "decrypt_tls12_chacha20" if chacha else "decrypt_tls12_aead", rec, isserver)
    if out.exc is not None:
        c.ensure("failure.only_authentication", out.exc == "InvalidTag", kind="raises")
        c.ensure("failure.state_unchanged", band(c.get(d, "server_seq") == sseq, c.get(d, "client_seq") == cseq))
        return
    key, iv, seq = (sk, siv, sseq) if isserver else (ck, civ, cseq)
    c.ensure("one_aead_object_of_the_suite", len(made) == 1 and made[0][0] == aead and made[0][1] is key)
    if len(made) != 1:
        return
    calls = c.calls(made[0][3])
    c.ensure("one_decrypt_call", len(calls) == 1 and calls[0][0] == "decrypt" and len(calls[0][1]) == 3)
    if len(calls) != 1:
        return
    nonce, ct, aad = calls[0][1]
    seq8 = c.encode_be("seq64", seq, 8)
    if chacha:
        c.ensure("nonce", eq(nonce, xor_pad(c, iv, seq8)))
        c.ensure("ciphertext", eq(ct, frag))
        plen = len_(frag) - 16
    else:
        c.ensure("nonce", eq(nonce, cat(iv, frag[0:8])))
        c.ensure("ciphertext", eq(ct, frag[8:]))
        plen = len_(frag) - 8 - tag
    c.ensure("additional_data", eq(aad, cat(seq8, c.bytes_of([0x17]), ver, c.encode_be("plen", plen, 2))))
    c.ensure("returns_aead_output", eq(out.value, plain))
    g = lambda n: c.get(d, n)
    c.ensure("sequence_numbers", band(g("server_seq") == sseq + (1 if isserver else 0), g("client_seq") == cseq + (0 if isserver else 1)))


def cbc_world(c, block):
    """Cipher(alg(key), CBC(iv)).decryptor(): update() returns the protected structure content || MAC || padding
    (dec(enc(x)) = x is the assumed contract of CBC); everything it was built with is recorded"""
    made = []
    data = c.bytes("content", max_len=16000)
    return made, data


@harness("C01", "protect.block_explicit_iv", functions=[DEC + ".decrypt_tls12_block_cipher"],
         cases=[(alg, bs, etm, s) for alg, bs in (("AES", 16), ("Camellia", 16), ("TripleDES", 8), ("IDEA", 8)) for etm in (False, True) for s in (True, False)])
def h_block_explicit(c, alg, bs, etm, isserver):
    """TLS 1.1/1.2 CBC (RFC 5246 6.2.3.2): IV = first block of the fragment; ciphertext = the rest (minus the trailing MAC
    with encrypt-then-MAC, RFC 7366); decrypted = content || MAC || padding(pad_len+1 bytes); returned = content"""
    if c.native:
        return
    maclen = c.choice("mac_length", [16, 20, 32, 48])
    content = c.bytes("content", max_len=16000)
    pad = c.int("pad_len", 0, 255)
    padding = c.fill(pad, pad + 1)
    mac = c.bytes("mac", length=maclen)
    decrypted = cat(content, padding) if etm else cat(content, mac, padding)
    seen = {}

    def mk_cipher(algorithm, mode=None, **k):
        seen["alg"], seen["mode"] = algorithm, mode
        ctx = c.recorder("cbc_context", handler=lambda m, a, kk: (seen.__setitem__("ct", a[0]), decrypted)[1] if m == "update" else const(b""))
        return c.recorder("cipher", handler=lambda m, a, kk: ctx)
    c.lib_model(CIPH + "Cipher", mk_cipher)
    rec, frag, ver, ln = make_record(c, min_len=bs)
    sk, ck = c.bytes("server_key", length=24), c.bytes("client_key", length=24)
    d = c.obj(DEC, server_key=sk, client_key=ck, bulk_alg=c.external(ALG + alg), encrypt_then_mac=etm, mac_length=maclen, compression_method=0)
    out = c.method(d, "decrypt_tls12_block_cipher", rec, isserver)
    c.ensure("no_raise", out.exc is None, kind="raises")
    if out.exc is not None:
        return
    key = sk if isserver else ck
    c.ensure("cipher_built", "alg" in seen and "ct" in seen)
    if "ct" not in seen:
        return
    a, m = seen["alg"], seen["mode"]
    c.ensure("algorithm_and_key", c.is_lib_obj(a, "alg:" + alg) and c.get(a, "key") is key)
    c.ensure("explicit_iv_is_first_block", c.is_lib_obj(m, "mode:CBC") and eq(c.get(m, "iv"), frag[0:bs]))
    rest = frag[bs:]
    from pyvc.api import smax
    c.ensure("ciphertext", eq(seen["ct"], rest[0:smax(0, len_(rest) - maclen)] if etm else rest))
    c.ensure("returns_content", eq(out.value, content))


@harness("C01", "protect.block_chained_iv", functions=[DEC + ".decrypt_last_block_iv_cbc"],
         cases=[(alg, bl, s) for alg, bl in (("AES", 128), ("TripleDES", 64)) for s in (True, False)])
def h_block_chained(c, alg, block_bits, isserver):
    """SSL 3.0 / TLS 1.0 CBC (RFC 2246 6.2.3.2): IV = last ciphertext block of the previous record of the SAME direction
    (initially the key block's IV); afterwards the residue is this record's last block; the other direction's residue is
    untouched; returned = content (decrypted minus padding and MAC)"""
    if c.native:
        return
    bs = block_bits // 8
    maclen = c.choice("mac_length", [16, 20])
    content = c.bytes("content", max_len=16000)
    pad = c.int("pad_len", 0, 255)
    decrypted = cat(content, c.bytes("mac", length=maclen), c.fill(pad, pad + 1))
    seen = {}

    def mk_cipher(algorithm, mode=None, **k):
        seen["alg"], seen["mode"] = algorithm, mode
        ctx = c.recorder("cbc_context", handler=lambda m, a, kk: (seen.__setitem__("ct", a[0]), decrypted)[1] if m == "update" else const(b""))
        return c.recorder("cipher", handler=lambda m, a, kk: ctx)
    c.lib_model(CIPH + "Cipher", mk_cipher)
    rec, frag, ver, ln = make_record(c, min_len=bs)
    sk, ck = c.bytes("server_key", length=24), c.bytes("client_key", length=24)
    ls, lc = c.bytes("last_block_server", length=bs), c.bytes("last_block_client", length=bs)
    d = c.obj(DEC, server_key=sk, client_key=ck, bulk_alg=c.external(ALG + alg), bulk_mode=None, encrypt_then_mac=False, mac_length=maclen,
              compression_method=0, last_block_server=ls, last_block_client=lc, block_length=block_bits)
    out = c.method(d, "decrypt_last_block_iv_cbc", rec, isserver)
    c.ensure("no_raise", out.exc is None, kind="raises")
    if out.exc is not None or "ct" not in seen:
        c.ensure("cipher_built", out.exc is not None)
        return
    key, iv = (sk, ls) if isserver else (ck, lc)
    c.ensure("algorithm_and_key", c.is_lib_obj(seen["alg"], "alg:" + alg) and c.get(seen["alg"], "key") is key)
    c.ensure("iv_is_own_direction_residue", c.is_lib_obj(seen["mode"], "mode:CBC") and c.get(seen["mode"], "iv") is iv)
    c.ensure("ciphertext_is_fragment", eq(seen["ct"], frag))
    c.ensure("returns_content", eq(out.value, content))
    g = lambda n: c.get(d, n)
    n = len_(frag)
    c.ensure("residue_updated", eq(g("last_block_server" if isserver else "last_block_client"), frag[n - bs:]))
    c.ensure("other_residue_untouched", g("last_block_client" if isserver else "last_block_server") is (lc if isserver else ls))


@harness("C01", "protect.stream", functions=[DEC + ".decrypt_generic_stream_cipher"], cases=[(True,), (False,)])
def h_stream(c, isserver):
    """RC4 (RFC 2246 6.2.3.1): the direction's OWN running cipher object decrypts the whole fragment (so the key stream
    position carries over between records); returned = decrypted minus the trailing MAC"""
    if c.native:
        return
    maclen = c.choice("mac_length", [16, 20])
    content, mac = c.bytes("content", max_len=16000), c.bytes("mac", length=maclen)
    sc = c.recorder("server_rc4", handler=lambda m, a, k: cat(content, mac))
    cc = c.recorder("client_rc4", handler=lambda m, a, k: cat(content, mac))
    rec, frag, ver, ln = make_record(c)
    d = c.obj(DEC, server_cipher=sc, client_cipher=cc, mac_length=maclen, bulk_alg=c.external(ALG + "ARC4"), bulk_mode=None)
    out = c.method(d, "decrypt_generic_stream_cipher", rec, isserver)
    c.ensure("no_raise", out.exc is None, kind="raises")
    if out.exc is not None:
        return
    mine, other = (sc, cc) if isserver else (cc, sc)
    c.ensure("own_running_cipher_only", len(c.calls(mine)) == 1 and len(c.calls(other)) == 0 and c.calls(mine)[0][0] == "update"
             and eq(c.calls(mine)[0][1][0], frag))
    c.ensure("returns_content", eq(out.value, content))


DISPATCH = [("TLS13", "AESGCM", "decrypt_tls13_aead"), ("TLS13", "AESCCM", "decrypt_tls13_aead"), ("TLS13", "ChaCha20Poly1305", "decrypt_tls13_stream_cipher"),
            ("TLS12", "ChaCha20Poly1305", "decrypt_tls12_chacha20"), ("TLS12", "AESGCM", "decrypt_tls12_aead"), ("TLS12", "AESCCM", "decrypt_tls12_aead")] + \
           [(v, "ARC4", "decrypt_generic_stream_cipher") for v in ("SSL30", "TLS10", "TLS11", "TLS12")] + \
           [(v, a, "decrypt_tls12_block_cipher") for v in ("TLS11", "TLS12") for a in ("AES", "Camellia", "TripleDES", "IDEA")] + \
           [(v, a, "decrypt_last_block_iv_cbc") for v in ("SSL30", "TLS10") for a in ("AES", "Camellia", "TripleDES", "IDEA")]


@harness(["C01", "C14"], "protect.dispatch", functions=[DEC + ".decrypt", DEC + ".get_cipher_type"], cases=DISPATCH)
def h_dispatch(c, version, alg, want):
    """finite: for every (negotiated version, cipher class of an accepted suite) exactly the record-protection function
    of RFC 5246 6.2.3 / RFC 8446 5.2 is selected (dispatch is total: the placeholder plaintext of the output builder is
    unreachable)"""
    if c.native:
        return
    called = []
    for m in ("decrypt_tls13_aead", "decrypt_tls13_stream_cipher", "decrypt_tls12_chacha20", "decrypt_generic_stream_cipher",
              "decrypt_tls12_aead", "decrypt_tls12_block_cipher", "decrypt_last_block_iv_cbc"):
        c.summary_override(DEC + "." + m, (lambda ctx, slf, rec, srv, _m=m: called.append(_m) or const(b"pt")))
    mod = AEADM if alg in ("AESGCM", "AESCCM", "ChaCha20Poly1305") else ALG
    d = c.obj(DEC, tls_version=c.enum(TV, version), bulk_alg=c.external(mod + alg))
    t = c.method(d, "get_cipher_type")
    c.ensure("cipher_type.no_raise", t.exc is None, kind="raises")
    out = c.method(d, "decrypt", c.opaque("record"), c.bool("isserver"))
    c.ensure("no_raise", out.exc is None, kind="raises")
    c.ensure("selected_function", called == [want])
    c.ensure("returns_its_result", out.exc is None and out.value is not None)


@harness(["C01", "C13"], "protect.tls13_inner", functions=[SE + ".handle_tls_13_application_record"], cases=[(23,), (22,), (21,)])
def h_inner(c, ctype):
    """RFC 8446 5.4: TLSInnerPlaintext = content || type || zeros; type 23 -> exactly `content` is exported (with the
    record and direction); type 22 -> the handshake bytes go to the handshake handler, nothing exported"""
    if c.native:
        return
    content = c.bytes("content", max_len=16000)
    k = c.int("padding", 0, 255)
    inner = cat(content, c.bytes_of([ctype]), c.fill(0, k))
    dec = c.recorder("decryptor", handler=lambda m, a, kk: inner if m == "decrypt" else None)
    hs = []
    c.summary_override(SE + ".handle_decrypted_tls_13_handshake_record", lambda ctx, slf, pt, srv: hs.append((pt, srv)))
    s = c.obj(SE, decryptor=dec, application_traffic=[], tls_version=c.enum(TV, "TLS13"), can_decrypt=True)
    rec = c.opaque("record")
    isserver = c.bool("isserver")
    out = c.method(s, "handle_tls_13_application_record", rec, isserver)
    c.ensure("no_raise", out.exc is None, kind="raises")
    tr = c.get(s, "application_traffic")
    if ctype == 23:
        c.ensure("application_data_exported_exactly", len(tr) == 1 and eq(tr[0][0], content) and tr[0][1] is rec and c.same_object(tr[0][2], isserver))
        c.ensure("no_handshake_side_effect", len(hs) == 0)
    elif ctype == 22:
        c.ensure("handshake_not_exported", len(tr) == 0)
        c.ensure("handshake_bytes_forwarded", len(hs) == 1 and eq(hs[0][0], content) and c.same_object(hs[0][1], isserver))
    else:
        c.ensure("alert_not_exported", len(tr) == 0 and len(hs) == 0)


@harness(["C01", "C13"], "protect.tls13_handshake_walk", functions=[SE + ".handle_decrypted_tls_13_handshake_record"], timeout=20000)
def h_walk(c):
    """UNBOUNDED: a decrypted TLS 1.3 handshake record carries ANY number of handshake messages (type(1) || length(3) || body) of ANY
    type - the RFC 8446 types and every other byte value alike (CompressedCertificate, private types ...).  Ghost description: start(q) =
    offset of message q, start(q+1) = start(q) + 4 + its 24-bit length, fin(q) = number of Finished (type 20) messages among the first q.
    Loop contract: at the head of iteration k the walk stands at start(k) and has switched the direction's keys fin(k) times; hence at
    the end: the keys are switched exactly once per Finished message, for the record's direction, whatever the other messages are, the
    walk raises nothing and touches nothing else of the session.  (A missed switch leaves the handshake keys in place and every
    application record of the direction fails its tag: C01.)"""
    if c.native:
        return h_walk_native(c)
    nm = c.int("n_messages", 0, None)
    P = c.bytes("handshake_plaintext", min_len=0)
    isserver = c.bool("isserver")
    start, fin = c.uf("message_offset"), c.uf("finished_before")
    c.assume(band(start(0) == 0, fin(0) == 0, start(nm) >= len_(P)))

    def u24(p):
        return (P[p] * 256 + P[p + 1]) * 256 + P[p + 2]

    def msg_def(q):
        inside = band(0 <= q, q < nm)
        c.assume(implies(inside, band(start(q) >= 0, start(q) + 4 <= len_(P), start(q + 1) == start(q) + 4 + u24(start(q) + 1),
                                      fin(q + 1) == fin(q) + ite(eq(P[start(q)], 20), 1, 0))))
    gh = {"k": 0, "switched": 0, "other_calls": 0}

    def behave(m, a, kw):
        if m == "update_keys" and len(a) == 1 and not kw and c.same_object(a[0], isserver):
            gh["switched"] = gh["switched"] + 1
        else:
            gh["other_calls"] += 1
        return None
    dec = c.recorder("decryptor", handler=behave)
    from contracts.common import full_session
    s = full_session(c, decryptor=dec, tls_version=c.enum(TV, "TLS13"), can_decrypt=True)
    before = dict(s.attrs)

    def ghost(phase, e):
        if phase == "havoc":
            gh["k"] = c.fresh_int("message_index", 0, None)
            msg_def(gh["k"])
            gh["switched"] = fin(gh["k"])
        elif phase == "step":
            gh["k"] = gh["k"] + 1
            c.cover("iteration")

    def inv(e):
        k = gh["k"]
        return band(0 <= k, k <= nm, eq(e.index, start(k)), eq(gh["switched"], fin(k)))
    c.loop(SE + ".handle_decrypted_tls_13_handshake_record", "while index < len(plaintext)", invariant=inv, decreases=lambda e: nm - gh["k"],
           ghost_step=ghost, havoc={"handshake_type": lambda cur: None, "length": lambda cur: None})
    msg_def(0)
    out = c.method(s, "handle_decrypted_tls_13_handshake_record", P, isserver)
    c.ensure("no_raise_for_any_message_type", out.exc is None, kind="raises")
    if out.exc is not None:
        return
    c.ensure("walk_ends_after_the_last_message", c.prove(eq(gh["k"], nm)))
    c.ensure("keys_switched_once_per_finished_message_for_the_records_direction", c.prove(eq(gh["switched"], fin(nm))))
    c.ensure("decryptor.nothing_else_called", gh["other_calls"] == 0)
    c.ensure("frame.session_otherwise_untouched", set(s.attrs) == set(before) and all(s.attrs[a] is before[a] for a in before), kind="frame")
    c.cover("returned")


h_walk.must_cover = ["returned", "iteration"]


def h_walk_native(c):
    """native evaluation: a record of up to five messages of arbitrary types and body lengths; reference = count of type-20 messages"""
    msgs, want = b"", 0
    for i in range(c.int("n_messages", 0, 5)):
        t = [20, 11, 8, 25, 15, 4, 24][c.int("kind%d" % i, 0, 6)] if c.int("common%d" % i, 0, 1) else c.int("type%d" % i, 0, 255)
        body = bytes([0x30 + i]) * c.int("len%d" % i, 0, 6)
        msgs += bytes([t]) + len(body).to_bytes(3, "big") + body
        want += t == 20
    isserver = c.bool("isserver")
    seen = []
    dec = c.recorder("decryptor", handler=lambda m, a, k: seen.append((m, tuple(a))))
    from contracts.common import full_session
    s = full_session(c, decryptor=dec, tls_version=c.enum(TV, "TLS13"), can_decrypt=True)
    out = c.method(s, "handle_decrypted_tls_13_handshake_record", msgs, isserver)
    c.ensure("no_raise_for_any_message_type", out.exc is None, kind="raises")
    c.ensure("keys_switched_once_per_finished_message_for_the_records_direction", seen == [("update_keys", (isserver,))] * want)


# ---- hellos and the handshake state machine -------------------------------------------------------------------

def hello_body(c, msg_type, n_ext, with_ext_block=True):
    ver = c.bytes("hello_version", length=2)
    rnd = c.bytes("random", length=32)
    sid = c.bytes("session_id", max_len=32)
    suite, comp = c.bytes("cipher_suite", length=2), c.int("compression", 0, 255)
    exts, ext_bytes = [], const(b"")
    for i in range(n_ext):
        t = c.bytes("ext%d_type" % i, length=2)
        d = c.bytes("ext%d_data" % i, max_len=300)
        exts.append((t, d))
        ext_bytes = cat(ext_bytes, t, c.encode_be("ext%d_len" % i, len_(d), 2), d)
    body = cat(ver, rnd, c.bytes_of([len_(sid)]), sid, suite, c.bytes_of([comp]))
    if with_ext_block:
        body = cat(body, c.encode_be("exts_len", len_(ext_bytes), 2), ext_bytes)
    msg = cat(c.bytes_of([msg_type]), c.encode_be("hs_len", len_(body), 3), body)
    return msg, dict(version=ver, random=rnd, suite=suite, compression=comp, extensions=exts)


@harness("C01", "hello.server_hello", functions=[SE + ".handle_tls_server_hello"], cases=[(n, rv) for n in (0, 1, 2) for rv in ("0300", "0301", "0302", "0303")])
def h_server_hello(c, n_ext, record_version):
    """BOUNDED (<= 2 extensions): for a ServerHello laid out as in RFC 5246 7.4.1.3 / RFC 8446 4.1.3 (session id of any
    length 0..32, extensions of any type and length INCLUDING zero-length ones in last position) the parsed server
    random, cipher suite, compression method and extension map are the encoded ones; the version follows the record /
    hello versions and supported_versions = 0x0304; keys are generated from exactly these values"""
    if c.native:
        return
    msg, f = hello_body(c, 2, n_ext)
    c.I.loops.pop(SE + ".handle_tls_server_hello", None)      # bounded here: the extension loop is unrolled, not cut
    rec = c.obj("tlexport.tlsrecord.TlsRecord", binary=msg, record_type=0x16, record_version=const(bytes.fromhex(record_version)),
                record_length=const(b"\x00\x00"), raw=cat(const(b"\x16"), const(bytes.fromhex(record_version)), const(b"\x00\x00"), msg), metadata=[], isserver=True)
    gen = []
    c.summary_override(SE + ".generate_keys", lambda ctx, slf, *a: gen.append(a))
    cr = c.bytes("client_random", length=32)
    s = c.obj(SE, client_hello_seen=True, can_decrypt=False, client_random=cr, tls_version=None)
    out = c.method(s, "handle_tls_server_hello", rec)
    c.ensure("no_raise", out.exc is None, kind="raises")
    if out.exc is not None:
        return
    g = lambda n: c.get(s, n)
    c.ensure("server_random", eq(g("server_random"), f["random"]))
    c.ensure("cipher_suite", eq(g("ciphersuite"), f["suite"]))
    c.ensure("compression", g("compression_method") == f["compression"])
    em = g("extensions")
    # the encoded map: a later extension of the same type overrides an earlier one
    want = []
    for i, (t, d) in enumerate(f["extensions"]):
        if not any(c.truth_fork(eq(t, t2)) for (t2, _) in f["extensions"][i + 1:]):
            want.append((t, d))
    c.ensure("extensions.count", len(em) == len(want))
    for t, d in want:
        got = c.dict_get(em, t)
        c.ensure("extensions.entry", got is not None and c.prove(eq(got, d)))
    is13 = any(c.truth_fork(band(eq(t, const(b"\x00\x2b")), eq(d, const(b"\x03\x04")))) for t, d in want)
    TVq = "tlexport.tlsversion.TlsVersion"
    if record_version == "0300":
        wantv = "SSL30"
    elif record_version == "0302":
        wantv = "TLS11"
    else:
        hv = f["version"]
        wantv = "TLS10" if c.truth_fork(eq(hv, const(b"\x03\x01"))) else (("TLS13" if is13 else "TLS12") if c.truth_fork(eq(hv, const(b"\x03\x03"))) else None)
    if wantv is None:
        c.ensure("unknown_version.no_keys", len(gen) == 0 and g("can_decrypt") is False)
        return
    c.ensure("version", g("tls_version") is c.enum(TVq, wantv))
    c.ensure("keys_generated_from_the_parsed_values", len(gen) == 1 and gen[0][0] is g("tls_version") and gen[0][1] is g("ciphersuite")
             and gen[0][2] is cr and gen[0][3] is g("server_random"))
    c.cover("reached")


h_server_hello.must_cover = ["reached"]


@harness("C01", "hello.server_hello_unbounded", functions=[SE + ".handle_tls_server_hello"], cases=[(rv,) for rv in ("0300", "0301", "0302", "0303")], timeout=20000)
def h_server_hello_unbounded(c, record_version):
    """UNBOUNDED in the number of extensions: a ServerHello whose extension block holds ANY number of extensions of any type and length
    (ghost: start(q) = offset of extension q in the block, start(q+1) = start(q) + 4 + its 16-bit length, the extensions tile the block;
    typ(q), data(q) read off the block).  The map the loop builds is described by ghost structure: after i extensions it is
    fold(i) = 'type k -> data of the LAST extension of type k among the first i' (last(i, k), definitional: last(i+1, k) = i if typ(i) = k
    else last(i, k)).  Loop contract: at the head of iteration i the walk stands at start(i) and the map is fold(i); each iteration stores
    exactly (typ(i), data(i)).  Hence for any number of extensions: the session's extension map is fold(n); TLS 1.3 is selected iff the
    last supported_versions extension says 0x0304 (and record / hello versions allow it); keys are generated from the parsed values."""
    if c.native:
        return
    from pyvc.core import Unsupported
    from pyvc.interp import Builtin
    nx = c.int("n_extensions", 0, None)
    X = c.bytes("extension_block", min_len=0, max_len=65535)
    ver, rnd = c.bytes("hello_version", length=2), c.bytes("random", length=32)
    sid = c.bytes("session_id", max_len=32)
    suite, comp = c.bytes("cipher_suite", length=2), c.int("compression", 0, 255)
    body = cat(ver, rnd, c.bytes_of([len_(sid)]), sid, suite, c.bytes_of([comp]), c.encode_be("exts_len", len_(X), 2), X)
    msg = cat(c.bytes_of([2]), c.encode_be("hs_len", len_(body), 3), body)
    start, last = c.uf("extension_offset"), c.uf("last_extension_of_type", nargs=2)
    c.assume(band(start(0) == 0, start(nx) == len_(X)))

    def u16(p):
        return X[p] * 256 + X[p + 1]

    def typ(q):
        return u16(start(q))

    def elen(q):
        return u16(start(q) + 2)

    def data(q):
        return X[start(q) + 4:start(q) + 4 + elen(q)]

    def ext_def(q, k=None):
        inside = band(0 <= q, q < nx)
        c.assume(implies(inside, band(start(q) >= 0, start(q) + 4 + elen(q) <= len_(X), start(q + 1) == start(q) + 4 + elen(q))))
        if k is not None:
            c.assume(band(last(0, k) == -1, last(q, k) >= -1, last(q, k) < smax0(q), implies(inside, last(q + 1, k) == ite(eq(typ(q), k), q, last(q, k)))))

    def smax0(q):
        return ite(q > 0, q, 0) if not isinstance(q, int) else max(q, 0)

    class ExtMap:
        """fold(i): the map after the first i extensions"""

        def __init__(self):
            self.i = 0
            self.bad = False

        def pyvc_setitem(self, I, k, v):
            i = self.i
            ext_def(i)
            ok = c.prove(band(len_(k) == 2, k[0] * 256 + k[1] == typ(i), eq(v, data(i))))
            c.ensure("extension_map.iteration_stores_exactly_this_extension", ok)
            self.i = i + 1

        def lookup(self, k, default=None):
            from pyvc.core import to_bytes_val
            kb = to_bytes_val(k)
            if not c.prove(len_(kb) == 2):
                return default
            kv = kb.at(0) * 256 + kb.at(1)
            ext_def(self.i, kv)
            j = last(self.i, kv)
            if c.truth_fork(j >= 0):
                ext_def(j)
                c.assume(eq(typ(j), kv))            # definition of last: the extension it names has the type
                return data(j)
            return default

        def pyvc_getattr(self, I, name):
            if name == "get":
                return Builtin("dict.get", lambda I, k, d=None: self.lookup(k, d))
            raise Unsupported("method %s on the extension map" % name)

    EM = ExtMap()
    gh = {"k": 0}
    rec = c.obj("tlexport.tlsrecord.TlsRecord", binary=msg, record_type=0x16, record_version=const(bytes.fromhex(record_version)),
                record_length=const(b"\x00\x00"), raw=cat(const(b"\x16"), const(bytes.fromhex(record_version)), const(b"\x00\x00"), msg), metadata=[], isserver=True)
    gen = []
    c.summary_override(SE + ".generate_keys", lambda ctx, slf, *a: gen.append(a))
    cr = c.bytes("client_random", length=32)
    from contracts.common import full_session
    s = full_session(c, client_hello_seen=True, can_decrypt=False, client_random=cr, tls_version=None)

    def ghost(phase, e):
        if phase == "havoc":
            gh["k"] = c.fresh_int("extension_index", 0, None)
            ext_def(gh["k"])
            EM.i = gh["k"]
        elif phase == "step":
            gh["k"] = gh["k"] + 1
            c.cover("iteration")

    def inv(e):
        k = gh["k"]
        m = e.self.attrs.get("extensions")
        if m is EM:
            is_fold = eq(EM.i, k)
        else:
            is_fold = isinstance(m, dict) and len(m) == 0 and isinstance(k, int) and k == 0       # the empty map the code starts from is fold(0)
        return band(0 <= k, k <= nx, eq(e.extensions_index, start(k)), eq(e.extensions_length, len_(X)), eq(e.extensions_bin, X), is_fold)
    c.loop(SE + ".handle_tls_server_hello", "while extensions_index < extensions_length", invariant=inv, decreases=lambda e: nx - gh["k"], ghost_step=ghost,
           havoc={"self.extensions": lambda cur: EM, "extension_length": lambda cur: None})
    ext_def(0)
    out = c.method(s, "handle_tls_server_hello", rec)
    c.ensure("no_raise", out.exc is None, kind="raises")
    if out.exc is not None:
        return
    g = lambda n: c.get(s, n)
    c.ensure("server_random", eq(g("server_random"), rnd))
    c.ensure("cipher_suite", eq(g("ciphersuite"), suite))
    c.ensure("compression", g("compression_method") == comp)
    c.ensure("walk_covers_every_extension", c.prove(eq(gh["k"], nx)))
    c.ensure("extension_map_is_the_fold_over_all_extensions", g("extensions") is EM and c.prove(eq(EM.i, nx)))
    sv = EM.lookup(const(b"\x00\x2b"))
    is13 = sv is not None and c.truth_fork(eq(sv, const(b"\x03\x04")))
    TVq = "tlexport.tlsversion.TlsVersion"
    if record_version == "0300":
        wantv = "SSL30"
    elif record_version == "0302":
        wantv = "TLS11"
    else:
        wantv = "TLS10" if c.truth_fork(eq(ver, const(b"\x03\x01"))) else (("TLS13" if is13 else "TLS12") if c.truth_fork(eq(ver, const(b"\x03\x03"))) else None)
    if wantv is None:
        c.ensure("unknown_version.no_keys", len(gen) == 0 and g("can_decrypt") is False)
        return
    c.ensure("version", g("tls_version") is c.enum(TVq, wantv))
    c.ensure("keys_generated_from_the_parsed_values", len(gen) == 1 and gen[0][0] is g("tls_version") and gen[0][1] is g("ciphersuite")
             and gen[0][2] is cr and gen[0][3] is g("server_random"))
    c.cover("reached")


h_server_hello_unbounded.must_cover = ["reached", "iteration"]


@harness("C01", "state.finished", functions=[SE + ".handle_handshake_finished"], cases=[(m,) for m in (False, True)])
def h_finished(c, meta):
    """an encrypted handshake record advances a cipher state only if ITS sender has sent ChangeCipherSpec (and the
    connection can be decrypted): exactly one decrypt call for that direction then, none otherwise - the other
    direction's ChangeCipherSpec is irrelevant"""
    if c.native:
        return
    dec = c.recorder("decryptor", handler=lambda m, a, k: c.bytes_fresh("pt", 0, 100))
    scc, ccc, can, isserver = c.bool("server_ccs"), c.bool("client_ccs"), c.bool("can_decrypt"), c.bool("isserver")
    s = c.obj(SE, decryptor=dec, server_cipher_change=scc, client_cipher_change=ccc, can_decrypt=can, exp_meta=meta, application_traffic=[])
    rec = c.opaque("record")
    out = c.method(s, "handle_handshake_finished", rec, isserver)
    calls = [x for x in c.calls(dec) if x[0] == "decrypt"]
    want = bor(band(scc, isserver, can), band(ccc, bnot(isserver), can))
    if c.truth_fork(want):
        c.ensure("decrypted_once_for_the_sender", len(calls) == 1 and calls[0][1][0] is rec and c.same_object(calls[0][1][1], isserver))
    else:
        c.ensure("cipher_state_untouched", len(calls) == 0)
    if not meta:
        c.ensure("no_raise_without_-a", out.exc is None, kind="raises")
        c.ensure("nothing_exported_without_-a", len(c.get(s, "application_traffic")) == 0)
