"""C03: an undecryptable or damaged flow never aborts the run.

Exception freedom (raises_nothing) of the per-record and per-datagram entry points for ARBITRARY bytes, ARBITRARY
session state and a decryptor that may fail or return anything, plus the gate: without a usable decryptor no
application-data record adds to the export.  Library calls may raise on any input (assumed contracts)."""
from pyvc.api import harness, eq, band, bor, bnot, implies, len_, cat, const

from pyvc.api import loop

SE = "tlexport.session.Session"
M = "tlexport.main"
# loop contracts of the two parsing loops (exception freedom + termination): no fact about the parsed content is
# needed, only that the index grows
loop(SE + ".handle_tls_server_hello", "while extensions_index < extensions_length",
     invariant=lambda e: e.extensions_index >= 0, decreases=lambda e: e.extensions_length - e.extensions_index)
loop(SE + ".handle_decrypted_tls_13_handshake_record", "while index < len(plaintext)",
     invariant=lambda e: e.index >= 0, decreases=lambda e: len_(e.plaintext) - e.index)
QS = "tlexport.quic.quic_session.QuicSession"
VERSIONS = ["SSL30", "TLS10", "TLS11", "TLS12", "TLS13", None]


def any_session(c, version, with_decryptor):
    dec = None
    if with_decryptor:
        def behave(m, a, k):
            if m == "decrypt":
                if c.nondet("decrypt_fails"):
                    c.raise_in_code("InvalidTag")
                return c.bytes_fresh("plaintext", 0, 70000)
            return None
        # a decryptor carries its record counters (the real classes set them in __init__)
        dec = c.recorder("decryptor", handler=behave, server_seq=c.int("server_seq", 0, 2 ** 62), client_seq=c.int("client_seq", 0, 2 ** 62))
    attrs = dict(exp_meta=c.bool("exp_meta"), can_decrypt=c.bool("can_decrypt"), client_hello_seen=c.bool("client_hello_seen"),
                 server_cipher_change=c.bool("server_ccs"), client_cipher_change=c.bool("client_ccs"), decryptor=dec,
                 application_traffic=[], keylog=[], server_ip=c.bytes("sip", length=4), client_ip=c.bytes("cip", length=4),
                 server_port=443, client_port=50000, ipv6=False, client_random=c.bytes("client_random", length=32))
    # 'no ServerHello seen yet' is tls_version None (Session.__init__ sets it)
    attrs["tls_version"] = c.enum("tlexport.tlsversion.TlsVersion", version) if version is not None else None
    return c.obj(SE, **attrs), dec


@harness(["C03", "C13", "C07"], "robust.tls_record", functions=[SE + ".get_tls_records", SE + ".handle_tls_record", SE + ".handle_tls_handshake_record",
                                                         SE + ".handle_handshake_finished", SE + ".handle_tls_client_hello", SE + ".handle_tls_server_hello",
                                                         SE + ".handle_alert", SE + ".handle_tls_13_application_record",
                                                         SE + ".handle_decrypted_tls_13_handshake_record", SE + ".handle_tls_application_record",
                                                         "tlexport.tlsrecord.TlsRecord.__init__"],
         cases=[(t, v, d) for t in (0x16, 0x17, 0x15, 0x14, 0x18) for v in VERSIONS for d in (True, False)], timeout=20000)
def h_record(c, rtype, version, with_decryptor):
    """for ANY record of at least its 5 header bytes (what the framing contract releases), ANY session flags, ANY TLS
    version state (including 'no ServerHello seen yet') and a decryptor that fails or returns arbitrary bytes:
    handle_tls_record raises nothing; and if the session has no usable decryptor an application-data record (0x17)
    leaves the export untouched (the gate)."""
    if c.native:
        return
    if with_decryptor and version is None:
        return c.cover("returned")     # representation invariant: a decryptor exists only after a ServerHello fixed the version
    s, dec = any_session(c, version, with_decryptor)
    raw = cat(c.bytes_of([rtype]), c.bytes("rest_of_header", length=4), c.bytes("fragment", min_len=0, max_len=70000))
    md = [c.record("Packet", timestamp=1.0)]
    rec_out = c.new("tlexport.tlsrecord.TlsRecord", raw, md, c.bool("record_isserver"))
    c.ensure("record.no_raise", rec_out.exc is None, kind="raises")
    if rec_out.exc is not None:
        return
    # generate_keys has its own contract (robust.generate_keys): here it may leave any decryptor state behind
    def s_generate(ctx, slf, *a):
        if ctx.nondet("malformed_secret"):
            ctx.raise_("ValueError")              # see robust.generate_keys
        slf.attrs["decryptor"] = dec if ctx.nondet("keys_derived") else None
        slf.attrs["can_decrypt"] = ctx.fresh_bool("can_decrypt_after")
    c.summary_override(SE + ".generate_keys", s_generate)
    # the record reaches handle_tls_record the way it does in a run: through get_tls_records, after framing
    srv = c.choice("direction", [True, False])
    isserver = srv
    sip, cip = c.get(s, "server_ip"), c.get(s, "client_ip")
    pkt = c.obj("tlexport.packet.Packet", ip_src=sip if srv else cip, sport=443 if srv else 50000, ip_dst=cip if srv else sip,
                dport=50000 if srv else 443)
    c.assume(bnot(eq(sip, cip)))
    for a in ("server_packet_buffer", "client_packet_buffer", "server_tls_records", "client_tls_records"):
        c.set(s, a, [])
    c.set(s, "packet_buffer", [pkt])
    c.summary_override(SE + ".extract_server_buf", lambda ctx, slf: slf.attrs["server_tls_records"].append(rec_out.value))
    c.summary_override(SE + ".extract_client_buf", lambda ctx, slf: slf.attrs["client_tls_records"].append(rec_out.value))
    before = len(c.get(s, "application_traffic"))
    out = c.method(s, "get_tls_records")
    c.ensure("no_raise", out.exc is None, kind="raises")
    if out.exc is not None:
        return
    traffic = c.get(s, "application_traffic")
    if rtype == 0x17 and not with_decryptor:
        c.ensure("gate.no_decryptor_no_export", len(traffic) == before)
    if rtype == 0x17:
        # nothing but (plaintext-from-the-decryptor, the record, the direction) is ever exported for application data
        for e in traffic:
            c.ensure("export.entry_shape", isinstance(e, tuple) and len(e) == 3 and e[1] is rec_out.value and c.same_object(e[2], isserver))
    # C07: whatever is exported for a record (application data, or with -a the record itself) is attributed to the direction the record
    # arrived in - the direction get_tls_records established from the packet's endpoints - and to nothing the record object itself claims
    for e in traffic[before:]:
        c.ensure("export.direction_is_the_arrival_direction", isinstance(e, tuple) and len(e) == 3 and c.same_object(e[2], isserver))
    c.cover("returned")


h_record.must_cover = ["returned"]


@harness(["C03"], "robust.quic_entry", functions=[M + ".handle_quic_packet"], cases=[("any",)])
def h_quic_entry(c, _):
    """main.handle_quic_packet raises nothing for ANY non-empty UDP payload (run() skips empty ones)"""
    if c.native:
        payload = c.bytes("payload", min_len=1, max_len=40)
        pkt = c.obj("tlexport.packet.Packet", tls_data=payload, ip_src=b"\\x0a\\x00\\x00\\x01", ip_dst=b"\\x0a\\x00\\x00\\x02", sport=50000, dport=443,
                    ipv6_packet=False, ethernet_src=b"\\x02\\x00\\x00\\x00\\x00\\x01", ethernet_dst=b"\\x02\\x00\\x00\\x00\\x00\\x02", timestamp=1.0)
        out = c.call(M + ".handle_quic_packet", pkt, [], [], {}, True)
        c.ensure("no_raise", out.exc is None, kind="raises")
        return
    payload = c.bytes("payload", min_len=1)
    pkt = c.obj("tlexport.packet.Packet", tls_data=payload, ip_src=c.bytes("src", length=4), ip_dst=c.bytes("dst", length=4),
                sport=c.int("sport", 0, 65535), dport=c.int("dport", 0, 65535))
    c.summary_override(QS + ".__init__", lambda ctx, cls, *a, **k: ctx.make_obj(cls))
    c.summary_override(QS + ".handle_packet", lambda ctx, slf, *a: None)
    out = c.call(M + ".handle_quic_packet", pkt, [], [], {}, True)
    c.ensure("no_raise", out.exc is None, kind="raises")


QDI = "tlexport.quic.quic_dissector"
QP_T = "tlexport.quic.quic_packet.QuicPacketType"


@harness(["C03", "C02"], "robust.quic_dissector", functions=[QDI + ".extract_quic_packet", QDI + ".get_header_type", QDI + ".get_packet_type"],
         cases=[(s, suite, fb) for s in (True, False) for suite in (None, b"\x13\x03")
                for fb in ("long_initial", "long_0rtt", "long_handshake", "long_retry", "short")], timeout=20000, tier="thorough")
def h_dissector(c, isserver, suite, fb):
    """extract_quic_packet raises nothing for ANY datagram bytes, any guessed connection ID and any available header
    protection keys (library primitives may reject their inputs), and it always consumes: the unparsed remainder it
    leaves in the packet is a strict suffix of what it was given, or empty - so the caller's loop terminates"""
    if c.native:
        return
    data = c.bytes("datagram", min_len=1, max_len=1500)
    # the case split is on the two header-form / packet-type fields of the first byte (RFC 9000 17.2 / 17.3); all cases together cover every first byte
    b0 = data[0]
    if fb == "short":
        c.assume(b0 < 128)
    else:
        c.assume(b0 >= 128)
        c.assume((b0 // 16) % 4 == {"long_initial": 0, "long_0rtt": 1, "long_handshake": 2, "long_retry": 3}[fb])
    dcid = c.bytes("guessed_dcid", max_len=20)
    hp = {k: c.bytes(k, length=c.choice("hp_len", [16, 32])) for k in ("client_initial_hp",)}
    hpv = hp["client_initial_hp"]
    keys = {k: hpv for k in ("client_initial_hp", "server_initial_hp", "client_handshake_hp", "server_handshake_hp", "client_early_hp",
                             "client_application_hp", "server_application_hp")}
    needed = {"long_initial": "%s_initial_hp", "long_handshake": "%s_handshake_hp", "long_0rtt": "client_early_hp", "short": "%s_application_hp"}.get(fb)
    if needed and "%s" in needed:
        needed = needed % ("server" if isserver else "client")
    have = c.choice("hp_keys", ["all", "none", "needed_one_missing", "needed_one_is_None"])
    if have == "none":
        keys = {}
    elif have == "needed_one_missing" and needed:
        del keys[needed]
    elif have == "needed_one_is_None" and needed:
        keys[needed] = None
    usable = needed is None or keys.get(needed) is not None
    pkt = c.obj("tlexport.packet.Packet", tls_data=data, timestamp=1.0)
    out = c.call(QDI + ".extract_quic_packet", in_packet=pkt, isserver=isserver, guessed_dcid=dcid, keys=keys, ciphersuite=(const(suite) if suite else None))
    c.ensure("no_raise", out.exc is None, kind="raises")
    if out.exc is not None:
        return
    pkts, same = out.value
    c.ensure("returns_the_same_packet_object", same is pkt)
    rest = c.get(pkt, "tls_data")
    c.ensure("remainder_shorter", c.prove(len_(rest) < len_(data)))
    # the link to the session's key-state invariant (quic.keystate): a protected packet is produced only if header protection
    # could be removed, i.e. with a usable hp key of its level and direction
    protected = [p for p in pkts if not any(c.get(p, "packet_type") is c.enum(QP_T, t) for t in ("RETRY", "VERSION_NEG"))]
    c.ensure("packets_only_with_a_usable_hp_key", usable or not protected)
    c.cover("returned")



KR = "tlexport.keylog_reader"
NSS = ["CLIENT_RANDOM", "RSA", "CLIENT_EARLY_TRAFFIC_SECRET", "CLIENT_HANDSHAKE_TRAFFIC_SECRET", "SERVER_HANDSHAKE_TRAFFIC_SECRET",
       "CLIENT_TRAFFIC_SECRET_0", "SERVER_TRAFFIC_SECRET_0", "EARLY_EXPORTER_SECRET", "EXPORTER_SECRET"]


@harness(["C03"], "robust.generate_keys", functions=[SE + ".generate_keys", SE + ".find_session_secrets", "tlexport.key_derivator.dev_tls_13_keys",
                                                     "tlexport.decryptor.Decryptor.__init__", "tlexport.decryptor.Decryptor.parse_keys"],
         cases=[(v, code, n) for v, code in (("TLS13", "1301"), ("TLS12", "C02F"), ("TLS12", "002F"), ("TLS10", "002F"), ("SSL30", "000A"), ("TLS12", "FFFF"))
                for n in (0, 1, 2)], timeout=20000)
def h_generate_keys(c, version, code, nkeys):
    """key generation never aborts the run: for ANY subset of key-log lines of this connection (any NSS labels, in any
    order, partial sets, secrets of ANY hex length - what the key-log pattern admits) and any negotiated suite (also an
    unsupported one) generate_keys returns; if it cannot derive a complete key set the connection is simply not decrypted"""
    if c.native:
        return
    cr, sr = c.bytes("client_random", length=32), c.bytes("server_random", length=32)
    keys = []
    for i in range(nkeys):
        import os
        label = c.choice("label%d" % i, NSS if os.environ.get("PYVC_TIER") == "thorough" else
                         ["CLIENT_RANDOM", "RSA", "CLIENT_HANDSHAKE_TRAFFIC_SECRET", "SERVER_TRAFFIC_SECRET_0", "EXPORTER_SECRET"])
        r = c.regstr("random%d" % i, "[0-9a-fA-F]{64}")
        v = c.regstr("secret%d" % i, "[0-9a-fA-F]*")
        k = c.obj(KR + ".Key", label=label, client_random=r, value=v)
        keys.append(k)
    ver = c.enum("tlexport.tlsversion.TlsVersion", version)
    s = c.obj(SE, keylog=keys, client_random=cr, tls_version=ver, extensions={}, compression_method=0, can_decrypt=True, decryptor=None,
              server_ip=c.bytes("sip", length=4), client_ip=c.bytes("cip", length=4), server_port=443, client_port=50000, ipv6=False)
    out = c.method(s, "generate_keys", ver, const(bytes.fromhex(code)), cr, sr)
    # a secret with an odd number of hex digits makes bytes.fromhex raise ValueError; that one exception is stopped by the
    # per-record barrier in get_tls_records (robust.tls_record lets generate_keys raise it). Nothing else may escape.
    c.ensure("raises_at_most_ValueError_for_malformed_hex", out.exc in (None, "ValueError"), kind="raises")
    if out.exc is None and c.get(s, "decryptor") is None:
        c.ensure("no_keys_means_not_decrypted", c.get(s, "can_decrypt") is False)
    c.cover("returned" if out.exc is None else "raised")


# ---- C03, the composition step: every function main.run() can enter OUTSIDE a `try ... except Exception` barrier has an exception-freedom
# ---- contract; every function that is allowed to raise is only reachable BEHIND such a barrier ---------------------------------------

_S, _QS = "tlexport.session.Session", "tlexport.quic.quic_session.QuicSession"
CG_HINTS = {"tlexport.main.run": {"session": _S, "quic_session": _QS}, "tlexport.main.handle_packet": {"session": _S},
            "tlexport.main.handle_quic_packet": {"session": _QS, "new_session": _QS},
            _S + ".decrypt": {"self.builder": "tlexport.output_builder.OutputBuilder"},
            _QS + ".build_output": {"output_builder": "tlexport.quic.quic_output_builder.QUICOutputbuilder"},
            _QS + ".decrypt_packet": {"decryptor": "tlexport.quic.quic_decryptor.QuicDecryptor"},
            _QS + ".handle_crypto_frame": {"self.tls_session": "tlexport.quic.quic_tls_parser.QuicTlsSession"},
            _S + ".handle_tls_application_record": {"self.decryptor": "tlexport.decryptor.Decryptor"},
            _S + ".handle_tls_13_application_record": {"self.decryptor": "tlexport.decryptor.Decryptor"},
            _S + ".handle_handshake_finished": {"self.decryptor": "tlexport.decryptor.Decryptor"}}
# Edges removed from the UNPROTECTED graph, each with the discharged obligation that justifies it:
#   handle_quic_packet calls handle_frame outside its try only for the Version Negotiation pseudo frame it has just built, and for that frame
#   handle_frame only appends to the output buffer (quic.buffered_packets[VERSION_NEG].version_negotiation_frame_only_buffered) - the CRYPTO
#   path (TLS parsing, key derivation) is entered only from decrypt_packet's barrier.
CG_CUT = {(_QS + ".handle_frame", _QS + ".handle_crypto_frame"): "quic.buffered_packets"}
# exception-freedom contract of every function reachable outside a barrier: harness that lists it and ensures no_raise (its preconditions are
# what the caller's contract establishes); 'log:' = only formats log text (the effect of logging is dropped, argument evaluation is covered
# by the harnesses of the callers that execute it)
CG_COVER = {
    "tlexport.main.run": "run.packet_branches", "tlexport.main.arg_parser_init": "ports.argparse_defaults", "tlexport.main.get_port_map": "ports.get_port_map",
    "tlexport.main.handle_packet": "demux.tls_routing", "tlexport.main.handle_quic_packet": "robust.quic_entry",
    "tlexport.checksums.calculate_checksum_tcp": "cksum.verdict", "tlexport.checksums.calculate_checksum_udp": "cksum.verdict",
    "tlexport.checksums.ones_complement_checksum": "cksum.ones_complement",
    "tlexport.dpkt_dsb.Reader.__init__": "container.reader", "tlexport.keylog_reader.Key.__init__": "keylog.any_line_is_safe",
    "tlexport.keylog_reader.get_key_from_line": "keylog.any_line_is_safe", "tlexport.keylog_reader.get_keys_from_string": "keylog.unbounded.file_text",
    "tlexport.keylog_reader.read_keylog_from_file": "keylog.read_file",
    "tlexport.log.set_logger": "log:", "tlexport.log.LogFilter.__init__": "log:", "tlexport.packet.Packet.get_params": "log:",
    "tlexport.packet.Packet.__init__": "assumed: dpkt.ethernet.Ethernet(buf) may raise on a truncated frame - NOT covered (dpkt's parser; the capture is assumed to hold whole frames)",
    "tlexport.output_builder.OutputBuilder.__init__": "ports.builder_init", "tlexport.output_builder.OutputBuilder.build": "tcp_out.build",
    "tlexport.output_builder.OutputBuilder.build_ack_handshake": "tcp_out.handshake", "tlexport.output_builder.OutputBuilder.build_client_packet": "tcp_out.data_packets",
    "tlexport.output_builder.OutputBuilder.build_server_packet": "tcp_out.data_packets",
    "tlexport.quic.quic_decryptor.QuicDecryptor.__init__": "quic.keystate.install", "tlexport.quic.quic_dissector.extract_quic_packet": "robust.quic_dissector",
    "tlexport.quic.quic_dissector.get_header_type": "robust.quic_entry", "tlexport.quic.quic_frame.Frame.__init__": "quic_out.build",
    "tlexport.quic.quic_frame.PseudoVersionNegotiationFrame.__init__": "quic_out.build",
    "tlexport.quic.quic_key_generation.dev_initial_keys": "keys.quic_initial", "tlexport.quic.quic_key_generation.make_info": "keys.quic_make_info",
    "tlexport.quic.quic_key_generation.key_update": "keys.quic_key_update",
    "tlexport.quic.quic_key_generation.dev_quic_keys": "quic.keystate.install",
    "tlexport.quic.quic_output_builder.QUICOutputbuilder.__init__": "ports.builder_init", "tlexport.quic.quic_output_builder.QUICOutputbuilder.build": "quic_out.build",
    _QS + ".__init__": "demux.fresh_instances_are_separate", _QS + ".binary_to_ip": "quic_out.build_output", _QS + ".build_output": "quic_out.build_output",
    _QS + ".check_key_epoch": "quic.key_epoch", _QS + ".decrypt_packet": "quic.keystate.lookup", _QS + ".handle_frame": "quic.handle_frame",
    _QS + ".handle_packet": "quic.handle_packet", _QS + ".handle_quic_packet": "quic.buffered_packets", _QS + ".matches_session_dgram": "demux.matches_session",
    _QS + ".packet_isserver": "quic.handle_packet", _QS + ".set_initial_decryptor": "keys.quic_initial_installed", _QS + ".set_packet_number_spaces": "demux.fresh_instances_are_separate",
    _QS + ".set_server_client_address": "ports.roles", _QS + ".set_tls_decryptors": "quic.keystate.install",
    "tlexport.quic.quic_tls_parser.QuicTlsSession.__init__": "demux.fresh_instances_are_separate",
    _S + ".__init__": "demux.fresh_instances_are_separate", _S + ".binary_to_ip": "tcp_out.build", _S + ".decrypt": "ports.threading",
    _S + ".extract_client_buf": "framing.unbounded", _S + ".extract_server_buf": "framing.unbounded", _S + ".get_tls_records": "robust.tls_record",
    _S + ".handle_packet": "framing.handle_packet", _S + ".matches_session": "demux.matches_session", _S + ".set_client_and_server_ports": "ports.roles",
    "tlexport.tlsrecord.TlsRecord.__init__": "robust.tls_record",
}
# functions that are ALLOWED to raise (truncated or hostile input, failing primitives): each must stay behind a barrier
CG_MAY_RAISE = [
    "tlexport.decryptor.Decryptor.decrypt", "tlexport.decryptor.Decryptor.decrypt_tls13_aead", "tlexport.decryptor.Decryptor.decrypt_tls12_aead",
    "tlexport.decryptor.Decryptor.decrypt_tls12_block_cipher", "tlexport.decryptor.Decryptor.decrypt_last_block_iv_cbc", "tlexport.decryptor.Decryptor.decrypt_tls12_chacha20",
    "tlexport.decryptor.Decryptor.decrypt_generic_stream_cipher", "tlexport.decryptor.Decryptor.decrypt_tls13_stream_cipher", "tlexport.decryptor.Decryptor.inflate",
    "tlexport.decryptor.Decryptor.__init__", "tlexport.decryptor.Decryptor.parse_keys",
    "tlexport.key_derivator.dev_tls_13_keys", "tlexport.key_derivator.dev_tls_12_keys", "tlexport.key_derivator.dev_tls_10_11_keys", "tlexport.key_derivator.dev_ssl_30_keys",
    _S + ".generate_keys", _S + ".handle_tls_record", _S + ".handle_tls_handshake_record", _S + ".handle_tls_server_hello", _S + ".handle_tls_client_hello",
    _S + ".handle_tls_application_record", _S + ".handle_tls_13_application_record", _S + ".handle_decrypted_tls_13_handshake_record", _S + ".handle_handshake_finished",
    "tlexport.quic.quic_frame.parse_frames", "tlexport.quic.quic_decode.decode_variable_length_int", "tlexport.quic.quic_decode.get_variable_length_int_length",
    "tlexport.quic.quic_decryptor.QuicDecryptor.decrypt", "tlexport.quic.quic_dissector.remove_header_protection", "tlexport.quic.quic_key_generation.make_hp_mask",
    "tlexport.quic.quic_key_generation.make_chacha_hp_mask", _QS + ".get_full_packet_number", _QS + ".handle_crypto_frame",
    "tlexport.quic.quic_tls_parser.QuicTlsSession.update_session", "tlexport.quic.quic_tls_parser.QuicTlsSession.handle_buffer",
    "tlexport.quic.quic_tls_parser.QuicTlsSession.handle_record", "tlexport.quic.quic_tls_parser.QuicTlsSession.handle_client_hello",
    "tlexport.quic.quic_tls_parser.QuicTlsSession.handle_server_hello", "tlexport.quic.quic_tls_parser.QuicTlsSession.handle_encrypted_extensions",
    "tlexport.quic.quic_tls_parser.QuicTlsSession.get_extensions", "tlexport.quic.quic_tls_parser.QuicTlsSession.get_quic_transport_parameters",
]


@harness(["C03"], "robust.call_graph", functions=[])
def h_call_graph(c):
    """COMPOSITION obligation for 'the run never fails' (syntactic, conservative; the call graph is rebuilt from the real sources on
    every run): (1) every function main.run() can enter outside every `try ... except Exception` has an exception-freedom contract
    (a harness that lists it and ensures no_raise) or is a stated assumption; (2) every function that is ALLOWED to raise stays behind
    such a barrier - narrowing or removing a barrier, or calling one of these functions from unprotected code, fails here; (3) a NEW
    function that becomes reachable outside a barrier and has no contract is reported as undecided (a gap in the composition, not a
    verdict about the code)."""
    if c.native:
        return
    from pyvc import api, callgraph
    from pyvc.core import Unsupported
    g = callgraph.Graph(c.I.program.repo if hasattr(c.I, "program") else None, CG_HINTS) if False else callgraph.Graph(_repo_root(c), CG_HINTS)
    U, P, unresolved = g.partition("tlexport.main.run", cut_edges=set(CG_CUT))
    names = {h.name: h for h in api.REGISTRY["harness"]}
    for (a, b), hname in CG_CUT.items():
        c.ensure("cut_edge_is_justified_by_a_registered_harness[%s->%s]" % (a.split(".")[-1], b.split(".")[-1]), hname in names, kind="frame")
    for f in sorted(CG_MAY_RAISE):
        c.ensure("may_raise_only_behind_a_barrier[%s]" % f.replace("tlexport.", ""), f not in U, kind="frame")
    missing = []
    for f in sorted(U):
        cov = CG_COVER.get(f)
        if f in CG_MAY_RAISE:
            continue                # already reported above
        if cov is None:
            missing.append(f)
            continue
        if cov.startswith("assumed:") or cov.startswith("log:"):
            c.ensure("unprotected_function_is_a_stated_assumption[%s]" % f.replace("tlexport.", ""), True, kind="frame")
            continue
        h = names.get(cov)
        c.ensure("unprotected_function_has_an_exception_freedom_contract[%s]" % f.replace("tlexport.", ""), h is not None, kind="frame")
    c.ensure("unresolved_calls_are_the_known_ones", set(unresolved) <= {"tlexport.session.Session.generate_keys", "tlexport.quic.quic_frame.parse_frames"}, kind="frame")
    c.cover("graph_built")
    if missing:
        raise Unsupported("functions reachable outside every barrier without an exception-freedom contract (composition gap): %s" % ", ".join(missing))


h_call_graph.must_cover = ["graph_built"]


def _repo_root(c):
    import os
    return os.environ.get("TLEXPORT_REPO", "/repo")
