"""C06 / C07 (TLS part): OutputBuilder emits well-formed, reassemblable, correctly oriented and timed frames.

Frames are scapy layer records (assumed model); a frame is *well formed by construction* when it consists of
exactly Ether / IP|IPv6 / TCP [/ Raw] with no length or checksum field set (scapy then fills them in).
Per-call contracts: build_ack_handshake, build_server_packet, build_client_packet (symbolic record length n,
symbolic number k of carrying packets, nonlinear split arithmetic); loop contract of build()."""
from pyvc.api import harness, len_, ite, eq, band, bor, bnot, implies

OB = "tlexport.output_builder.OutputBuilder"
FLAGS = {"S": 1, "SA": 2, "A": 3, "PA": 4}
ALLOWED = {"Ether": {"src", "dst"}, "IP": {"src", "dst"}, "IPv6": {"src", "dst"}, "TCP": {"sport", "dport", "flags", "seq", "ack"},
           "UDP": {"sport", "dport"}, "Raw": {"load"}}


def layers_of(c, pkt):
    if c.native:
        out, lay = [], pkt
        names = {"Ethernet": "Ether"}
        while lay is not None and lay.__class__.__name__ != "NoPayload":
            out.append((names.get(lay.name, lay.name), {k: v for k, v in lay.fields.items() if not (k == "options" and v == [])}))
            lay = lay.payload
        return out
    return pkt.attrs["layers"]


def same(c, a, b):
    if c.native:
        def norm(x):
            if isinstance(x, bytes) and len(x) == 6:
                return ":".join("%02x" % v for v in x)          # scapy stores a MAC given as bytes in text form
            if isinstance(x, bytes):
                return x.decode()
            return x
        return norm(a) == norm(b)
    if a is b:
        return True
    from pyvc.core import SymInt, is_byteslike
    from pyvc.models import IpStr
    if isinstance(a, (int, SymInt)) and isinstance(b, (int, SymInt)):
        return c.prove(a == b)
    if isinstance(a, IpStr) and isinstance(b, IpStr):
        return a.version == b.version and c.prove(eq(a.packed, b.packed))
    if is_byteslike(a) and is_byteslike(b):
        return c.prove(eq(a, b))
    return False


def frame_view(c, pkt, b):
    """classify a frame against the builder's endpoints -> dict(orient, flags, seq, ack, payload, wellformed)"""
    lays = layers_of(c, pkt)
    names = [n for n, _ in lays]
    f = {n: fl for n, fl in lays}
    l3 = "IPv6" if b["ipv6"] else "IP"
    wf = names in (["Ether", l3, "TCP"], ["Ether", l3, "TCP", "Raw"], ["Ether", l3, "UDP", "Raw"], ["Ether", l3, "UDP"])
    wf = wf and all(set(fl) <= ALLOWED.get(n, set()) for n, fl in lays)
    v = {"wellformed": wf, "orient": 0, "flags": 0, "seq": 0, "ack": 0, "payload": None, "l4": None}
    if not wf:
        return v
    l4 = "TCP" if "TCP" in f else "UDP"
    v["l4"] = l4
    e, ip, t = f["Ether"], f[l3], f[l4]
    def o(smac, dmac, sip, dip, sp, dp):
        return (same(c, e.get("src"), b[smac]) and same(c, e.get("dst"), b[dmac]) and same(c, ip.get("src"), b[sip])
                and same(c, ip.get("dst"), b[dip]) and same(c, t.get("sport"), b[sp]) and same(c, t.get("dport"), b[dp]))
    if o("server_mac", "client_mac", "server_ip", "client_ip", "server_port", "client_port"):
        v["orient"] = 1      # server -> client
    elif o("client_mac", "server_mac", "client_ip", "server_ip", "client_port", "server_port"):
        v["orient"] = 2      # client -> server
    if l4 == "TCP":
        fl = t.get("flags")
        v["flags"] = FLAGS.get(fl if isinstance(fl, str) else str(fl), 0)
        v["seq"], v["ack"] = t.get("seq", 0), t.get("ack", 0)
    v["payload"] = f["Raw"].get("load", b"") if "Raw" in f else None
    return v


def make_builder(c, ipv6, records=None):
    b = {"ipv6": ipv6, "server_mac": c.bytes("server_mac", length=6), "client_mac": c.bytes("client_mac", length=6),
         "server_ip": c.ip_text("server_ip", ipv6), "client_ip": c.ip_text("client_ip", ipv6),
         "server_port": c.int("server_port", 0, 65535), "client_port": c.int("client_port", 0, 65535)}
    c.assume(bnot(eq(b["server_mac"], b["client_mac"])))      # the two endpoints are distinguishable (else 'direction' is void)
    obj = c.obj(OB, decrypted_records=records if records is not None else [], server_ip=b["server_ip"], client_ip=b["client_ip"],
                server_port=b["server_port"], client_port=b["client_port"], default_port=8080, server_mac_addr=b["server_mac"],
                client_mac_addr=b["client_mac"], out=[], ipv6=ipv6, server_seq=1, client_seq=1)
    return obj, b


@harness(["C06", "C07"], "tcp_out.handshake", functions=[OB + ".build_ack_handshake"], cases=[(False,), (True,)])
def h_handshake(c, ipv6):
    """SYN(seq 0) c->s, SYN-ACK(seq 0, ack 1) s->c, ACK(seq 1, ack 1) c->s, all stamped ts_zero, appended to out"""
    obj, b = make_builder(c, ipv6)
    ts0 = c.int("ts_zero", 0, 2 ** 40)
    c.set(obj, "ts_zero", ts0 if not c.native else float(ts0))
    out = c.method(obj, "build_ack_handshake")
    c.ensure("no_raise", out.exc is None, kind="raises")
    if out.exc is not None:
        return
    o = c.get(obj, "out")
    c.ensure("three_frames", len(o) == 3)
    if len(o) != 3:
        return
    want = [(2, "S", 0, 0), (1, "SA", 0, 1), (2, "A", 1, 1)]
    for i, ((pkt, ts), (orient, fl, seq, ack)) in enumerate(zip(o, want)):
        v = frame_view(c, pkt, b)
        c.ensure("frame%d.wellformed" % i, v["wellformed"] and v["l4"] == "TCP" and v["payload"] is None)
        c.ensure("frame%d.orientation" % i, v["orient"] == orient)
        c.ensure("frame%d.flags" % i, v["flags"] == FLAGS[fl])
        c.ensure("frame%d.seq_ack" % i, band(v["seq"] == seq, v["ack"] == ack))
        c.ensure("frame%d.timestamp" % i, ts == ts0)
    c.ensure("counters_untouched", band(c.get(obj, "server_seq") == 1, c.get(obj, "client_seq") == 1))


def window_of(c, payload, base):
    """(start, length) of payload inside base, or None"""
    from pyvc.core import BSlice, BList, to_bytes_val
    p = to_bytes_val(payload)
    if p is base:
        return 0, len_(base)
    if isinstance(p, BSlice) and p.base is base:
        return p.start, p.length
    if isinstance(p.length, int) and p.length == 0:
        return 0, 0
    return None


OUT_FIELDS = ["orient", "flags", "seq", "ack", "pstart", "plen", "ts", "wf"]


def out_project(c, b, base):
    def project(entry):
        pkt, ts = entry
        v = frame_view(c, pkt, b)
        w = (0, 0) if v["payload"] is None else window_of(c, v["payload"], base)
        ok = v["wellformed"] and w is not None and (v["payload"] is None or True)
        if w is None:
            w = (-1, -1)
        has_payload = 0 if v["payload"] is None else 1
        return {"orient": v["orient"], "flags": v["flags"], "seq": v["seq"], "ack": v["ack"], "pstart": w[0],
                "plen": w[1] if has_payload else -1, "ts": ts, "wf": 1 if ok else 0}
    return project


@harness(["C06", "C07", "C01"], "tcp_out.data_packets", functions=[OB + ".build_server_packet", OB + ".build_client_packet"],
         cases=[(d, v6) for d in ("server", "client") for v6 in (False, True)])
def h_data(c, direction, ipv6):
    """one decrypted record of n bytes carried by k >= 1 input packets with timestamps ts[0..k): the call appends
    m <= k data frames (m >= 1 if n > 0) + their acknowledgements; the data payloads are consecutive windows tiling
    decrypted[0:n) exactly; data frame j carries ts[j], is oriented sender->receiver, has seq = old_seq + offset_j and
    ack = the peer's current seq; each ACK is oriented the other way and acknowledges exactly the bytes sent so far;
    the sender's counter grows by n, the peer's is untouched."""
    obj, b = make_builder(c, ipv6)
    n = c.int("record_len", 0, 2 ** 32)
    data = c.bytes("decrypted", length=n)
    s0, c0 = c.int("server_seq", 1, 2 ** 33), c.int("client_seq", 1, 2 ** 33)
    c.set(obj, "server_seq", s0)
    c.set(obj, "client_seq", c0)
    ts = c.token_list("ts", min_len=1)
    k = len_(ts)
    c.assume(k + n < 2 ** 53)               # A-FLOORDIV precondition (lengths are far below 2^53)
    mine, peer = ("server_seq", "client_seq") if direction == "server" else ("client_seq", "server_seq")
    my0, peer0 = (s0, c0) if direction == "server" else (c0, s0)
    fwd, back = (1, 2) if direction == "server" else (2, 1)
    meth = "build_%s_packet" % direction
    if c.native:
        out = c.method(obj, meth, bytes(data), ts)
        c.ensure("no_raise", out.exc is None, kind="raises")
        if out.exc is not None:
            return
        o = c.get(obj, "out")
        c.ensure("even_count", len(o) % 2 == 0)
        m = len(o) // 2
        c.ensure("at_most_k", m <= k)
        off = 0
        for j in range(m):
            (p1, t1), (p2, t2) = o[2 * j], o[2 * j + 1]
            v1, v2 = frame_view(c, p1, b), frame_view(c, p2, b)
            pay = bytes(v1["payload"]) if v1["payload"] is not None else None
            c.ensure("frames.wellformed", v1["wellformed"] and v2["wellformed"] and pay is not None and v2["payload"] is None)
            c.ensure("frames.orientation", v1["orient"] == fwd and v2["orient"] == back)
            c.ensure("frames.flags", v1["flags"] == FLAGS["PA"] and v2["flags"] == FLAGS["A"])
            c.ensure("frames.tiling", pay == bytes(data)[off:off + len(pay or b"")])
            c.ensure("frames.seq", v1["seq"] == my0 + off and v1["ack"] == peer0)
            off += len(pay or b"")
            c.ensure("frames.ack", v2["seq"] == peer0 and v2["ack"] == my0 + off)
            c.ensure("frames.timestamp", t1 == ts[j] and t2 == ts[j])
        c.ensure("frames.cover_all", off == n)
        c.ensure("counter.mine", c.get(obj, mine) == my0 + n)
        c.ensure("counter.peer", c.get(obj, peer) == peer0)
        return
    from pyvc.api import SymList, from_list, forall
    from pyvc.core import bslice
    qual = OB + "." + meth
    p = n // k                                 # spec value of part_len (floor(n / k), lemma A-FLOORDIV)

    def parts_sl(x):
        if isinstance(x, SymList):
            return x
        def proj(v):
            w = window_of(c, v, data)
            return {"start": w[0], "len": w[1]} if w else {"start": -1, "len": -1}
        return from_list(x, "parts", ["start", "len"], proj, inject=lambda vals, kk: bslice(data, vals["start"], vals["start"] + vals["len"]))

    def inv1(e):
        P = parts_sl(e.parts)
        it = e.it
        return band(P.length == it, e.part_len == p, e.record_len == n, e.packet_count == k,
                    e.last_len == it * p, it * p <= n,
                    forall(lambda j: (P.field("start", j) == j * p) & (P.field("len", j) == p), 0, it))

    c.loop(qual, "for i in range(0, packet_count - 1)", invariant=inv1,
           havoc={"parts": lambda cur: parts_sl(cur).fresh("parts")})

    proj_out = out_project(c, b, data)

    def out_sl(x):
        return x if isinstance(x, SymList) else from_list(x, "out", OUT_FIELDS, proj_out)

    def inv2(e):
        P = parts_sl(e.parts)
        O = out_sl(e.self.attrs["out"])
        it = e.it
        m = P.length
        sent = ite(it == 0, 0, P.field("start", it - 1) + P.field("len", it - 1))
        tiling = band(m >= 0, m <= k,
                      forall(lambda j: (P.field("len", j) >= 0) & (P.field("start", j) >= 0) & (P.field("start", j) + P.field("len", j) <= n), 0, m),
                      forall(lambda j: P.field("start", j + 1) == P.field("start", j) + P.field("len", j), 0, m - 1),
                      implies(m > 0, (P.field("start", 0) == 0) & (P.field("start", m - 1) + P.field("len", m - 1) == n)),
                      implies(m == 0, n == 0))
        frames = forall(lambda j: band(
            O.field("wf", 2 * j) == 1, O.field("orient", 2 * j) == fwd, O.field("flags", 2 * j) == FLAGS["PA"],
            O.field("seq", 2 * j) == my0 + P.field("start", j), O.field("ack", 2 * j) == peer0,
            O.field("pstart", 2 * j) == P.field("start", j), O.field("plen", 2 * j) == P.field("len", j),
            O.field("ts", 2 * j) == ts.field("v", j),
            O.field("wf", 2 * j + 1) == 1, O.field("orient", 2 * j + 1) == back, O.field("flags", 2 * j + 1) == FLAGS["A"],
            O.field("seq", 2 * j + 1) == peer0, O.field("ack", 2 * j + 1) == my0 + P.field("start", j) + P.field("len", j),
            O.field("plen", 2 * j + 1) == -1, O.field("ts", 2 * j + 1) == ts.field("v", j)), 0, it)
        return band(tiling, O.length == 2 * it, e.self.attrs[mine] == my0 + sent, e.self.attrs[peer] == peer0, frames)

    c.loop(qual, "for i in range(0, len(parts))", invariant=inv2,
           havoc={"self.out": lambda cur: out_sl(cur).fresh("out")})
    out = c.method(obj, meth, data, ts)
    c.ensure("no_raise", out.exc is None, kind="raises")
    if out.exc is not None:
        return
    # post: stated over what the caller sees (self.out and the counters); the loop-2 invariant at exit carries
    # the per-frame facts, the tiling part of it says the payload windows partition decrypted[0:n)
    O = out_sl(c.get(obj, "out"))
    c.ensure("even_count", O.length % 2 == 0)
    c.ensure("at_most_k", O.length <= 2 * k)
    c.ensure("counter.mine", c.get(obj, mine) == my0 + n)
    c.ensure("counter.peer", c.get(obj, peer) == peer0)
    c.cover("reached")


h_data.must_cover = ["reached"]


# ------------------------------------------------------------------------------------------------
# build(): loop contract over a record list of symbolic length

@harness(["C06", "C07", "C08", "C13", "C01"], "tcp_out.build", functions=[OB + ".build"], cases=[(False,), (True,)])
def h_build(c, ipv6):
    """for ANY list of exportable records (each with >= 1 carrying packet - established by the framing contract -
    and a plaintext): build() raises nothing; the synthetic handshake is emitted exactly when the first record of a
    conversation is reached, stamped with the capture time of that record's first carrying packet; every record is
    handed to the builder of ITS direction with its own plaintext and exactly the timestamps of its carrying packets,
    in order; the placeholder plaintext is never used; the result is the accumulated frame list."""
    if c.native:
        return h_build_native(c, ipv6)
    from pyvc.api import SymList, forall
    from pyvc.core import sym_bytes, SymInt, BBase
    obj, b = make_builder(c, ipv6)
    n = c.int("n_records", 0, None)
    E = c.E

    # the record list: element i = (plaintext_i, record_i, isserver_i); record_i.metadata = packets with timestamps
    plen, isserver, mlen = c.uf("rec_plen"), c.uf("rec_isserver", boolean=True), c.uf("rec_mlen")
    mts = c.uf("rec_ts", nargs=2)
    bases = {}

    def element(vals, k):
        c.assume((plen(k) >= 0) & (mlen(k) >= 1))                # precondition: >= 1 carrying packet, plaintext present
        pt = BBase(E.fresh_name("plaintext"), plen(k))
        md = SymList("metadata", ["ts"], mlen(k), None, project=None,
                     inject=lambda v, j: c.record("Packet", timestamp=v["ts"]))
        import z3
        md.arrays["ts"] = z3.Lambda([z3.Int("j!md")], T_(mts(k, SymInt(z3.Int("j!md")))))
        rec = c.record("TlsRecord", metadata=md)
        el = (pt, rec, isserver(k))
        bases[id(pt)] = k
        el_index[id(rec)] = k
        return el
    el_index = {}
    records = SymList("records", [], n, {}, project=None, inject=element)
    c.set(obj, "decrypted_records", records)

    state = {"handshakes": 0}
    # ghost: bytes exported per direction before record k (prefix sums, unfolded at the loop counter)
    SS, SC = c.uf("sent_by_server"), c.uf("sent_by_client")
    c.assume((SS(0) == 0) & (SC(0) == 0))

    def s_handshake(ctx, slf):
        state["handshakes"] += 1
        k = state.get("current")
        c.ensure("handshake.only_at_conversation_start", k is not None and c.prove(k == 0))
        c.ensure("handshake.ts_zero_is_first_packet_of_first_record", k is not None and slf.attrs["ts_zero"] == mts(k, 0))
        return None

    def s_data(direction):
        def s(ctx, slf, decrypted, ts):
            k = state.get("current")
            c.ensure("dispatch.direction", k is not None and c.prove(isserver(k) if direction == "server" else bnot(isserver(k))))
            c.ensure("dispatch.plaintext_is_the_records", id(decrypted) in bases and bases[id(decrypted)] is k)
            c.ensure("dispatch.at_least_one_timestamp", len_(ts) >= 1)          # precondition of the callee
            c.ensure("dispatch.timestamps_are_the_carrying_packets",
                     band(len_(ts) == mlen(k), forall(lambda j: ts.field("v", j) == mts(k, j), 0, mlen(k))))
            state["data_calls"] = state.get("data_calls", 0) + 1
            # post-condition of the callee (proved by tcp_out.data_packets): frames start at the sender's current
            # sequence number, tile the plaintext, and the sender's counter advances by its length
            mine = "server_seq" if direction == "server" else "client_seq"
            c.ensure("sequence.frames_start_at_1_plus_bytes_sent_before",
                     slf.attrs[mine] == 1 + (SS if direction == "server" else SC)(k))
            slf.attrs[mine] = slf.attrs[mine] + len_(decrypted)
            return None
        return s
    c.summary_override(OB + ".build_ack_handshake", s_handshake)
    c.summary_override(OB + ".build_server_packet", s_data("server"))
    c.summary_override(OB + ".build_client_packet", s_data("client"))

    qual = OB + ".build"
    c.loop(qual, "for record in self.decrypted_records", label="scan",
           invariant=lambda e: band(c.is_bool(e.self.attrs["no_application_records"]),
                                    implies(bnot(e.self.attrs["no_application_records"]), e.it >= 1),
                                    implies(e.self.attrs["no_application_records"], True)),
           havoc={}, ghost_step=None)
    # the first loop of build() and the second have the same head text; distinguish by order of registration:
    # both use the same (weak) invariant for the flag; the main loop's facts are call-site obligations above.

    def main_inv(e):
        return band(c.is_bool(e.self.attrs["conn_reset"]), implies(e.it == 0, e.self.attrs["conn_reset"]))

    def track(phase, e):
        if phase == "havoc":
            state["current"] = e.it
            k = e.it
            c.assume(implies(k < n, band(SS(k + 1) == SS(k) + ite(isserver(k), plen(k), 0),
                                         SC(k + 1) == SC(k) + ite(isserver(k), 0, plen(k)))))

    # inner loop: ts = [p.timestamp for p in record[1].metadata]
    def ts_sl(x):
        if isinstance(x, SymList):
            return x
        from pyvc.api import from_list
        return from_list(x, "ts", ["v"], lambda v: {"v": v}, inject=lambda vals, kk: vals["v"])

    c.loop(qual, "for packet in record[1].metadata", label="timestamps",
           invariant=lambda e: band(ts_sl(e.ts).length == e.it,
                                    forall(lambda j: ts_sl(e.ts).field("v", j) == mts(state["current"], j), 0, e.it)),
           havoc={"ts": lambda cur: ts_sl(cur).fresh("ts")})
    c.I.loops[qual] = [sp for sp in c.I.loops[qual] if sp.label != "scan"] + [
        __import__("pyvc.interp", fromlist=["LoopSpec"]).LoopSpec("for record in self.decrypted_records", lambda e: main_or_scan(e), None, {}, "records", track)]

    def main_or_scan(e):
        # both top-level loops iterate self.decrypted_records; the invariant is the conjunction that each needs
        a = e.self.attrs
        r = True
        if "no_application_records" in a:
            r = band(r, c.is_bool(a["no_application_records"]))
        if "conn_reset" in a:
            # no record of the list is None (Session never appends None), so the conversation starts once
            r = band(r, c.is_bool(a["conn_reset"]), eq(a["conn_reset"], e.it == 0),
                     a["server_seq"] == 1 + SS(e.it), a["client_seq"] == 1 + SC(e.it))
        return r
    out = c.method(obj, "build")
    c.ensure("no_raise", out.exc is None, kind="raises")
    if out.exc is None:
        c.ensure("returns_list_or_accumulated_out", (out.value is c.get(obj, "out")) or (isinstance(out.value, list) and out.value == []))
        c.cover("returned")


from pyvc.api import MODE as _MODE  # noqa: E402
if _MODE == "symbolic":
    from pyvc.core import T as T_  # noqa: E402


def h_build_native(c, ipv6):
    """native evaluation of the same contract on a concrete record list drawn from the model / at random"""
    obj, b = make_builder(c, ipv6)
    n = min(c.int("n_records", 0, None), 6)
    recs, want = [], []
    for i in range(n):
        pl = min(c.int("plen%d" % i, 0, 300), 300)
        m = 1 + c.int("mlen%d" % i, 0, 3) % 3
        srv = c.bool("srv%d" % i)
        ts = [float(100 * i + j) for j in range(m)]
        md = [c.record("Packet", timestamp=t) for t in ts]
        pt = bytes((i + j) % 256 for j in range(pl))
        recs.append((pt, c.record("TlsRecord", metadata=md), srv))
        want.append((pt, ts, srv))
    c.set(obj, "decrypted_records", recs)
    calls = []
    import unittest.mock as um
    cls = type(obj)
    with um.patch.object(cls, "build_ack_handshake", lambda s: calls.append(("hs", s.ts_zero))), \
            um.patch.object(cls, "build_server_packet", lambda s, d, t: calls.append(("server", d, list(t)))), \
            um.patch.object(cls, "build_client_packet", lambda s, d, t: calls.append(("client", d, list(t)))):
        out = c.method(obj, "build")
    c.ensure("no_raise", out.exc is None, kind="raises")
    if out.exc is not None:
        return
    exp = []
    for i, (pt, ts, srv) in enumerate(want):
        if i == 0:
            exp.append(("hs", ts[0]))
        exp.append(("server" if srv else "client", pt, ts))
    c.ensure("dispatch.direction", [x[0] for x in calls] == [x[0] for x in exp])
    c.ensure("dispatch.plaintext_is_the_records", [x[1] for x in calls if x[0] != "hs"] == [x[1] for x in exp if x[0] != "hs"])
    c.ensure("dispatch.timestamps_are_the_carrying_packets", [x[2] for x in calls if x[0] != "hs"] == [x[2] for x in exp if x[0] != "hs"])
    c.ensure("handshake.ts_zero_is_first_packet_of_first_record", [x for x in calls if x[0] == "hs"] == [x for x in exp if x[0] == "hs"])
