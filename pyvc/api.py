"""contract API used by /verif/contracts/*.py.

The same contract text runs in two modes:
  symbolic (python3-vt, z3): ctx.call executes the REAL function's AST symbolically, ctx.ensure emits
      a verification condition for the current path;
  native   (/venv/bin/python, no z3): ctx.<input>(name) returns the counter-model's value, ctx.call
      calls the REAL function in CPython, ctx.ensure evaluates the same clause concretely (replay).
"""
import os

NATIVE = bool(os.environ.get("PYVC_NATIVE"))
if not NATIVE:
    try:
        import z3  # noqa
    except Exception:
        NATIVE = True

REGISTRY = {"harness": [], "summary": {}, "loops": {}, "models": {}}
# qualname -> fn(ctx) -> instance built by the REAL constructor; ctx.obj(qualname, **attrs) starts from it and then applies attrs
COMPLETERS = {}


class Harness:
    def __init__(self, prop, name, fn, cases, functions, doc, inline, timeout, tier):
        self.prop = prop
        self.name = name
        self.fn = fn
        self.cases = cases
        self.functions = functions
        self.doc = doc
        self.inline = inline
        self.timeout = timeout
        self.tier = tier


def harness(prop, name, functions=(), cases=None, inline=(), timeout=None, tier="quick"):
    """register a contract harness.  `functions`: qualnames of the repo functions whose bodies this
    harness puts under contract.  `cases`: list of tuples (finite case split done outside the solver;
    every case is verified)."""
    props = [prop] if isinstance(prop, str) else list(prop)

    def deco(fn):
        REGISTRY["harness"].append(Harness(props, name, fn, cases if cases is not None else [()], list(functions),
                                           fn.__doc__ or "", set(inline), timeout, tier))
        return fn
    return deco


def summary(qualname):
    """register the contract of `qualname` as used at call sites (assume-guarantee): the summary is a
    spec function  s(ctx, *args) -> value  that may call ctx.raise_().  A harness must prove the body
    against it (ctx.check_against_summary)."""
    def deco(fn):
        REGISTRY["summary"][qualname] = fn
        return fn
    return deco


def loop(qualname, anchor, invariant, decreases=None, havoc=None, label=None, ghost_step=None, callee_frame=None):
    REGISTRY["loops"].setdefault(qualname, []).append(
        dict(anchor=anchor, invariant=invariant, decreases=decreases, havoc=havoc, label=label, ghost_step=ghost_step, callee_frame=callee_frame))


class SpecRaise(Exception):
    def __init__(self, cls):
        self.cls = cls


class Outcome:
    def __init__(self, value=None, exc=None, msg="", lineno=None, where=None):
        self.value = value
        self.exc = exc
        self.msg = msg
        self.lineno = lineno
        self.where = where

    def __repr__(self):
        return "Outcome(exc=%r, value=%r)" % (self.exc, self.value)


if NATIVE:
    from .native_ops import *  # noqa
else:
    from .sym_ops import *  # noqa
