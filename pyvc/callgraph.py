"""barrier-aware static call graph of the repository (syntactic, conservative), used by the composition obligations of C03:
which functions can be entered from main.run() WITHOUT passing a `try ... except Exception` barrier (U), and which only behind one (P).

Resolution: names through the module's imports (absolute and relative) and definitions; `self.m()` through the class and its bases;
`super().m()` through the bases; `<receiver>.m()` through per-function receiver hints, else - conservatively - every repository method
called m (dunder names excepted: constructors are reached through class names).  Calls through values (frame_type[key](...)) are not
resolved; the harness that uses this graph lists what that leaves out."""
import ast
import os

BROAD = {"Exception", "BaseException"}
BUILTIN_METHOD_NAMES = {"append", "extend", "get", "keys", "update", "clear", "sort", "add", "remove", "hex", "lower", "split", "replace", "read", "seek",
                        "close", "finalize", "derive", "copy", "pop", "items", "values", "insert", "index", "encode", "decode", "join", "format", "write",
                        "to_bytes", "from_bytes", "fromhex", "match", "compile", "startswith", "endswith", "strip", "rstrip", "count", "union"}


class Graph:
    def __init__(self, root, hints=None):
        self.hints = hints or {}
        self.mods, self.funcs, self.classes, self.bases, self.imports = {}, {}, {}, {}, {}
        for dp, _dn, fn in os.walk(os.path.join(root, "tlexport")):
            for f in sorted(fn):
                if f.endswith(".py"):
                    p = os.path.join(dp, f)
                    name = os.path.relpath(p, root)[:-3].replace("/", ".")
                    if name.endswith(".__init__"):
                        name = name[:-9]
                    with open(p) as fh:
                        self.mods[name] = ast.parse(fh.read())
        for m, tree in self.mods.items():
            self.imports[m] = {}
            pkg = m.rsplit(".", 1)[0] if "." in m else m
            for n in tree.body:
                if isinstance(n, ast.FunctionDef):
                    self.funcs[m + "." + n.name] = n
                elif isinstance(n, ast.ClassDef):
                    q = m + "." + n.name
                    self.classes[q] = {}
                    self.bases[q] = [ast.unparse(b) for b in n.bases]
                    for k in n.body:
                        if isinstance(k, ast.FunctionDef):
                            self.funcs[q + "." + k.name] = k
                            self.classes[q][k.name] = q + "." + k.name
                elif isinstance(n, ast.ImportFrom):
                    base = n.module or ""
                    if n.level:
                        parts = m.split(".")[:-n.level] if n.level <= len(m.split(".")) else []
                        base = ".".join(parts + ([n.module] if n.module else []))
                    if base.startswith("tlexport"):
                        for a in n.names:
                            self.imports[m][a.asname or a.name] = base + "." + a.name
                elif isinstance(n, ast.Import):
                    for a in n.names:
                        if a.name.startswith("tlexport"):
                            self.imports[m][a.asname or a.name.split(".")[-1]] = a.name
        self.methods_by_name = {}
        for c, ms in self.classes.items():
            for k, q in ms.items():
                self.methods_by_name.setdefault(k, []).append(q)

    def _class_of(self, q):
        c = q.rsplit(".", 1)[0]
        return c if c in self.classes else None

    def _module_of(self, q):
        c = self._class_of(q)
        return (c or q).rsplit(".", 1)[0]

    def _resolve_base(self, m, text):
        t = self.imports[m].get(text) or m + "." + text
        return t if t in self.classes else None

    def _lookup_method(self, cls, name, seen=()):
        if cls in seen:
            return None
        if name in self.classes.get(cls, {}):
            return self.classes[cls][name]
        for b in self.bases.get(cls, []):
            bq = self._resolve_base(cls.rsplit(".", 1)[0], b)
            if bq:
                r = self._lookup_method(bq, name, seen + (cls,))
                if r:
                    return r
        return None

    def calls_of(self, q):
        node, m, cls = self.funcs[q], self._module_of(q), self._class_of(q)
        hints = self.hints.get(q, {})
        out, unresolved = [], []

        def visit(n, prot):
            if isinstance(n, ast.Try):
                broad = any(h.type is None or (isinstance(h.type, ast.Name) and h.type.id in BROAD) for h in n.handlers)
                for b in n.body:
                    visit(b, prot or broad)
                for h in n.handlers:
                    for b in h.body:
                        visit(b, prot)
                for b in n.orelse + n.finalbody:
                    visit(b, prot)
                return
            if isinstance(n, (ast.FunctionDef, ast.Lambda)) and n is not node:
                return
            if isinstance(n, ast.Call):
                f, tgt = n.func, None
                if isinstance(f, ast.Name):
                    t = self.imports[m].get(f.id) or (m + "." + f.id if (m + "." + f.id in self.funcs or m + "." + f.id in self.classes) else None)
                    if t:
                        tgt = [self._lookup_method(t, "__init__")] if t in self.classes else [t]
                elif isinstance(f, ast.Attribute):
                    recv = ast.unparse(f.value)
                    if recv == "self" and cls:
                        r = self._lookup_method(cls, f.attr)
                        tgt = [r] if r else None
                    elif isinstance(f.value, ast.Call) and isinstance(f.value.func, ast.Name) and f.value.func.id == "super" and cls:
                        tgt = []
                        for b in self.bases.get(cls, []):
                            bq = self._resolve_base(m, b)
                            r = self._lookup_method(bq, f.attr) if bq else None
                            if r:
                                tgt.append(r)
                    elif recv in self.imports[m] and self.imports[m][recv] + "." + f.attr in self.funcs:
                        tgt = [self.imports[m][recv] + "." + f.attr]
                    elif recv in hints:
                        r = self._lookup_method(hints[recv], f.attr)
                        tgt = [r] if r else None
                    elif f.attr.startswith("__") or f.attr in BUILTIN_METHOD_NAMES:
                        tgt = None
                    elif f.attr in self.methods_by_name:
                        tgt = list(self.methods_by_name[f.attr])
                elif isinstance(f, ast.Subscript):
                    unresolved.append(ast.unparse(f))
                for t in tgt or []:
                    if t and t in self.funcs:
                        out.append((t, prot))
            for ch in ast.iter_child_nodes(n):
                visit(ch, prot)
        for st in node.body:
            visit(st, False)
        return out, unresolved

    def partition(self, entry, cut_edges=()):
        """(U, P, unresolved): functions reachable from `entry` outside every broad try, only inside one, and the call expressions the
        resolution could not follow.  `cut_edges` are (caller, callee) pairs removed from the UNPROTECTED graph (each justified by a
        discharged obligation of the harness that uses this)"""
        U, P, unresolved = set(), set(), {}
        todo = [(entry, False)]
        while todo:
            q, prot = todo.pop()
            if q in U or (prot and q in P):
                continue
            (P if prot else U).add(q)
            calls, unres = self.calls_of(q)
            if unres:
                unresolved[q] = unres
            for t, p2 in calls:
                if not (prot or p2) and (q, t) in cut_edges:
                    continue
                todo.append((t, prot or p2))
        return U, P - U, unresolved
