"""./check <property> [--tier quick|thorough] [--only substr] [--jobs N]
   ./check --replay <file>

exit 0: every obligation discharged (non-zero count, covers reached)   | KNOWN-FINDING lines if any
exit 1: VIOLATION property=<id> replay=<path> [no-failing-input-found]
exit 2: UNDECIDED (unknown / timeout / unsupported syntax / stale anchor) - never a verdict
exit 3: checker error
"""
import argparse
import json
import os
import subprocess
import sys
import time

HERE = os.path.dirname(os.path.dirname(os.path.abspath(__file__)))
sys.path.insert(0, HERE)
NATIVE_PY = os.environ.get("TLEXPORT_NATIVE_PY", "/venv/bin/python")


def native_replay(path, timeout=180):
    env = dict(os.environ)
    env["PYVC_NATIVE"] = "1"
    env["PYTHONPATH"] = HERE
    env.pop("PYTHONHASHSEED", None)
    try:
        p = subprocess.run([NATIVE_PY, "-m", "pyvc.replay", path], cwd=HERE, env=env, capture_output=True,
                           text=True, timeout=timeout)
    except subprocess.TimeoutExpired:
        return {"reproduced": False, "error": "native replay timed out"}
    for line in reversed(p.stdout.strip().splitlines()):
        try:
            return json.loads(line)
        except Exception:
            continue
    return {"reproduced": False, "error": "no replay output", "stderr": p.stderr[-2000:]}


def native_differential(prop, cfg, seed, trials=400):
    """thorough tier: the SAME contract text evaluated natively (CPython, real code) on seeded random inputs - every
    clause must hold on the tree; a failing clause here with all VCs discharged would mean the engine is unsound"""
    env = dict(os.environ)
    env.update(PYVC_NATIVE="1", PYTHONPATH=HERE, VERIF_SEED=str(seed))
    out = []
    t0 = time.time()
    try:
        p = subprocess.run([NATIVE_PY, "-m", "pyvc.replay", "--fuzz", ",".join(cfg["modules"]), "@" + prop, str(trials)], cwd=HERE, env=env,
                           capture_output=True, text=True, timeout=1500)
        doc = None
        for line in reversed(p.stdout.strip().splitlines()):
            try:
                doc = json.loads(line)
                break
            except Exception:
                continue
    except subprocess.TimeoutExpired:
        doc = None
    dt = time.time() - t0
    if doc is None:
        return [{"name": "cpython_differential", "verdict": "unknown", "time_s": dt, "backend": "cpython", "kind": "differential",
                 "detail": "native differential did not finish"}]
    ob = {"name": "cpython_differential[%d runs, %d clauses evaluated natively]" % (doc["runs"], doc["clauses"]),
          "verdict": "discharged" if not doc["failed"] and not doc["errors"] else "refuted", "time_s": dt, "backend": "cpython", "kind": "differential"}
    if doc["failed"] or doc["errors"]:
        ob["model"] = {"failed_clauses": doc["failed"], "errors": doc["errors"][:2]}
        ob["native"] = {"reproduced": bool(doc["failed"]), "observed": doc["failed"]}
    return [ob]


def native_search_for_undecided(prop, cfg, hs, results, seed, trials=300):
    """a harness the symbolic engine could not decide (syntax outside the verified subset - typical after a refactoring) is not left
    at 'undecided' without trying: the SAME contract text is evaluated natively (CPython, the real code) on seeded random inputs.
    A clause that fails there is a real failing input (reported as a violation, replayable); finding none proves nothing and the
    verdict stays UNDECIDED.  This is a bounded search and is labelled as such in the evidence."""
    hmap = dict(hs)
    names = sorted({hmap[hidx].name for hidx, cidx, r in results if r["undecided"]})
    out = []
    env = dict(os.environ)
    env.update(PYVC_NATIVE="1", PYTHONPATH=HERE, VERIF_SEED=str(seed))
    env.pop("PYTHONHASHSEED", None)
    procs = []
    for n in names[:16]:
        procs.append((n, time.time(), subprocess.Popen([NATIVE_PY, "-m", "pyvc.replay", "--fuzz-exact", ",".join(cfg["modules"]), n, str(trials)], cwd=HERE, env=env,
                                                       stdout=subprocess.PIPE, stderr=subprocess.PIPE, text=True)))
    for n, t0, p in procs:
        try:
            so, se = p.communicate(timeout=600)
        except subprocess.TimeoutExpired:
            p.kill()
            continue
        doc = None
        for line in reversed(so.strip().splitlines()):
            try:
                doc = json.loads(line)
                break
            except Exception:
                continue
        if not doc or not doc.get("failed"):
            continue
        for clause, cnt in sorted(doc["failed"].items()):
            out.append({"name": clause, "verdict": "refuted", "time_s": time.time() - t0, "backend": "cpython-native-search", "kind": "native_search",
                        "harness": n, "case_index": 0, "case": doc.get("first_failing_trial", {}).get(clause, {}).get("case"),
                        "model": {"native_search": {"seed": seed, "trials": trials, "failing_trials": cnt}},
                        "native_search": {"seed": seed, "trials": trials},
                        "native": {"reproduced": True, "observed": doc.get("first_failing_trial", {}).get(clause), "how": "seeded native search of the undecided harness (bounded)"}})
    return out


def second_opinion(smt2, timeout_s):
    """z3 left it unknown: ask cvc5 and z3 4.8.12 on the SMT-LIB text"""
    import tempfile
    out = []
    with tempfile.NamedTemporaryFile("w", suffix=".smt2", delete=False) as f:
        f.write(smt2)
        if "(check-sat)" not in smt2:
            f.write("\n(check-sat)\n")
        path = f.name
    try:
        for name, cmd in (("cvc5-1.0.3", ["/usr/bin/cvc5", "--lang", "smt2", "--tlimit=%d" % (timeout_s * 1000), path]),
                          ("z3-4.8.12", ["/usr/bin/z3", "-T:%d" % timeout_s, path])):
            try:
                p = subprocess.run(cmd, capture_output=True, text=True, timeout=timeout_s + 5)
                first = (p.stdout.strip().splitlines() or [""])[0].strip()
            except Exception as e:
                first = "error:%r" % (e,)
            out.append((name, first))
            if first in ("unsat", "sat"):
                return name, first, out
    finally:
        os.unlink(path)
    return None, "unknown", out


def main(argv=None):
    ap = argparse.ArgumentParser()
    ap.add_argument("prop", nargs="?")
    ap.add_argument("--tier", default=os.environ.get("VERIF_TIER", "quick"))
    ap.add_argument("--only")
    ap.add_argument("--jobs", type=int)
    ap.add_argument("--replay")
    ap.add_argument("--no-evidence", action="store_true")
    ap.add_argument("-v", action="store_true")
    a = ap.parse_args(argv)
    if a.replay:
        r = native_replay(a.replay)
        print(json.dumps(r, indent=1))
        return 0 if not r.get("reproduced") else 1
    if a.tier not in ("quick", "thorough"):
        a.tier = "quick"
    seed = int(os.environ.get("VERIF_SEED", "0") or 0)
    t0 = time.time()
    os.environ["PYVC_TIER"] = a.tier          # contracts widen their finite case sets / bounds in the thorough tier
    import contracts
    from pyvc import runner, api
    cfg = contracts.PROPERTIES.get(a.prop)
    if cfg is None:
        print("unknown or unclaimed property %s" % a.prop)
        return 3
    try:
        runner.load_contracts(cfg["modules"])
    except Exception:
        import traceback
        traceback.print_exc()
        return 3
    # extra (non-SMT) obligations of this property: enumerations / frame checks
    hs, results = runner.run_property(a.prop, tier=a.tier, jobs=a.jobs, only=a.only)
    extra = []
    for fn in cfg.get("extra", []):
        extra.extend(fn(a.tier, seed))
    extra.extend(native_search_for_undecided(a.prop, cfg, hs, results, seed))
    if a.tier == "thorough" and not a.only:
        extra.extend(native_differential(a.prop, cfg, seed))
    return finish(a, cfg, hs, results, extra, seed, t0)


def finish(a, cfg, hs, results, extra, seed, t0):
    import contracts
    from pyvc import runner, api
    prop = a.prop
    prog = runner.program()
    obligations = []
    undecided, errors = [], []
    covers = {}
    summaries, externals, executed = set(), set(), set()
    solver_time = 0.0
    max_ob_time = 0.0
    paths = 0
    per_harness = {}
    hmap = dict(hs)
    for hidx, cidx, r in results:
        h = hmap[hidx]
        ph = per_harness.setdefault(h.name, {"cases": 0, "paths": 0, "obligations": 0, "discharged": 0})
        ph["cases"] += 1
        ph["paths"] += r["paths"]
        paths += r["paths"]
        solver_time += r["solver_time"]
        for o in r["obligations"]:
            o["harness"] = h.name
            o["case_index"] = cidx
            o["case"] = r["case"]
            obligations.append(o)
            ph["obligations"] += 1
            ph["discharged"] += o["verdict"] == "discharged"
            max_ob_time = max(max_ob_time, o["time_s"])
        for u in r["undecided"]:
            undecided.append({"harness": h.name, "case": r["case"], **u})
        for e in r["errors"]:
            errors.append({"harness": h.name, "case": r["case"], "error": e})
        for k, v in r["covers"].items():
            covers[k] = covers.get(k, 0) + v
        summaries |= set(r["summaries"])
        externals |= set(r["externals"])
        executed |= set(r["executed"])
        if r["paths"] == 0 or (not r["obligations"] and not r["undecided"] and not r["errors"] and not r["covers"]):
            errors.append({"harness": h.name, "case": r["case"], "error": "vacuous: no path/obligation generated"})
    for o in extra:
        obligations.append(o)
        max_ob_time = max(max_ob_time, o.get("time_s", 0))

    # second opinions for unknowns
    backends = {}
    for o in obligations:
        if o["verdict"] == "unknown" and o.get("smt2"):
            name, verdict, tried = second_opinion(o["smt2"], 20 if a.tier == "quick" else 120)
            o["second_opinion"] = tried
            if verdict == "unsat":
                o["verdict"] = "discharged"
                o["backend"] = name
            elif verdict == "sat":
                o["verdict"] = "refuted"
                o["backend"] = name
        backends[o["backend"]] = backends.get(o["backend"], 0) + 1

    refuted = [o for o in obligations if o["verdict"] == "refuted"]
    unknown = [o for o in obligations if o["verdict"] == "unknown"]
    discharged = sum(1 for o in obligations if o["verdict"] == "discharged")

    # summaries used must be proved by some harness of this run's contract set
    proved_functions = set()
    for h in api.REGISTRY["harness"]:
        proved_functions |= set(h.functions)
    unproved_summaries = sorted(s for s in summaries if s not in proved_functions)

    # covers each harness demands
    missing_covers = []
    for _, h in hs:
        for mc in getattr(h.fn, "must_cover", []):
            if covers.get(h.name + "." + mc, 0) == 0 and not a.only:
                missing_covers.append(h.name + "." + mc)

    # known findings
    kf_path = os.path.join(HERE, "known_findings.json")
    known = {"open": [], "fixed": []}
    if os.path.exists(kf_path):
        with open(kf_path) as f:
            known = json.load(f)
    open_kf = [k for k in known.get("open", []) if k["property"] == prop or prop in k.get("also", [])]

    # replays
    violations = []
    rdir = os.path.join(HERE, "replays", prop)
    by_name = {}
    for o in refuted:
        by_name.setdefault(o["name"], []).append(o)
    if by_name:
        os.makedirs(rdir, exist_ok=True)
    for name, obs in sorted(by_name.items()):
        chosen = None
        tried = 0
        rp_path = None
        for o in obs[:6]:
            tried += 1
            rp = {"property": prop, "obligation": name, "harness": o.get("harness"), "case_index": o.get("case_index"),
                  "case": o.get("case"), "contract_modules": cfg["modules"], "model": o.get("model"),
                  "repo": prog.repo, "solver": o.get("backend"), "solver_verdict": "sat (negated VC satisfiable)",
                  "replay_cmd": "cd /verif && ./check --replay <this file>", "kind": o.get("kind")}
            safe = name.replace("/", "_").replace(" ", "_")
            rp_path = os.path.join(rdir, "%s.%d.json" % (safe, tried))
            if o.get("native") is not None:  # extra obligations replay themselves
                rp["native"] = o["native"]
                if o.get("native_search"):
                    rp["native_search"] = o["native_search"]
                with open(rp_path, "w") as f:
                    json.dump(rp, f, indent=1, default=str)
                if o["native"].get("reproduced"):
                    chosen = (rp_path, o["native"])
                    break
                continue
            with open(rp_path, "w") as f:
                json.dump(rp, f, indent=1, default=str)
            if o.get("model") is None:
                continue
            res = native_replay(rp_path)
            rp["native"] = res
            with open(rp_path, "w") as f:
                json.dump(rp, f, indent=1, default=str)
            if res.get("reproduced"):
                chosen = (rp_path, res)
                break
        violations.append({"obligation": name, "count": len(obs), "replay": chosen[0] if chosen else rp_path,
                           "reproduced": bool(chosen)})

    wall = time.time() - t0
    # evidence
    funcs = []
    fn_names = set()
    for _, h in hs:
        fn_names |= set(h.functions)
    from pyvc.interp import Interp
    I = Interp(prog)
    for q in sorted(fn_names):
        try:
            fv = I.resolve(q)
            funcs.append(prog.span(fv))
        except Exception as e:
            funcs.append({"function": q, "error": "cannot resolve: %r" % (e,)})
    samples = []
    for o in obligations:
        if o.get("smt2") and len(samples) < 3:
            samples.append({"obligation": o["name"], "case": o.get("case"), "verdict": o["verdict"],
                            "backend": o["backend"], "time_s": o["time_s"], "smt2": o["smt2"][:6000]})
    for o in obligations[:5]:
        samples.append({"obligation": o["name"], "case": o.get("case"), "verdict": o["verdict"], "backend": o["backend"],
                        "time_s": o["time_s"], "kind": o.get("kind")})
    names = {}
    for o in obligations:
        d = names.setdefault(o["name"], {"vcs": 0, "discharged": 0, "kind": o.get("kind")})
        d["vcs"] += 1
        d["discharged"] += o["verdict"] == "discharged"
    trusted = sorted("external (assumed contract): " + e for e in externals) + \
        ["callee contract assumed here but proved in another property's run: " + s for s in unproved_summaries] + \
        list(cfg.get("trusted_base", []))
    ev = {
        "property_id": prop, "tier": a.tier, "seed": seed, "level": cfg["level"],
        "coverage": {
            "obligations": len(obligations), "discharged": discharged,
            "checker_cmd": "cd /verif && ./check %s --tier %s" % (prop, a.tier),
            "trusted_base": trusted,
            "samples": samples,
            "explanation": cfg.get("explanation", ""),
            "obligation_names": names,
            "functions_under_contract": funcs,
            "functions_symbolically_executed": sorted(executed),
            "callee_contracts_used_at_call_sites": sorted(summaries),
            "per_harness": per_harness,
            "paths": paths,
            "backends": backends,
            "solver_time_s": {"total": round(solver_time, 3), "max_single_obligation": round(max_ob_time, 4)},
            "covers": covers,
            "undecided": undecided[:50], "refuted": [{k: v for k, v in o.items() if k != "smt2"} for o in refuted[:20]],
            "unknown": [{k: v for k, v in o.items() if k != "smt2"} for o in unknown[:20]],
            "bounded": cfg.get("bounded", []),
            "known_findings": open_kf,
            "composition_assumptions": cfg.get("composition_assumptions", []),
            "not_under_contract": cfg.get("not_under_contract", []),
        },
        "assumptions": list(cfg.get("assumptions", [])) + contracts.COMMON_ASSUMPTIONS,
        "wall_s": round(wall, 2),
        "violations": len(violations),
    }
    if not a.no_evidence and not a.only:
        os.makedirs(os.path.join(HERE, "evidence"), exist_ok=True)
        with open(os.path.join(HERE, "evidence", prop + ".json"), "w") as f:
            json.dump(ev, f, indent=1, default=str)

    print("property %s tier %s: %d obligations, %d discharged, %d refuted, %d unknown, %d undecided; %d paths; %.1fs"
          % (prop, a.tier, len(obligations), discharged, len(refuted), len(unknown), len(undecided), paths, wall))
    if a.v:
        for n, d in sorted(names.items()):
            print("   %-70s %d/%d" % (n, d["discharged"], d["vcs"]))
    if errors:
        for e in errors[:5]:
            print("CHECKER-ERROR harness=%s case=%s\n%s" % (e["harness"], e["case"], e["error"]))
        return 3
    if len(obligations) == 0:
        print("CHECKER-ERROR no obligations generated (vacuous run)")
        return 3
    if missing_covers and not violations and not unknown and not undecided:
        # (with refuted or undecided obligations the paths behind them were never explored: that is a verdict, not vacuity)
        print("CHECKER-ERROR vacuity guard: covers not reached: %s" % ", ".join(missing_covers))
        return 3
    rc = 0
    for k in open_kf:
        if a.only and k.get("harness") and a.only not in k["harness"]:
            continue
        w = os.path.join(HERE, k["witness"])
        rp = json.load(open(w))
        rp["repo"] = prog.repo
        tmpw = os.path.join(HERE, "replays", prop, "known-" + os.path.basename(w))
        os.makedirs(os.path.dirname(tmpw), exist_ok=True)
        json.dump(rp, open(tmpw, "w"), indent=1)
        os.environ["PYVC_FOLLOWUP"] = "0"
        res = native_replay(tmpw)
        os.environ.pop("PYVC_FOLLOWUP", None)
        if res.get("reproduced"):
            print("KNOWN-FINDING: property=%s %s" % (prop, k["what"]))
        elif res.get("precondition_failed") or res.get("error"):
            # the witness could not be EVALUATED on this tree (the contract's state description does not fit it): no verdict
            print("UNDECIDED property=%s obligation=known-finding-witness[%s] reason=%s" % (prop, k["id"], (res.get("precondition_failed") or res.get("error"))[:200]))
            rc = max(rc, 2)
        else:
            print("CHECKER-ERROR known finding %s: its witness no longer fails on this tree (%s); known_findings.json is stale"
                  % (k["id"], json.dumps(res)[:300]))
            rc = 3
    if violations:
        for u in undecided[:5]:
            print("UNDECIDED property=%s obligation=%s[%s] reason=%s" % (prop, u["harness"], u["case"], u["reason"]))
        for v in violations:
            print("VIOLATION property=%s replay=%s obligation=%s (%d refuted VCs)%s"
                  % (prop, v["replay"], v["obligation"], v["count"], "" if v["reproduced"] else " no-failing-input-found"))
        return 1
    if rc:
        return rc
    if unknown or undecided:
        for o in unknown[:10]:
            print("UNDECIDED property=%s obligation=%s reason=solver-unknown (%s)" % (prop, o["name"], o.get("detail", "")))
        for u in undecided[:10]:
            print("UNDECIDED property=%s obligation=%s[%s] reason=%s" % (prop, u["harness"], u["case"], u["reason"]))
        return 2
    return rc


if __name__ == "__main__":
    sys.exit(main())
