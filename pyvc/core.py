"""pyvc core: path engine (decision-prefix re-execution), symbolic values, obligations.

Everything symbolic lives here.  The module imports z3 lazily so that the *same* contract text can be
imported by /venv/bin/python (no z3 there) for native replays (see pyvc/native.py).
"""
import time

try:
    import z3
except Exception:  # native replay mode
    z3 = None

CUR = None  # the running Engine (one per path execution)


class Unsupported(Exception):
    """Construct outside the verified subset -> UNDECIDED, never a verdict."""


class PathAbort(Exception):
    """The current path ended (assumption false / loop-step path finished)."""


class PyExc(Exception):
    """A Python exception raised by the interpreted code (or by a spec via ctx.raise_)."""

    def __init__(self, cls, msg="", lineno=None):
        Exception.__init__(self, cls, msg)
        self.cls = cls
        self.msg = msg
        self.lineno = lineno

    def __repr__(self):
        return "PyExc(%s, %r, line=%s)" % (self.cls, self.msg, self.lineno)


EXC_PARENTS = {
    "IndexError": "LookupError", "KeyError": "LookupError", "LookupError": "Exception",
    "UnboundLocalError": "NameError", "NameError": "Exception", "AttributeError": "Exception",
    "OverflowError": "ArithmeticError", "ZeroDivisionError": "ArithmeticError", "ArithmeticError": "Exception",
    "ValueError": "Exception", "TypeError": "Exception", "UnicodeDecodeError": "ValueError",
    "struct.error": "Exception", "error": "Exception", "InvalidTag": "Exception", "StopIteration": "Exception",
    "AssertionError": "Exception", "RuntimeError": "Exception", "NotImplementedError": "RuntimeError",
    "Exception": "BaseException", "SystemExit": "BaseException", "BaseException": None,
    "OSError": "Exception", "FileNotFoundError": "OSError", "zlib.error": "Exception",
    "NeedData": "Exception", "UnpackError": "Exception",
}


def exc_isinstance(cls, parent):
    while cls is not None:
        if cls == parent:
            return True
        cls = EXC_PARENTS.get(cls, "Exception" if cls not in ("BaseException",) else None)
        if cls == "BaseException" and parent != "BaseException":
            return False
    return False


# ----------------------------------------------------------------------------------------------
# symbolic scalars


def is_sym(x):
    return isinstance(x, (SymInt, SymBool))


def T(x):
    """to z3 Int term"""
    if isinstance(x, SymInt):
        return x.t
    if isinstance(x, bool):
        return z3.IntVal(1 if x else 0)
    if isinstance(x, int):
        return z3.IntVal(x)
    if isinstance(x, SymBool):
        return z3.If(x.t, z3.IntVal(1), z3.IntVal(0))
    raise Unsupported("not an integer value: %r" % (type(x).__name__,))


def TB(x):
    """to z3 Bool term"""
    if isinstance(x, SymBool):
        return x.t
    if isinstance(x, bool):
        return z3.BoolVal(x)
    if isinstance(x, int):
        return z3.BoolVal(x != 0)
    if isinstance(x, SymInt):
        return x.t != 0
    raise Unsupported("not a boolean value: %r" % (type(x).__name__,))


def mk_int(t):
    """wrap a z3 term, folding constants to Python ints"""
    if isinstance(t, int):
        return t
    if z3.is_int_value(t):
        return t.as_long()
    s = z3.simplify(t)
    if z3.is_int_value(s):
        return s.as_long()
    return SymInt(s)


def mk_bool(t):
    if isinstance(t, bool):
        return t
    s = z3.simplify(t)
    if z3.is_true(s):
        return True
    if z3.is_false(s):
        return False
    return SymBool(s)


def _intlike(x):
    return isinstance(x, (int, SymInt, SymBool)) and not isinstance(x, float)


def _pow2_exp(m):
    """k if m == 2**k (m>0) else None"""
    if m > 0 and (m & (m - 1)) == 0:
        return m.bit_length() - 1
    return None


class SymInt:
    __slots__ = ("t", "zlow")

    def __init__(self, t, zlow=0):
        self.t = t
        self.zlow = zlow  # number of low bits known to be zero (set by x & -(2^k), x << k, x * 2^k)

    def __repr__(self):
        return "SymInt(%s)" % (self.t,)

    def __hash__(self):
        return hash(self.t)

    # arithmetic
    def __add__(self, o):
        if isinstance(o, (float, SymFloat)):
            return to_float(self) + o
        if not _intlike(o):
            return NotImplemented
        return mk_int(self.t + T(o))

    __radd__ = __add__

    def __sub__(self, o):
        if isinstance(o, (float, SymFloat)):
            return to_float(self) - o
        if not _intlike(o):
            return NotImplemented
        return mk_int(self.t - T(o))

    def __rsub__(self, o):
        if isinstance(o, (float, SymFloat)):
            return o - to_float(self)
        if not _intlike(o):
            return NotImplemented
        return mk_int(T(o) - self.t)

    def __mul__(self, o):
        if not _intlike(o):
            return NotImplemented
        r = mk_int(self.t * T(o))
        if isinstance(o, int) and isinstance(r, SymInt):
            k = _pow2_exp(o)
            if k:
                r.zlow = k + self.zlow
        return r

    __rmul__ = __mul__

    def __neg__(self):
        return mk_int(-self.t)

    def __pos__(self):
        return self

    def __invert__(self):
        return mk_int(-self.t - 1)

    def __floordiv__(self, o):
        return int_floordiv(self, o)

    def __rfloordiv__(self, o):
        return int_floordiv(o, self)

    def __mod__(self, o):
        return int_mod(self, o)

    def __rmod__(self, o):
        return int_mod(o, self)

    def __truediv__(self, o):
        return true_div(self, o)

    def __rtruediv__(self, o):
        return true_div(o, self)

    def __lshift__(self, o):
        return int_lshift(self, o)

    def __rlshift__(self, o):
        return int_lshift(o, self)

    def __rshift__(self, o):
        return int_rshift(self, o)

    def __rrshift__(self, o):
        return int_rshift(o, self)

    def __and__(self, o):
        return int_and(self, o)

    __rand__ = __and__

    def __or__(self, o):
        return int_or(self, o)

    def __ror__(self, o):
        return int_or(o, self)

    def __xor__(self, o):
        return int_xor(self, o)

    __rxor__ = __xor__

    # comparisons
    def __lt__(self, o):
        return cmp_num("<", self, o)

    def __le__(self, o):
        return cmp_num("<=", self, o)

    def __gt__(self, o):
        return cmp_num(">", self, o)

    def __ge__(self, o):
        return cmp_num(">=", self, o)

    def __eq__(self, o):
        if isinstance(o, (float, SymFloat)) or _intlike(o):
            return cmp_num("==", self, o)
        return False

    def __ne__(self, o):
        if isinstance(o, (float, SymFloat)) or _intlike(o):
            return cmp_num("!=", self, o)
        return True

    def __bool__(self):
        return CUR.fork(self.t != 0)

    def __index__(self):
        return CUR.concretize(self)


class SymBool:
    __slots__ = ("t",)

    def __init__(self, t):
        self.t = t

    def __repr__(self):
        return "SymBool(%s)" % (self.t,)

    def __hash__(self):
        return hash(self.t)

    def __bool__(self):
        return CUR.fork(self.t)

    def __and__(self, o):
        return mk_bool(z3.And(self.t, TB(o)))

    __rand__ = __and__

    def __or__(self, o):
        return mk_bool(z3.Or(self.t, TB(o)))

    __ror__ = __or__

    def __invert__(self):
        return mk_bool(z3.Not(self.t))

    def __xor__(self, o):
        return mk_bool(z3.Xor(self.t, TB(o)))

    __rxor__ = __xor__

    def __eq__(self, o):
        if isinstance(o, (bool, SymBool)):
            return mk_bool(self.t == TB(o))
        if _intlike(o):
            return mk_bool(T(self) == T(o))
        return False

    def __ne__(self, o):
        r = self.__eq__(o)
        return bnot(r)

    # int-like use of a bool
    def __add__(self, o):
        return mk_int(T(self)) + o

    __radd__ = __add__

    def __mul__(self, o):
        return mk_int(T(self)) * o

    __rmul__ = __mul__


def bnot(x):
    if isinstance(x, SymBool):
        return ~x
    return not x


def band(*xs):
    r = True
    for x in xs:
        if isinstance(x, SymBool):
            r = x & r if not isinstance(r, bool) else (x if r else False)
        elif not x:
            return False
    return r


def bor(*xs):
    r = False
    for x in xs:
        if isinstance(x, SymBool):
            r = x | r if not isinstance(r, bool) else (True if r else x)
        elif x:
            return True
    return r


def implies(a, b):
    return bor(bnot(a), b)


def ite(c, a, b):
    if isinstance(c, SymBool):
        if isinstance(a, (bool, SymBool)) and isinstance(b, (bool, SymBool)):
            return mk_bool(z3.If(c.t, TB(a), TB(b)))
        if _intlike(a) and _intlike(b):
            return mk_int(z3.If(c.t, T(a), T(b)))
        # non-scalar: fork
        return a if CUR.fork(c.t) else b
    return a if c else b


def cmp_num(op, a, b):
    if isinstance(a, (float, SymFloat)) or isinstance(b, (float, SymFloat)):
        return cmp_float(op, a, b)
    if not (_intlike(a) and _intlike(b)):
        raise Unsupported("comparison %s of %s and %s" % (op, type(a).__name__, type(b).__name__))
    if not is_sym(a) and not is_sym(b):
        return {"<": a < b, "<=": a <= b, ">": a > b, ">=": a >= b, "==": a == b, "!=": a != b}[op]
    x, y = T(a), T(b)
    t = {"<": x < y, "<=": x <= y, ">": x > y, ">=": x >= y, "==": x == y, "!=": x != y}[op]
    return mk_bool(t)


def int_floordiv(a, b):
    if isinstance(a, (float, SymFloat)) or isinstance(b, (float, SymFloat)):
        raise Unsupported("float floor division")
    if not is_sym(a) and not is_sym(b):
        if b == 0:
            raise PyExc("ZeroDivisionError", "integer division or modulo by zero")
        return a // b
    if isinstance(b, int) and not isinstance(b, bool):
        if b == 0:
            raise PyExc("ZeroDivisionError", "integer division or modulo by zero")
        if b > 0:
            return mk_int(T(a) / z3.IntVal(b))  # z3 int div is floor for positive divisor
        return mk_int((-T(a)) / z3.IntVal(-b)) if False else _neg_div(a, b)
    # symbolic divisor: must be provably positive
    if CUR.fork(T(b) == 0):
        raise PyExc("ZeroDivisionError", "integer division or modulo by zero")
    if CUR.prove(T(b) > 0):
        return mk_int(T(a) / T(b))
    raise Unsupported("floor division by a possibly negative symbolic divisor")


def _neg_div(a, b):
    # floor(a / b) for b < 0 == floor(-a / -b)
    return mk_int((-T(a)) / z3.IntVal(-b))


def int_mod(a, b):
    if isinstance(a, (float, SymFloat)) or isinstance(b, (float, SymFloat)):
        raise Unsupported("float modulo")
    if not is_sym(a) and not is_sym(b):
        if b == 0:
            raise PyExc("ZeroDivisionError", "integer division or modulo by zero")
        return a % b
    if isinstance(b, int) and not isinstance(b, bool):
        if b == 0:
            raise PyExc("ZeroDivisionError", "integer division or modulo by zero")
        if b > 0:
            return mk_int(T(a) % z3.IntVal(b))
        raise Unsupported("modulo by negative constant")
    if CUR.fork(T(b) == 0):
        raise PyExc("ZeroDivisionError", "integer division or modulo by zero")
    if CUR.prove(T(b) > 0):
        return mk_int(T(a) % T(b))
    raise Unsupported("modulo by a possibly negative symbolic divisor")


def int_lshift(a, k):
    if is_sym(k):
        k = CUR.concretize(k, what="shift count")
    if k < 0:
        raise PyExc("ValueError", "negative shift count")
    if not is_sym(a):
        return a << k
    r = mk_int(T(a) * (1 << k))
    if isinstance(r, SymInt):
        r.zlow = k + (a.zlow if isinstance(a, SymInt) else 0)
    return r


def int_rshift(a, k):
    if is_sym(k):
        k = CUR.concretize(k, what="shift count")
    if k < 0:
        raise PyExc("ValueError", "negative shift count")
    if not is_sym(a):
        return a >> k
    return mk_int(T(a) / z3.IntVal(1 << k))


def int_and(a, b):
    if not is_sym(a) and not is_sym(b):
        return a & b
    if is_sym(a) and not is_sym(b):
        a, b = b, a
    if not is_sym(a):  # a concrete mask, b symbolic
        m = int(a)
        if m >= 0:
            k = _pow2_exp(m + 1)
            if k is not None:  # 2^k - 1
                return mk_int(T(b) % z3.IntVal(1 << k))
            # single bit or contiguous field 2^j * (2^w - 1): (b div 2^j mod 2^w) * 2^j
            low = (m & -m).bit_length() - 1
            w = _pow2_exp((m >> low) + 1)
            if w is not None:
                r = mk_int(((T(b) / z3.IntVal(1 << low)) % z3.IntVal(1 << w)) * (1 << low))
                if isinstance(r, SymInt):
                    r.zlow = low
                return r
        else:
            k = _pow2_exp(-m)
            if k is not None:  # -(2^k) == ~(2^k - 1): clear the low k bits
                r = mk_int(T(b) - T(b) % z3.IntVal(1 << k))
                if isinstance(r, SymInt):
                    r.zlow = k
                return r
        raise Unsupported("bitwise and with mask %#x" % m)
    raise Unsupported("bitwise and of two symbolic integers")


def int_or(a, b):
    if not is_sym(a) and not is_sym(b):
        return a | b
    # a | b == a + b when a's low k bits are zero and 0 <= b < 2^k (or symmetric)
    for x, y in ((a, b), (b, a)):
        k = x.zlow if isinstance(x, SymInt) else ((x & -x).bit_length() - 1 if isinstance(x, int) and x != 0 else (10 ** 6 if x == 0 else 0))
        if k:
            if k >= 10 ** 6:
                return y
            ty = T(y)
            if CUR.prove(z3.And(ty >= 0, ty < (1 << k))):
                return mk_int(T(x) + ty)
    raise Unsupported("bitwise or whose operands are not provably bit-disjoint")


_XOR8 = None


def int_xor(a, b):
    global _XOR8
    if not is_sym(a) and not is_sym(b):
        return a ^ b
    if _XOR8 is None:
        _XOR8 = z3.Function("xor8", z3.IntSort(), z3.IntSort(), z3.IntSort())
    # xor is an uninterpreted commutative function with identity 0 (operands ordered canonically)
    if isinstance(a, int) and a == 0:
        return b
    if isinstance(b, int) and b == 0:
        return a
    ta, tb = T(a), T(b)
    if str(ta) > str(tb):
        ta, tb = tb, ta
    if ta.eq(tb):
        return 0
    r = _XOR8(ta, tb)
    CUR.fact(z3.And(r >= 0, r <= 255))
    return SymInt(r)


def int_pow(a, b):
    if is_sym(b) and not is_sym(a):
        return PowExpr(a, b)
    if is_sym(b):
        b = CUR.concretize(b, what="exponent")
    if not is_sym(a):
        return a ** b
    if b < 0:
        raise Unsupported("negative exponent")
    r = 1
    for _ in range(b):
        r = r * a
    return r


# ----------------------------------------------------------------------------------------------
# integer-valued floats (DESIGN 3.2): the float's value is exactly the integer term


class SymFloat:
    """A binary64 whose value is an integer, held exactly as an Int term (already rounded)."""
    __slots__ = ("t",)

    def __init__(self, t):
        self.t = t

    def __repr__(self):
        return "SymFloat(%s)" % (self.t,)

    def __add__(self, o):
        return float_addsub(self, o, +1)

    __radd__ = __add__

    def __sub__(self, o):
        return float_addsub(self, o, -1)

    def __rsub__(self, o):
        return float_addsub(to_float(o), self, -1)

    def __lt__(self, o):
        return cmp_float("<", self, o)

    def __le__(self, o):
        return cmp_float("<=", self, o)

    def __gt__(self, o):
        return cmp_float(">", self, o)

    def __ge__(self, o):
        return cmp_float(">=", self, o)

    def __eq__(self, o):
        return cmp_float("==", self, o)

    def __ne__(self, o):
        return cmp_float("!=", self, o)

    def __hash__(self):
        return hash(self.t)


def round53(t):
    """round-half-even of the integer term t to 53 significant bits, |t| < 2^64 (else Unsupported
    at use: the obligation `abs(t) < 2^64` is checked by the caller)."""
    a = z3.If(t >= 0, t, -t)
    res = a
    cases = []
    for e in range(1, 12):  # 2^(52+e) <= a < 2^(53+e): spacing 2^e
        m = 1 << e
        q = a / m
        r = a % m
        half = m // 2
        up = z3.Or(r > half, z3.And(r == half, q % 2 == 1))
        rounded = z3.If(up, (q + 1) * m, q * m)
        cases.append((a >= (1 << (52 + e)), rounded))
    for cond, val in cases:  # later (larger) cases override
        res = z3.If(cond, val, res)
    return z3.If(t >= 0, res, -res)


def to_float(x):
    if isinstance(x, (float, SymFloat)):
        return x
    if isinstance(x, bool):
        return float(x)
    if isinstance(x, int):
        return float(x)
    if isinstance(x, (SymInt, SymBool)):
        t = T(x)
        if not CUR.prove(z3.And(t < (1 << 64), t > -(1 << 64))):
            raise Unsupported("int -> float conversion of a value not provably below 2^64")
        return SymFloat(z3.simplify(round53(t)))
    raise Unsupported("to_float(%s)" % type(x).__name__)


def _float_int_term(f):
    if isinstance(f, SymFloat):
        return f.t
    if isinstance(f, float):
        if f != f or f in (float("inf"), float("-inf")) or f != int(f):
            raise Unsupported("symbolic float arithmetic with a non-integer-valued float %r" % f)
        return z3.IntVal(int(f))
    raise Unsupported("float term of %s" % type(f).__name__)


def float_addsub(a, b, sign):
    a = to_float(a)
    b = to_float(b)
    if isinstance(a, float) and isinstance(b, float):
        return a + b if sign > 0 else a - b
    ta, tb = _float_int_term(a), _float_int_term(b)
    s = ta + tb if sign > 0 else ta - tb
    if not CUR.prove(z3.And(s < (1 << 64), s > -(1 << 64))):
        raise Unsupported("float add/sub result not provably below 2^64")
    return SymFloat(z3.simplify(round53(s)))


def cmp_float(op, a, b):
    # CPython compares int with float exactly (float_richcompare), so no conversion of the int side
    def term(v):
        if isinstance(v, SymFloat):
            return v.t
        if isinstance(v, float):
            if v == int(v):
                return z3.IntVal(int(v))
            return z3.RealVal(repr(v))
        return T(v)
    if not is_sym(a) and not is_sym(b) and not isinstance(a, SymFloat) and not isinstance(b, SymFloat):
        return {"<": a < b, "<=": a <= b, ">": a > b, ">=": a >= b, "==": a == b, "!=": a != b}[op]
    x, y = term(a), term(b)
    if z3.is_real(x) != z3.is_real(y):
        x = z3.ToReal(x) if not z3.is_real(x) else x
        y = z3.ToReal(y) if not z3.is_real(y) else y
    t = {"<": x < y, "<=": x <= y, ">": x > y, ">=": x >= y, "==": x == y, "!=": x != y}[op]
    return mk_bool(t)


class PowExpr:
    """base ** exponent with a concrete base and a symbolic exponent (uninterpreted; structural equality)"""

    def __init__(self, base, exp):
        self.base = base
        self.exp = exp


class FloatExpr:
    """an uninterpreted binary64 expression (e.g. a timestamp tsoffset + ticks / divisor): only structural equality"""

    def __init__(self, op, args):
        self.op = op
        self.args = tuple(args)

    def __repr__(self):
        return "FloatExpr(%s,%r)" % (self.op, self.args)

    def pyvc_eq(self, I, o):
        if not isinstance(o, FloatExpr) or o.op != self.op or len(o.args) != len(self.args):
            return False
        r = True
        for x, y in zip(self.args, o.args):
            if isinstance(x, FloatExpr) or isinstance(y, FloatExpr):
                e = x.pyvc_eq(I, y) if isinstance(x, FloatExpr) else False
            elif isinstance(x, float) or isinstance(y, float):
                e = (x == y) if not is_sym(x) and not is_sym(y) else cmp_float("==", x, y)
            else:
                e = cmp_num("==", x, y)
            r = band(r, e)
        return r

    def pyvc_binop(self, I, op, other, reflected):
        name = {"Add": "add", "Sub": "sub", "Mult": "mul", "Div": "div"}.get(op)
        if name is None:
            raise Unsupported("operator %s on an opaque float" % op)
        return FloatExpr(name, (other, self) if reflected else (self, other))


def true_div(a, b):
    if isinstance(a, FloatExpr) or isinstance(b, FloatExpr) or ((is_sym(a) or is_sym(b)) and (isinstance(a, float) or isinstance(b, float))):
        return FloatExpr("div", (a, b))
    if not is_sym(a) and not is_sym(b) and not isinstance(a, SymFloat) and not isinstance(b, SymFloat):
        if b == 0:
            raise PyExc("ZeroDivisionError", "division by zero")
        return a / b
    # n / k for symbolic ints: only usable through floor()/ceil()/int() (lemma A-FLOORDIV)
    if _intlike(a) and _intlike(b):
        return DivResult(a, b)
    raise Unsupported("true division on symbolic floats")


class DivResult:
    """fl(n / k) for integers n, k; only floor/ceil/int of it are supported (A-FLOORDIV)."""

    def __init__(self, n, k):
        self.n = n
        self.k = k

    def _pre(self):
        n, k = T(self.n), T(self.k)
        if CUR.fork(k == 0):
            raise PyExc("ZeroDivisionError", "division by zero")
        if not CUR.prove(z3.And(n >= 0, k >= 1, n + k < (1 << 53))):
            raise Unsupported("A-FLOORDIV precondition (0<=n, 1<=k, n+k<2^53) not provable")
        return n, k

    def floor(self):
        n, k = self._pre()
        return mk_int(n / k)

    def ceil(self):
        n, k = self._pre()
        return mk_int(-((-n) / k))


# ----------------------------------------------------------------------------------------------
# byte strings: own term algebra lowered to LIA + one uninterpreted function per base


def as_len(x):
    return x


class SymBytes:
    """immutable byte string; subclasses give .length (int|SymInt) and .at(i) (int|SymInt)"""
    mutable = False

    def __len__(self):
        n = self.length
        if isinstance(n, int):
            return n
        return CUR.concretize(n, what="len()")

    def __getitem__(self, i):
        if isinstance(i, slice):
            if i.step not in (None, 1):
                raise Unsupported("slice step")
            return bslice(self, i.start, i.stop)
        if isinstance(i, int) and i < 0:
            i = self.length + i
        return self.at(i)

    def __add__(self, o):
        return bcat(self, to_bytes_val(o))

    def __radd__(self, o):
        return bcat(to_bytes_val(o), self)

    def __eq__(self, o):
        if isinstance(o, (SymBytes, bytes, bytearray, ByteArr)):
            return bytes_eq(self, to_bytes_val(o))
        return False

    def __ne__(self, o):
        return bnot(self.__eq__(o))

    def __hash__(self):
        return id(self)

    def root(self):
        return self


class BList(SymBytes):
    """bytes of concrete length, one int/SymInt per element"""

    def __init__(self, items):
        self.items = list(items)
        self.length = len(self.items)

    def at(self, i):
        if isinstance(i, int):
            if 0 <= i < len(self.items):
                return self.items[i]
            # reads outside the string are guarded by the interpreter's index checks; inside merged
            # if-then-else terms a dead branch may ask for one: an unconstrained value (never a wrong "proof")
            return SymInt(CUR.fresh_int("oob"))
        if len(self.items) == 0:
            return SymInt(CUR.fresh_int("oob"))  # out-of-range read: unconstrained (callers guard by length)
        # symbolic index into a concrete-length list: ite chain
        t = T(self.items[-1])
        for k in range(len(self.items) - 2, -1, -1):
            t = z3.If(T(i) == k, T(self.items[k]), t)
        return mk_int(t)

    def concrete(self):
        if all(isinstance(x, int) for x in self.items):
            return bytes(self.items)
        return None

    def __repr__(self):
        c = self.concrete()
        return "B%r" % (c,) if c is not None else "BList(%d)" % len(self.items)


class BFill(SymBytes):
    """`length` copies of one byte value"""

    def __init__(self, value, length):
        self.value = value
        self.length = length

    def at(self, i):
        return self.value

    def __repr__(self):
        return "BFill(%s,len=%s)" % (self.value, self.length)


class BBase(SymBytes):
    """arbitrary bytes: uninterpreted function Int->Int plus a length term"""

    def __init__(self, name, length, fn=None):
        self.name = name
        self.fn = fn if fn is not None else z3.Function(name, z3.IntSort(), z3.IntSort())
        self.length = length

    def at(self, i):
        t = self.fn(T(i))
        CUR.fact(z3.And(t >= 0, t <= 255))
        return SymInt(t)

    def __repr__(self):
        return "BBase(%s,len=%s)" % (self.name, self.length)


class BCat(SymBytes):
    def __init__(self, parts):
        self.parts = parts
        n = 0
        for p in parts:
            n = n + p.length
        self.length = n

    def at(self, i):
        off = 0
        if isinstance(i, int):
            # walk concrete prefixes
            rest = []
            for idx, p in enumerate(self.parts):
                pl = p.length
                if isinstance(off, int) and isinstance(pl, int):
                    if i < off + pl:
                        return p.at(i - off)
                    off += pl
                else:
                    rest = self.parts[idx:]
                    break
            else:
                raise Unsupported("BCat.at(%d) beyond concrete length" % i)
            return self._at_sym(i, off, rest)
        return self._at_sym(i, 0, self.parts)

    def _at_sym(self, i, off, parts):
        # ite chain over cumulative offsets
        conds = []
        for p in parts:
            lo = off
            off = off + p.length
            conds.append((lo, off, p))
        def safe_at(p, k):
            # inside an if-then-else over the parts an index may lie outside this part: that branch is dead
            if isinstance(p, BList) and isinstance(k, int) and not 0 <= k < len(p.items):
                return 0
            return p.at(k)
        # last part is the default
        lo, hi, p = conds[-1]
        t = T(safe_at(p, i - lo))
        for lo, hi, p in reversed(conds[:-1]):
            if isinstance(p.length, int) and p.length == 0:
                continue
            t = z3.If(T(i) < T(hi), T(safe_at(p, i - lo)), t)
        return mk_int(t)

    def __repr__(self):
        return "BCat(%s)" % (", ".join(map(repr, self.parts)),)


class BSlice(SymBytes):
    """base[start:start+length]; start/length already clipped (0<=start, start+length<=len(base))"""

    def __init__(self, base, start, length):
        self.base = base
        self.start = start
        self.length = length

    def at(self, i):
        return self.base.at(self.start + i)

    def root(self):
        return self.base.root()

    def __repr__(self):
        return "BSlice(%r,%s,%s)" % (self.base, self.start, self.length)


class ByteArr:
    """mutable bytearray object on the symbolic heap"""
    mutable = True

    def __init__(self, val):
        self.val = val

    @property
    def length(self):
        return self.val.length

    def at(self, i):
        return self.val.at(i)

    def __repr__(self):
        return "ByteArr(%r)" % (self.val,)

    def __eq__(self, o):
        if isinstance(o, (SymBytes, bytes, bytearray, ByteArr)):
            return bytes_eq(self.val, to_bytes_val(o))
        return False

    def __ne__(self, o):
        return bnot(self.__eq__(o))

    def __hash__(self):
        return id(self)

    def __getitem__(self, i):
        return self.val[i]


def const(b):
    return BList(list(bytes(b)))


def to_bytes_val(x):
    if isinstance(x, SymBytes):
        return x
    if isinstance(x, ByteArr):
        return x.val
    if isinstance(x, (bytes, bytearray)):
        return const(x)
    raise Unsupported("not bytes-like: %s" % type(x).__name__)


def is_byteslike(x):
    return isinstance(x, (SymBytes, ByteArr, bytes, bytearray))


def bcat(*parts):
    flat = []
    for p in parts:
        p = to_bytes_val(p)
        if isinstance(p, BCat):
            flat.extend(p.parts)
        else:
            flat.append(p)
    out = []
    for p in flat:
        if isinstance(p.length, int) and p.length == 0:
            continue
        if out and isinstance(out[-1], BList) and isinstance(p, BList):
            out[-1] = BList(out[-1].items + p.items)
        else:
            out.append(p)
    if not out:
        return BList([])
    if len(out) == 1:
        return out[0]
    return BCat(out)


def smin(a, b):
    if not is_sym(a) and not is_sym(b):
        return min(a, b)
    ta, tb = T(a), T(b)
    if CUR.prove(ta <= tb):
        return a
    if CUR.prove(tb <= ta):
        return b
    return mk_int(z3.If(ta <= tb, ta, tb))


def smax(a, b):
    if not is_sym(a) and not is_sym(b):
        return max(a, b)
    ta, tb = T(a), T(b)
    if CUR.prove(ta >= tb):
        return a
    if CUR.prove(tb >= ta):
        return b
    return mk_int(z3.If(ta >= tb, ta, tb))


def _clip_index(i, n, default):
    """Python slice index normalisation against length n"""
    if i is None:
        return default
    if isinstance(i, bool):
        i = int(i)
    if isinstance(i, int):
        if i < 0:
            return smax(0, n + i)
        return smin(i, n)
    if isinstance(i, (SymInt, SymBool)):
        ti = T(i)
        if CUR.prove(ti >= 0):
            return smin(i, n)
        if CUR.prove(ti < 0):
            return smax(0, n + i)
        return mk_int(z3.If(ti < 0, T(smax(0, n + i)), T(smin(i, n))))
    raise PyExc("TypeError", "slice indices must be integers")


def bslice(b, lo, hi):
    b = to_bytes_val(b)
    n = b.length
    s = _clip_index(lo, n, 0)
    e = _clip_index(hi, n, n)
    ln = smax(0, e - s)
    if isinstance(ln, int) and ln == 0:
        return BList([])
    if isinstance(s, int) and s == 0 and (ln is n or (isinstance(ln, int) and isinstance(n, int) and ln == n)):
        return b
    # structural descent
    if isinstance(s, int) and isinstance(ln, int):
        if isinstance(b, BList):
            return BList(b.items[s:s + ln])
        if isinstance(b, BCat):
            got = _cat_slice_concrete(b, s, ln)
            if got is not None:
                return got
    if isinstance(b, BSlice):
        return BSlice(b.base, b.start + s, ln)
    if isinstance(b, BCat):
        got = _cat_slice_sym(b, s, ln)
        if got is not None:
            return got
    return BSlice(b, s, ln)


def _cat_slice_concrete(b, s, ln):
    off = 0
    out = []
    need_s, need_e = s, s + ln
    for p in b.parts:
        pl = p.length
        if not isinstance(pl, int):
            if need_s >= need_e:
                break
            # the rest starts inside a symbolic-length part
            if need_s >= off and not out and CUR.prove(T(pl) >= (need_e - off)):
                return bslice(p, need_s - off, need_e - off)
            return None
        lo, hi = max(need_s, off), min(need_e, off + pl)
        if lo < hi:
            out.append(bslice(p, lo - off, hi - off))
            need_s = hi
        off += pl
        if need_s >= need_e:
            break
    if need_s < need_e:
        return None
    return bcat(*out) if out else BList([])


def _cat_slice_sym(b, s, ln):
    """slice with symbolic bounds over a concatenation: try to locate whole parts provably"""
    off = 0
    parts = b.parts
    e = s + ln
    # find the part where s falls exactly at its start (provably) and return concatenation of whole
    # parts until e (provably at a boundary, or inside the last part)
    for idx, p in enumerate(parts):
        if _prove_eq(off, s):
            out = []
            o2 = off
            for q in parts[idx:]:
                nxt = o2 + q.length
                if _prove_le(nxt, e):
                    out.append(q)
                    o2 = nxt
                    if _prove_eq(o2, e):
                        return bcat(*out) if out else BList([])
                    continue
                # e falls inside q (or cannot be decided)
                if _prove_le(o2, e):
                    rem = e - o2
                    if isinstance(rem, int) and rem == 0:
                        return bcat(*out) if out else BList([])
                    if _prove_le(rem, q.length):
                        out.append(bslice(q, 0, rem))
                        return bcat(*out)
                return None
            return None
        # s strictly inside p, and e within p too?
        nxt = off + p.length
        if _prove_le(off, s) and _prove_le(e, nxt):
            return bslice(p, s - off, e - off) if not isinstance(p, BCat) else None
        off = nxt
    return None


def _prove_eq(a, b):
    if not is_sym(a) and not is_sym(b):
        return a == b
    return CUR.prove(T(a) == T(b))


def _prove_le(a, b):
    if not is_sym(a) and not is_sym(b):
        return a <= b
    return CUR.prove(T(a) <= T(b))


_EQ_EXPAND_LIMIT = 96


def bytes_eq(a, b):
    a, b = to_bytes_val(a), to_bytes_val(b)
    if a is b:
        return True
    la, lb = a.length, b.length
    if isinstance(la, int) and isinstance(lb, int):
        if la != lb:
            return False
        if la <= _EQ_EXPAND_LIMIT:
            r = True
            for k in range(la):
                x, y = a.at(k), b.at(k)
                if not is_sym(x) and not is_sym(y):
                    if x != y:
                        return False
                    continue
                r = band(r, mk_bool(T(x) == T(y)))
            return r
    if isinstance(la, int) and la == 0:
        return cmp_num("==", lb, 0)
    if isinstance(lb, int) and lb == 0:
        return cmp_num("==", la, 0)
    # same root & same window
    if isinstance(a, BSlice) and isinstance(b, BSlice) and a.base is b.base:
        if _prove_eq(a.start, b.start) and _prove_eq(la, lb):
            return True
    k = CUR.fresh_int("k")
    ks = SymInt(k)
    body = z3.Implies(z3.And(k >= 0, k < T(la)), T(a.at(ks)) == T(b.at(ks)))
    return mk_bool(z3.And(T(la) == T(lb), z3.ForAll([k], body)))


def be_int(b):
    """int.from_bytes(b, 'big') for b of concrete (or concretisable) length"""
    b = to_bytes_val(b)
    n = b.length
    if not isinstance(n, int):
        if CUR.prove(T(n) <= 16):
            n = CUR.concretize(n, what="int.from_bytes length")
        else:
            # the big-endian value of a byte string of unbounded symbolic length: an unconstrained non-negative
            # integer (over-approximation: nothing is claimed about it)
            v = CUR.fresh_int("bigval")
            CUR.add(v >= 0)
            # sound facts about the real value: it is at least its first and its last byte (so a non-zero byte at either end
            # excludes the value 0), and an empty string has value 0
            first, last = b.at(0), b.at(n - 1)
            CUR.add(z3.Implies(T(n) >= 1, z3.And(v >= T(first), v >= T(last))))
            CUR.add(z3.Implies(T(n) == 0, v == 0))
            return SymInt(v)
    v = 0
    for k in range(n):
        v = v * 256 + b.at(k)
    return v


def int_to_bytes(x, n, signed=False):
    """x.to_bytes(n, 'big') - digits are fresh variables tied to x by a linear Horner equation"""
    if is_sym(n):
        n = CUR.concretize(n, what="to_bytes length")
    if signed:
        raise Unsupported("signed to_bytes")
    if not is_sym(x):
        try:
            return const(int(x).to_bytes(n, "big"))
        except OverflowError as e:
            raise PyExc("OverflowError", str(e))
    tx = T(x)
    if CUR.fork(z3.Or(tx < 0, tx >= (1 << (8 * n)))):
        raise PyExc("OverflowError", "int too big to convert")
    return BList(digits_of(tx, n))


def digits_of(tx, n):
    """the n base-256 digits of the integer term tx (0 <= tx < 256^n): fresh variables tied to tx by one Horner
    equation, shared by every request for the same term and width (so two encodings of one value are identical)"""
    cache = CUR.__dict__.setdefault("digit_cache", {})
    key = (tx.sexpr(), n)
    if key in cache:
        return cache[key]
    ds = [CUR.fresh_int("d") for _ in range(n)]
    h = z3.IntVal(0)
    for d in ds:
        CUR.add(z3.And(d >= 0, d <= 255))
        h = h * 256 + d
    CUR.add(h == tx)
    out = [SymInt(d) for d in ds]
    cache[key] = out
    return out


def is_slice_of(x, base):
    """structural: x is a (possibly empty) window of base - 'never invents bytes'"""
    x = to_bytes_val(x)
    if isinstance(x.length, int) and x.length == 0:
        return True
    base = to_bytes_val(base)
    if x is base:
        return True
    if isinstance(x, BSlice):
        return x.root() is base.root()
    if isinstance(x, BCat):
        return all(is_slice_of(p, base) for p in x.parts) and _contiguous(x)
    return False


def _contiguous(cat):
    prev_end = None
    for p in cat.parts:
        if not isinstance(p, BSlice):
            return False
        if prev_end is not None and not _prove_eq(prev_end, p.start):
            return False
        prev_end = p.start + p.length
    return True


# ----------------------------------------------------------------------------------------------
# the path engine


class Obligation:
    __slots__ = ("name", "verdict", "time", "backend", "model", "detail", "kind", "lineno", "smt2")

    def __init__(self, name, verdict, time_s, backend="z3-5.1.0", model=None, detail="", kind="post", lineno=None):
        self.name = name
        self.verdict = verdict  # discharged | refuted | unknown
        self.time = time_s
        self.backend = backend
        self.model = model
        self.detail = detail
        self.kind = kind
        self.lineno = lineno
        self.smt2 = None

    def as_dict(self):
        d = {"name": self.name, "verdict": self.verdict, "time_s": round(self.time, 4), "backend": self.backend,
             "kind": self.kind}
        if self.model is not None:
            d["model"] = self.model
        if self.detail:
            d["detail"] = self.detail
        if self.smt2:
            d["smt2"] = self.smt2
        return d


class Engine:
    def __init__(self, prefix=(), timeout_ms=10000, want_smt2=False):
        self.prefix = list(prefix)
        self.pos = 0
        self.trace = []
        self.pending = []
        self.solver = z3.Solver()
        self.solver.set("timeout", timeout_ms)
        self.timeout_ms = timeout_ms
        self.pc_count = 0
        self.symbols = []  # (name, kind, handle) for model extraction
        self.obligations = []
        self.nfresh = 0
        self.solver_time = 0.0
        self.solver_calls = 0
        self.unknowns = []
        self.want_smt2 = want_smt2
        self.notes = []
        self.covers = []
        self.prove_cache = {}

    # -- fresh symbols
    def fresh_int(self, base):
        self.nfresh += 1
        return z3.Int("%s!%d" % (base, self.nfresh))

    def fresh_name(self, base):
        self.nfresh += 1
        return "%s!%d" % (base, self.nfresh)

    # -- assumptions
    def add(self, t):
        if isinstance(t, (SymBool, bool)):
            t = TB(t)
        self.solver.add(t)
        self.pc_count += 1
        self.prove_cache.clear()

    def fact(self, t):
        self.solver.add(t)

    def assume(self, c):
        """assume a (possibly symbolic) condition; abort the path if it is infeasible"""
        if isinstance(c, bool):
            if not c:
                raise PathAbort("assumption false")
            return
        self.add(TB(c))
        if self._check() == "unsat":
            raise PathAbort("assumption infeasible")

    def _check(self, *extra):
        t0 = time.time()
        r = self.solver.check(*extra)
        self.solver_time += time.time() - t0
        self.solver_calls += 1
        return str(r)

    def prove(self, goal):
        """is goal valid under the path condition? (used for sound simplification: a 'no' only
        makes terms bigger)"""
        if isinstance(goal, bool):
            return goal
        if isinstance(goal, SymBool):
            goal = goal.t
        g = z3.simplify(goal)
        if z3.is_true(g):
            return True
        if z3.is_false(g):
            return False
        key = g.get_id()
        hit = self.prove_cache.get(key)
        if hit is not None:
            return hit[1]
        r = self._check(z3.Not(g)) == "unsat"
        self.prove_cache[key] = (g, r)  # keep the term alive: ast ids are recycled after gc
        return r

    # -- forking
    def fork(self, cond):
        if isinstance(cond, bool):
            return cond
        if isinstance(cond, SymBool):
            cond = cond.t
        cond = z3.simplify(cond)
        if z3.is_true(cond):
            return True
        if z3.is_false(cond):
            return False
        if self.pos < len(self.prefix):
            d = self.prefix[self.pos]
            self.pos += 1
            self.trace.append(d)
            self.add(cond if d else z3.Not(cond))
            return d
        can_t = self._check(cond) != "unsat"
        can_f = self._check(z3.Not(cond)) != "unsat"
        if can_t and can_f:
            self.pending.append(self.trace + [False])
            d = True
        elif can_t:
            d = True
        elif can_f:
            d = False
        else:
            raise PathAbort("path condition infeasible")
        self.pos += 1
        self.trace.append(d)
        if can_t and can_f:
            self.add(cond if d else z3.Not(cond))
        return d

    def concretize(self, v, limit=24, what="value"):
        if isinstance(v, bool):
            return int(v)
        if isinstance(v, int):
            return v
        t = T(v)
        seen = 0
        while True:
            if self.pos < len(self.prefix) and isinstance(self.prefix[self.pos], tuple):
                tag, val = self.prefix[self.pos]
                # replay recorded concretisation
                self.pos += 1
                self.trace.append((tag, val))
                if tag == "is":
                    self.add(t == val)
                    return val
                self.add(t != val)
                seen += 1
                continue
            if self._check() != "sat":
                raise PathAbort("concretize: infeasible/unknown")
            m = self.solver.model()
            val = m.eval(t, model_completion=True).as_long()
            other = self._check(t != val) != "unsat"
            seen += 1
            if seen > limit:
                raise Unsupported("%s has more than %d feasible values" % (what, limit))
            if other:
                self.pending.append(self.trace + [("not", val)])
            self.pos += 1
            self.trace.append(("is", val))
            self.add(t == val)
            return val

    def choose(self, n):
        """free n-way choice (loop step/exit, case enumeration)"""
        if self.pos < len(self.prefix):
            tag, k = self.prefix[self.pos]
            assert tag == "ch"
            self.pos += 1
            self.trace.append((tag, k))
            return k
        for alt in range(1, n):
            self.pending.append(self.trace + [("ch", alt)])
        self.pos += 1
        self.trace.append(("ch", 0))
        return 0

    # -- obligations
    def ensure(self, name, goal, kind="post", lineno=None):
        t0 = time.time()
        if isinstance(goal, bool):
            if goal:
                ob = Obligation(name, "discharged", 0.0, backend="folded", kind=kind, lineno=lineno)
            else:
                r = self._check()
                model = self.extract_model() if r == "sat" else None
                if r == "unsat":
                    ob = Obligation(name, "discharged", time.time() - t0, kind=kind, lineno=lineno, detail="path infeasible")
                elif r == "sat":
                    ob = Obligation(name, "refuted", time.time() - t0, model=model, kind=kind, lineno=lineno)
                else:
                    ob = Obligation(name, "unknown", time.time() - t0, kind=kind, lineno=lineno, detail="feasibility unknown")
            self.obligations.append(ob)
            return ob
        g = TB(goal)
        self.solver.push()
        self.solver.add(z3.Not(g))
        smt2 = self.solver.to_smt2() if self.want_smt2 else None
        r = self._check()
        if r == "unsat":
            ob = Obligation(name, "discharged", time.time() - t0, kind=kind, lineno=lineno)
        elif r == "sat":
            ob = Obligation(name, "refuted", time.time() - t0, model=self.small_model(), kind=kind, lineno=lineno)
        else:
            smt2 = self.solver.to_smt2()
            ob = Obligation(name, "unknown", time.time() - t0, kind=kind, lineno=lineno,
                            detail=self.solver.reason_unknown())
            ob.smt2 = smt2
        if smt2 and self.want_smt2:
            ob.smt2 = smt2
        self.solver.pop()
        self.obligations.append(ob)
        return ob

    def cover(self, name):
        """reachability marker: this path reached the point (paths are only explored when feasible)"""
        self.covers.append(name)

    # -- declared inputs (for counterexample extraction)
    def declare(self, name, kind, handle):
        self.symbols.append((name, kind, handle))

    def small_model(self):
        """prefer a counter-model with short byte strings (replayable); fall back to whatever z3 found"""
        first = self.extract_model()
        lens = [T(h.length) for _, kind, h in self.symbols if kind == "bytes" and not isinstance(h.length, int)]
        if not lens:
            return first
        for bound in (24, 200, 2000):
            self.solver.push()
            for t in lens:
                self.solver.add(t <= bound)
            r = self._check()
            m = self.extract_model() if r == "sat" else None
            self.solver.pop()
            if m is not None:
                return m
        return first

    def extract_model(self):
        m = self.solver.model()
        out = {}
        for name, kind, h in self.symbols:
            try:
                if kind == "int":
                    out[name] = m.eval(T(h), model_completion=True).as_long()
                elif kind == "bool":
                    out[name] = bool(z3.is_true(m.eval(TB(h), model_completion=True)))
                elif kind == "bytes":
                    n = h.length
                    if not isinstance(n, int):
                        n = m.eval(T(n), model_completion=True).as_long()
                    if n > 3000:
                        out[name] = {"too_long": n}
                        continue
                    bs = []
                    for k in range(max(n, 0)):
                        if isinstance(h, BBase):
                            v = m.eval(h.fn(z3.IntVal(k)), model_completion=True).as_long()
                        else:
                            e = h.at(k)
                            v = e if isinstance(e, int) else m.eval(T(e), model_completion=True).as_long()
                        bs.append(v & 0xFF if 0 <= v <= 255 else 0)
                    out[name] = {"hex": bytes(bs).hex()}
                elif kind == "choice":
                    out[name] = h
                elif kind == "tokens":
                    n = m.eval(T(h.length), model_completion=True).as_long()
                    out[name] = [m.eval(z3.Select(h.arrays["v"], z3.IntVal(k)), model_completion=True).as_long()
                                 for k in range(min(max(n, 0), 64))]
            except Exception as e:  # model extraction is best-effort
                out[name] = {"error": repr(e)}
        return out


def sym_int(name, lo=None, hi=None):
    v = z3.Int(name)
    if lo is not None:
        CUR.add(v >= lo)
    if hi is not None:
        CUR.add(v <= hi)
    s = SymInt(v)
    CUR.declare(name, "int", s)
    return s


def sym_bool(name):
    s = SymBool(z3.Bool(name))
    CUR.declare(name, "bool", s)
    return s


def sym_bytes(name, length=None, max_len=None, min_len=0):
    if length is None:
        n = z3.Int(name + ".len")
        CUR.add(n >= min_len)
        if max_len is not None:
            CUR.add(n <= max_len)
        ln = SymInt(n)
    else:
        ln = length
    if isinstance(ln, int):
        items = []
        for k in range(ln):
            v = z3.Int("%s[%d]" % (name, k))
            CUR.add(z3.And(v >= 0, v <= 255))
            items.append(SymInt(v))
        b = BList(items)
    else:
        b = BBase(name, ln)
    CUR.declare(name, "bytes", b)
    return b
