"""assumed contracts of the `cryptography` package (never verified): every primitive is an uninterpreted
function from its inputs to a byte string of the right length.  Equal inputs (structurally) give the same
output; nothing else is known about the bytes.  AEAD/verify operations may raise on any input."""
import hashlib

from . import core
from .core import SymBytes, SymInt, BList, BBase, BCat, BSlice, BFill, ByteArr, T, is_sym, to_bytes_val, PyExc, Unsupported, bcat
from .frontend import External
from .interp import Obj, Builtin

_APPS = {}


def canon(x):
    """canonical structural description of a value (used as the identity of an uninterpreted application)"""
    if isinstance(x, (bytes, bytearray)):
        return "b'" + bytes(x).hex() + "'"
    if isinstance(x, ByteArr):
        return canon(x.val)
    if isinstance(x, BList):
        c = x.concrete()
        if c is not None:
            return "b'" + c.hex() + "'"
        return "[" + ",".join(str(core.z3.simplify(T(i))) if is_sym(i) else str(i) for i in x.items) + "]"
    if isinstance(x, BApp):
        return x.key
    if isinstance(x, BBase):
        return "base(" + x.name + ")"
    if isinstance(x, BFill):
        return "fill(%s,%s)" % (canon_int(x.value), canon_int(x.length))
    if isinstance(x, BSlice):
        return "slice(%s,%s,%s)" % (canon(x.base), canon_int(x.start), canon_int(x.length))
    if isinstance(x, BCat):
        return "cat(" + ",".join(canon(p) for p in x.parts) + ")"
    if isinstance(x, (int, SymInt)):
        return canon_int(x)
    if isinstance(x, str):
        return repr(x)
    if isinstance(x, External):
        return x.dotted.split(".")[-1]
    if isinstance(x, Obj) and x.kind:
        return x.kind + "{" + ",".join("%s=%s" % (k, canon(v)) for k, v in sorted(x.attrs.items()) if not k.startswith("_")) + "}"
    if x is None:
        return "None"
    if isinstance(x, (tuple, list)):
        return "(" + ",".join(canon(i) for i in x) + ")"
    raise Unsupported("canonical form of %s" % type(x).__name__)


def canon_int(v):
    if is_sym(v):
        return str(core.z3.simplify(T(v)))
    return str(v)


def _norm(x):
    """normalise byte arguments so that structurally equal values get equal canonical forms"""
    if core.is_byteslike(x):
        return to_bytes_val(x)
    return x


class BApp(SymBytes):
    """bytes = f(args): uninterpreted, identified by the canonical form of its arguments"""

    def __init__(self, fname, args, length):
        self.fname = fname
        self.args = [_norm(a) for a in args]
        self.key = fname + "(" + ",".join(canon(a) for a in self.args) + ")"
        self.length = length
        h = hashlib.sha1(self.key.encode()).hexdigest()[:16]
        fn = _APPS.get(h)
        if fn is None:
            fn = core.z3.Function("uf_" + fname + "_" + h, core.z3.IntSort(), core.z3.IntSort())
            _APPS[h] = fn
        self.fn = fn

    def at(self, i):
        t = self.fn(T(i))
        core.CUR.fact(core.z3.And(t >= 0, t <= 255))
        return SymInt(t)

    def __repr__(self):
        return "BApp(%s)" % self.key[:80]


def same_app(a, b):
    return isinstance(a, BApp) and isinstance(b, BApp) and a.key == b.key


DIGEST = {"SHA256": 32, "SHA384": 48, "SHA1": 20, "MD5": 16, "SHA512": 64}
H = "cryptography.hazmat.primitives.hashes."
C = "cryptography.hazmat.primitives.ciphers."


def alg_name(a):
    if isinstance(a, External):
        return a.dotted.split(".")[-1]
    if isinstance(a, Obj) and a.kind and a.kind.startswith("hash:"):
        return a.kind[5:]
    raise Unsupported("hash algorithm %r" % (a,))


def install(I):
    M = I.models
    for n, d in DIGEST.items():
        M[H + n] = (lambda n, d: (lambda I: Obj(None, {"digest_size": d, "name": n.lower()}, kind="hash:" + n)))(n, d)
        M[H + n + ".digest_size"] = d
        M[H + n + ".name"] = n.lower()
    # hashes.Hash / hmac.HMAC
    M[H + "Hash"] = lambda I, alg, backend=None: Obj(None, {"alg": alg_name(alg), "buf": core.const(b"")}, kind="crypto.Hash")
    M["crypto.Hash.update"] = lambda I, o, data: o.attrs.__setitem__("buf", bcat(o.attrs["buf"], data))
    M["crypto.Hash.copy"] = lambda I, o: Obj(None, dict(o.attrs), kind="crypto.Hash")
    M["crypto.Hash.finalize"] = lambda I, o: BApp("H", [o.attrs["alg"], o.attrs["buf"]], DIGEST[o.attrs["alg"]])
    M["cryptography.hazmat.primitives.hmac.HMAC"] = lambda I, key, algorithm, backend=None: Obj(
        None, {"alg": alg_name(algorithm), "key": to_bytes_val(key), "buf": core.const(b"")}, kind="crypto.HMAC")
    M["crypto.HMAC.update"] = lambda I, o, data: o.attrs.__setitem__("buf", bcat(o.attrs["buf"], data))
    M["crypto.HMAC.copy"] = lambda I, o: Obj(None, dict(o.attrs), kind="crypto.HMAC")
    M["crypto.HMAC.finalize"] = lambda I, o: BApp("HMAC", [o.attrs["alg"], o.attrs["key"], o.attrs["buf"]], DIGEST[o.attrs["alg"]])
    # HKDF
    K = "cryptography.hazmat.primitives.kdf.hkdf."
    M[K + "HKDFExpand"] = lambda I, algorithm, length, info, backend=None: Obj(
        None, {"alg": alg_name(algorithm), "length": length, "info": to_bytes_val(info) if info is not None else core.const(b"")}, kind="crypto.HKDFExpand")

    def expand(I, o, key):
        L = o.attrs["length"]
        return BApp("HKDF-Expand", [o.attrs["alg"], key, o.attrs["info"], L], L)
    M["crypto.HKDFExpand.derive"] = expand
    M[K + "HKDF"] = lambda I, algorithm, length, salt, info, backend=None: Obj(
        None, {"alg": alg_name(algorithm), "length": length, "salt": salt, "info": info}, kind="crypto.HKDF")
    M["crypto.HKDF._extract"] = lambda I, o, ikm: BApp("HKDF-Extract", [o.attrs["alg"], o.attrs["salt"], ikm], DIGEST[o.attrs["alg"]])
    # block / stream ciphers
    def _key(key):
        if not core.is_byteslike(key):
            raise PyExc("TypeError", "key must be bytes-like (assumed contract of cryptography's algorithm constructors)")
        return to_bytes_val(key)
    for a in ("AES", "TripleDES", "Camellia", "IDEA", "ARC4"):
        M[C + "algorithms." + a] = (lambda a: (lambda I, key: Obj(None, {"key": _key(key)}, kind="alg:" + a)))(a)
    M[C + "algorithms.ChaCha20"] = lambda I, key, nonce: Obj(None, {"key": _key(key), "nonce": _key(nonce)}, kind="alg:ChaCha20")
    M[C + "modes.ECB"] = lambda I: Obj(None, {}, kind="mode:ECB")
    M[C + "modes.CBC"] = lambda I, iv: Obj(None, {"iv": to_bytes_val(iv)}, kind="mode:CBC")
    M[C + "Cipher"] = lambda I, algorithm, mode=None, backend=None: Obj(None, {"alg": algorithm, "mode": mode}, kind="crypto.Cipher")

    def ctx(direction):
        def mk(I, o):
            return Obj(None, {"cipher": o, "dir": direction, "pos": 0, "fed": core.const(b"")}, kind="crypto.CipherContext")
        return mk
    M["crypto.Cipher.encryptor"] = ctx("enc")
    M["crypto.Cipher.decryptor"] = ctx("dec")

    def update(I, o, data):
        cph = o.attrs["cipher"]
        data = to_bytes_val(data)
        # stream position / CBC chaining: the output depends on everything fed so far
        out = BApp("CIPHER-" + o.attrs["dir"], [cph.attrs["alg"], cph.attrs["mode"], o.attrs["fed"], data], data.length)
        o.attrs["fed"] = bcat(o.attrs["fed"], data)
        return out
    M["crypto.CipherContext.update"] = update
    M["crypto.CipherContext.finalize"] = lambda I, o: core.const(b"")
