"""assumed contract of dpkt.pcapng's block classes as used by tlexport/dpkt_dsb.py (never verified):
a block class applied to the bytes of one block decodes the fields the pcapng specification names, in the byte
order of the class (..LE = little endian).  Blocks are recognised by the symbolic body they were built from
(the harness registers `ghost` descriptions of the file's blocks)."""
from . import core
from .core import SymInt, T, to_bytes_val, BCat, BBase, BList, BSlice, Unsupported, PyExc, is_sym
from .interp import Obj, Builtin

P = "dpkt.pcapng."
CONSTS = {"PCAPNG_BT_SHB": 0x0A0D0D0A, "PCAPNG_BT_IDB": 1, "PCAPNG_BT_PB": 2, "PCAPNG_BT_EPB": 6, "BYTE_ORDER_MAGIC": 0x1A2B3C4D,
          "BYTE_ORDER_MAGIC_LE": 0x4D3C2B1A, "PCAPNG_VERSION_MAJOR": 1, "PCAPNG_OPT_IF_TSRESOL": 9, "PCAPNG_OPT_IF_TSOFFSET": 14,
          "dltoff": {1: 14}}
GHOST = {}       # id(body BBase) -> ghost description (set by the contract)


def _be(b, lo, n):
    v = 0
    for k in range(n):
        v = v * 256 + b.at(lo + k)
    return v


def _le(b, lo, n):
    v = 0
    for k in range(n - 1, -1, -1):
        v = v * 256 + b.at(lo + k)
    return v


def _ghost_of(buf):
    v = to_bytes_val(buf)
    parts = v.parts if isinstance(v, BCat) else [v]
    for p in parts:
        root = p.root() if isinstance(p, BSlice) else p
        g = GHOST.get(id(root))
        if g is not None:
            return g
    raise Unsupported("dpkt block class applied to bytes that are not one block of the modelled file")


def install(I):
    M = I.models
    for k, v in CONSTS.items():
        M[P + k] = v

    def struct_unpack(I, fmt, buf):
        b = to_bytes_val(buf)
        order = _le if fmt[0] == "<" else _be
        body = fmt.lstrip("<>!=")
        out, off = [], 0
        for ch in body:
            n = {"I": 4, "H": 2, "q": 8, "b": 1, "B": 1}.get(ch)
            if n is None:
                raise Unsupported("struct format %r" % fmt)
            ln = b.length
            if is_sym(ln):
                if not core.CUR.prove(T(ln) >= off + n):
                    raise Unsupported("struct_unpack on a buffer not provably long enough")
            elif ln < off + n:
                raise PyExc("struct.error", "unpack requires a buffer of %d bytes" % (off + n))
            v = order(b, off, n)
            if ch in ("q", "b"):          # signed
                v = core.ite(v >= 2 ** (8 * n - 1), v - 2 ** (8 * n), v)
            out.append(v)
            off += n
        return tuple(out)
    M[P + "struct_unpack"] = struct_unpack
    M[P + "_swap32b"] = lambda I, i: _swap(i)
    M[P + "_align32b"] = lambda I, n: ((n + 3) // 4) * 4
    M["dpkt.Packet.unpack"] = packet_unpack
    M[P + "_PcapngBlock._do_unpack_options"] = lambda I, o, buf, off: None

    def shb_new(order):
        def mk(I, *a):
            if a:
                b = to_bytes_val(a[0])
                return Obj(None, {"v_major": order(b, 12, 2), "v_minor": order(b, 14, 2)}, kind="dpkt.SHB")
            return Obj(None, {"__hdr_len__": 28}, kind="dpkt.SHB")
        return mk
    M[P + "SectionHeaderBlock"] = shb_new(_be)
    M[P + "SectionHeaderBlockLE"] = shb_new(_le)

    def unpack_hdr(I, o, buf):
        b = to_bytes_val(buf)
        o.attrs["type"], o.attrs["len"], o.attrs["bom"] = _be(b, 0, 4), _be(b, 4, 4), _be(b, 8, 4)
    M["dpkt.SHB.unpack_hdr"] = unpack_hdr

    def block(kind):
        def mk(I, buf):
            g = _ghost_of(buf)
            if g["kind"] != kind:
                raise Unsupported("block class %s applied to a %s block" % (kind, g["kind"]))
            return Obj(None, dict(g["fields"]), kind="dpkt." + kind)
        return mk
    for cls, kind in (("InterfaceDescriptionBlock", "IDB"), ("EnhancedPacketBlock", "EPB"), ("PacketBlock", "PB")):
        M[P + cls] = block(kind)
        M[P + cls + "LE"] = block(kind)


def packet_unpack(I, o, buf):
    """dpkt.Packet.unpack: decode the __hdr__ fields of the instance's class in its __byte_order__"""
    hdr = I.class_lookup(o.cls, "__hdr__")
    bo = I.class_lookup(o.cls, "__byte_order__")
    order = _le if bo == "<" else _be
    b = to_bytes_val(buf)
    off = 0
    for name, fmt, _default in hdr:
        n = {"I": 4, "H": 2, "q": 8, "B": 1, "b": 1}[fmt]
        if is_sym(b.length):
            if not core.CUR.prove(T(b.length) >= off + n):
                if core.CUR.fork(T(b.length) < off + n):
                    raise PyExc("NeedData", "short block")
        elif b.length < off + n:
            raise PyExc("NeedData", "short block")
        o.attrs[name] = order(b, off, n)
        off += n


def _swap(i):
    if not is_sym(i):
        return int.from_bytes(int(i).to_bytes(4, "big"), "little")
    ds = core.digits_of(T(i), 4)
    return ((ds[3] * 256 + ds[2]) * 256 + ds[1]) * 256 + ds[0]
