"""conservative syntactic frame (effect) inference over the real ASTs: which roots can a function write?

roots: 'self', 'param:<name>', 'local:<name>' (a name bound inside the function), 'global:<name>' (a module-level
name or a name declared global), 'unknown' (a store through an expression that is not a name chain).
Used for isolation / determinism obligations: methods of per-connection classes write only what is reachable
from self or from their arguments; nothing writes module-level state except an explicit allow-list."""
import ast

MUTATORS = {"append", "extend", "add", "update", "clear", "pop", "remove", "sort", "insert", "reverse", "setdefault",
            "popitem", "discard", "__setitem__", "__delitem__"}


def _root(node):
    while isinstance(node, (ast.Attribute, ast.Subscript)):
        node = node.value
    if isinstance(node, ast.Name):
        return node.id
    if isinstance(node, ast.Call):
        return "<call>"
    return None


def writes_of(fn, module_globals):
    params = {a.arg for a in fn.args.args + fn.args.kwonlyargs}
    if fn.args.vararg:
        params.add(fn.args.vararg.arg)
    declared_global = set()
    local_names = set()
    for n in ast.walk(fn):
        if isinstance(n, ast.Global):
            declared_global |= set(n.names)
        if isinstance(n, ast.Name) and isinstance(n.ctx, ast.Store):
            local_names.add(n.id)
        if isinstance(n, ast.ExceptHandler) and n.name:
            local_names.add(n.name)
    local_names -= declared_global
    out = set()

    def classify(name):
        if name is None:
            return "unknown"
        if name == "<call>":
            return "local:<fresh>"
        if name == "self":
            return "self"
        if name in declared_global:
            return "global:" + name
        if name in params:
            return "param:" + name
        if name in local_names:
            return "local:" + name
        if name in module_globals:
            return "global:" + name
        return "global:" + name

    def target(t):
        if isinstance(t, ast.Name):
            if t.id in declared_global:
                out.add("global:" + t.id)
            return
        if isinstance(t, (ast.Tuple, ast.List)):
            for e in t.elts:
                target(e)
            return
        if isinstance(t, ast.Starred):
            return target(t.value)
        out.add(classify(_root(t)))

    for n in ast.walk(fn):
        if isinstance(n, ast.Assign):
            for t in n.targets:
                target(t)
        elif isinstance(n, (ast.AugAssign, ast.AnnAssign)):
            if not (isinstance(n, ast.AnnAssign) and n.value is None):
                target(n.target)
        elif isinstance(n, ast.Delete):
            for t in n.targets:
                target(t)
        elif isinstance(n, ast.For):
            target(n.target)
        elif isinstance(n, ast.Call) and isinstance(n.func, ast.Attribute) and n.func.attr in MUTATORS:
            out.add(classify(_root(n.func.value)))
    return out


def reads_ambient(fn):
    """names of ambient-state APIs referenced (os.environ, time, random, id, hash, getcwd ...)"""
    bad = set()
    for d in fn.decorator_list:
        txt = ast.unparse(d)
        if "cache" in txt:
            bad.add("@" + txt + " (state surviving from an earlier call / run)")
    for n in ast.walk(fn):
        if isinstance(n, ast.Attribute):
            txt = ast.unparse(n)
            for pat in ("os.environ", "os.getcwd", "os.getenv", "time.time", "time.", "random.", "datetime.", "uuid.", "sys.argv"):
                if txt.startswith(pat):
                    bad.add(txt)
        if isinstance(n, ast.Call) and isinstance(n.func, ast.Name) and n.func.id in ("id", "hash", "input"):
            bad.add(n.func.id + "()")
    return bad


def attr_grows_only(cls_node, attr, init=("__init__", "reset"), base="self"):
    """within the class: outside `init`, the attribute base.attr is never rebound, never shrunk or reordered; the
    only mutations are .append/.extend.  Returns the list of offending (method, line, text)."""
    bad = []
    text = base + "." + attr
    for fn in cls_node.body:
        if not isinstance(fn, ast.FunctionDef) or fn.name in init:
            continue
        parents = {}
        for n in ast.walk(fn):
            for ch in ast.iter_child_nodes(n):
                parents[ch] = n
        for n in ast.walk(fn):
            if isinstance(n, ast.Attribute) and ast.unparse(n) == text:
                p = parents.get(n)
                if isinstance(p, ast.AnnAssign) and p.value is None:
                    continue        # a bare annotation binds nothing
                if isinstance(n.ctx, (ast.Store, ast.Del)):
                    bad.append((fn.name, n.lineno, "rebinds " + text))
                elif isinstance(p, ast.Subscript) and isinstance(p.ctx, (ast.Store, ast.Del)):
                    bad.append((fn.name, n.lineno, "stores into " + text))
                elif isinstance(p, ast.Attribute) and p.attr in MUTATORS and p.attr not in ("append", "extend"):
                    bad.append((fn.name, n.lineno, "calls ." + p.attr + " on " + text))
                elif isinstance(p, ast.AugAssign) and p.target is n:
                    bad.append((fn.name, n.lineno, "augmented assignment to " + text))
    return bad


def name_grows_only(fn_nodes, name):
    """module-level list `name`: in the given functions it is only read, .append-ed or .extend-ed (plus the
    documented reset at the start of run(): .clear() / del name[k:] are reported separately by the caller)"""
    bad = []
    for fn in fn_nodes:
        parents = {}
        for n in ast.walk(fn):
            for ch in ast.iter_child_nodes(n):
                parents[ch] = n
        for n in ast.walk(fn):
            if isinstance(n, ast.Name) and n.id == name:
                p = parents.get(n)
                if isinstance(n.ctx, (ast.Store, ast.Del)):
                    bad.append((fn.name, n.lineno, "rebinds " + name))
                elif isinstance(p, ast.Subscript) and isinstance(p.ctx, (ast.Store, ast.Del)):
                    bad.append((fn.name, n.lineno, "stores into / deletes from " + name))
                elif isinstance(p, ast.Attribute) and p.attr in MUTATORS and p.attr not in ("append", "extend"):
                    bad.append((fn.name, n.lineno, "calls ." + p.attr + " on " + name))
    return bad


def loop_reads_iterable_only_through_target(fn, loop_head_prefix):
    """the for loop whose unparsed head starts with loop_head_prefix: its iterable expression does not occur in
    its own body (no look-ahead, no second pass)"""
    for n in ast.walk(fn):
        if isinstance(n, ast.For) and ast.unparse(n).split("\n")[0].startswith(loop_head_prefix):
            it = ast.unparse(n.iter)
            for st in n.body:
                for m in ast.walk(st):
                    if isinstance(m, (ast.Attribute, ast.Name)) and ast.unparse(m) == it:
                        return False
            return True
    return None
