"""frontend: reads the REAL sources under $TLEXPORT_REPO (default /repo) with ast on every run.

Nothing is imported from the repository; module-level tables are evaluated by the interpreter's
restricted constant evaluator.  What is dropped is exactly: docstrings, annotations, typing.cast
(identity) and the effect (not the argument evaluation) of logging.* / print calls.
"""
import ast
import hashlib
import os

REPO = os.environ.get("TLEXPORT_REPO", "/repo")


class FuncVal:
    def __init__(self, module, node, cls=None):
        self.module = module
        self.node = node
        self.cls = cls
        self.name = node.name
        self.qualname = module.name + "." + (cls.name + "." if cls else "") + node.name

    def __repr__(self):
        return "<func %s>" % self.qualname


class ClassVal:
    def __init__(self, module, node):
        self.module = module
        self.node = node
        self.name = node.name
        self.qualname = module.name + "." + node.name
        self.methods = {}
        self.attrs = {}
        self.base_exprs = node.bases
        self._bases = None
        self.is_enum = False
        self.members = {}

    def __repr__(self):
        return "<class %s>" % self.qualname


class EnumMember:
    def __init__(self, cls, name, value):
        self.cls = cls
        self.name = name
        self.value = value

    def __repr__(self):
        return "%s.%s" % (self.cls.name, self.name)


class External:
    """a name from a library that is never verified (assumed contract in models.py)"""

    def __init__(self, dotted):
        self.dotted = dotted

    def __repr__(self):
        return "<external %s>" % self.dotted

    def __eq__(self, o):
        return isinstance(o, External) and o.dotted == self.dotted

    def __hash__(self):
        return hash(("External", self.dotted))


class ModuleInfo:
    def __init__(self, name, path):
        self.name = name
        self.path = path
        with open(path, "rb") as f:
            src = f.read()
        self.sha256 = hashlib.sha256(src).hexdigest()
        self.source = src.decode("utf-8")
        self.tree = ast.parse(self.source, filename=path)
        self.globals = {}
        self.initialised = False


class Program:
    def __init__(self, repo=None):
        self.repo = repo or REPO
        self.modules = {}

    def module_path(self, name):
        rel = name.replace(".", "/")
        p = os.path.join(self.repo, rel + ".py")
        if os.path.exists(p):
            return p
        p = os.path.join(self.repo, rel, "__init__.py")
        if os.path.exists(p):
            return p
        return None

    def is_repo_module(self, name):
        return name.split(".")[0] == "tlexport" and self.module_path(name) is not None

    def load(self, name):
        if name in self.modules:
            return self.modules[name]
        p = self.module_path(name)
        if p is None:
            raise KeyError("no repo module " + name)
        m = ModuleInfo(name, p)
        self.modules[name] = m
        return m

    def lookup(self, qualname):
        """'tlexport.quic.quic_frame.CryptoFrame.__init__' -> FuncVal / ClassVal (module initialised
        by the interpreter on demand)"""
        parts = qualname.split(".")
        for cut in range(len(parts), 0, -1):
            mn = ".".join(parts[:cut])
            if self.is_repo_module(mn):
                return self.load(mn), parts[cut:]
        raise KeyError(qualname)

    def span(self, fv):
        n = fv.node
        return {"function": fv.qualname, "file": os.path.relpath(fv.module.path, self.repo),
                "sha256": fv.module.sha256, "lines": "%d:%d" % (n.lineno, n.end_lineno)}
