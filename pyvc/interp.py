"""AST interpreter over the symbolic value domain (statements, expressions, calls, classes)."""
import ast

from . import core
from .core import (PyExc, Unsupported, PathAbort, SymInt, SymBool, SymBytes, ByteArr, SymFloat, BList,
                   is_sym, T, TB, mk_bool, mk_int, bnot, to_bytes_val, is_byteslike, exc_isinstance)
from .frontend import FuncVal, ClassVal, EnumMember, External, Program


class Obj:
    """instance of a repo class (or of a modelled library record) on the symbolic heap"""

    def __init__(self, cls, attrs=None, kind=None):
        self.cls = cls
        self.kind = kind  # for library records: 'scapy.Ether', ...
        self.__dict__["attrs"] = attrs if attrs is not None else {}

    def __repr__(self):
        return "<Obj %s %s>" % (self.cls.name if self.cls else self.kind, sorted(self.attrs))


class BoundMethod:
    def __init__(self, obj, func):
        self.obj = obj
        self.func = func


class Builtin:
    def __init__(self, name, fn):
        self.name = name
        self.fn = fn

    def __repr__(self):
        return "<builtin %s>" % self.name


class SuperProxy:
    def __init__(self, obj, cls):
        self.obj = obj
        self.cls = cls


class _Return(Exception):
    def __init__(self, value):
        self.value = value


class _Break(Exception):
    pass


class _Continue(Exception):
    pass


class Frame:
    def __init__(self, func, locals_):
        self.func = func
        self.locals = locals_
        self.module = func.module if func else None
        self.loop_ordinal = 0


UNBOUND = object()

EXC_NAMES = set(core.EXC_PARENTS)


class LoopSpec:
    """sidecar loop contract: invariant(env)->bool, optional decreases(env)->int, havoc kinds"""

    def __init__(self, anchor, invariant, decreases=None, havoc=None, label=None, ghost_step=None, callee_frame=None):
        # callee_frame="harness": what the methods called on self in the body change is havocked BY THE HARNESS (ghost hook) and closed by
        # its own frame obligation; otherwise the attributes those methods store through self are havocked automatically
        self.callee_frame = callee_frame
        self.anchor = anchor
        self.invariant = invariant
        self.decreases = decreases
        self.havoc = havoc or {}
        self.label = label or anchor
        self.ghost_step = ghost_step


class Env:
    """read access to the locals of the frame for invariants"""

    def __init__(self, frame, interp, extra=None):
        object.__setattr__(self, "_f", frame)
        object.__setattr__(self, "_i", interp)
        object.__setattr__(self, "_x", extra or {})

    def __getattr__(self, n):
        if n in self._x:
            return self._x[n]
        v = self._f.locals.get(n, UNBOUND)
        if v is UNBOUND:
            raise AttributeError(n)
        return v

    def has(self, n):
        return self._f.locals.get(n, UNBOUND) is not UNBOUND

    def ghost(self, n):
        return self._f.locals["ghost:" + n]

    def set_ghost(self, n, v):
        self._f.locals["ghost:" + n] = v


class Interp:
    def __init__(self, program=None):
        self.program = program or Program()
        self.summaries = {}     # qualname -> callable(interp, *args, **kw) -> value   (assumed at call sites)
        self.inline = set()     # qualnames executed by body even if a summary exists
        self.loops = {}         # qualname -> [LoopSpec]
        self.models = {}
        self.call_depth = 0
        self.trace_calls = []
        self.unroll_cap = 40
        self.ghost = {}
        self.used_summaries = set()
        self.used_externals = set()
        self.functions_executed = set()
        self.loop_cuts_widened = set()
        self.uncontracted_loops_executed = 0
        self.unrolled_in_contract_fn = set()    # functions with loop contracts in which some loop was executed WITHOUT a contract
        from . import models
        models.install(self)
        from . import cryptomodel
        cryptomodel.install(self)
        from . import scapymodel
        scapymodel.install(self)
        from . import regex
        regex.install(self)
        from . import dpktmodel
        dpktmodel.install(self)

    # ------------------------------------------------------------------ modules
    def module(self, name):
        m = self.program.load(name)
        if not m.initialised:
            m.initialised = True
            self.init_module(m)
        return m

    def init_module(self, m):
        g = m.globals
        frame = Frame(None, g)
        frame.module = m
        body = []
        for node in m.tree.body:
            if isinstance(node, ast.With):      # e.g. `with warnings.catch_warnings(): from cryptography ... import ...`
                body.extend(node.body)
            elif isinstance(node, ast.Try):
                body.extend(node.body)
            else:
                body.append(node)
        for node in body:
            if isinstance(node, ast.FunctionDef):
                g[node.name] = FuncVal(m, node)
            elif isinstance(node, ast.ClassDef):
                try:
                    g[node.name] = self.make_class(m, node, frame)
                except (Unsupported, PyExc) as e:
                    g[node.name] = _Unevaluated(node.name, repr(e))
            elif isinstance(node, ast.Import):
                for a in node.names:
                    top = a.name.split(".")[0]
                    if a.asname:
                        g[a.asname] = self.import_module_value(a.name)
                    else:
                        g[top] = self.import_module_value(top)
            elif isinstance(node, ast.ImportFrom):
                modname = node.module
                if node.level:
                    base = m.name.split(".")
                    base = base[:len(base) - node.level]
                    modname = ".".join(base + ([node.module] if node.module else []))
                for a in node.names:
                    g[a.asname or a.name] = self.import_from(modname, a.name)
            elif isinstance(node, (ast.Assign, ast.AnnAssign)):
                try:
                    self.exec_stmt(node, frame)
                except (Unsupported, PyExc) as e:
                    tgt = node.targets[0] if isinstance(node, ast.Assign) else node.target
                    if isinstance(tgt, ast.Name):
                        g[tgt.id] = _Unevaluated(tgt.id, repr(e))
            elif isinstance(node, ast.Expr):
                pass  # docstring / bare call at module level is not executed
            elif isinstance(node, ast.If):
                pass  # `if __name__ == "__main__"`
            else:
                pass

    def import_module_value(self, name):
        if self.program.is_repo_module(name):
            return ModuleRef(self, name)
        return External(name)

    def import_from(self, modname, name):
        if self.program.is_repo_module(modname):
            sub = modname + "." + name
            if self.program.is_repo_module(sub):
                return ModuleRef(self, sub)
            m = self.module(modname)
            if name in m.globals:
                return m.globals[name]
            raise Unsupported("cannot import %s from %s" % (name, modname))
        return External(modname + "." + name)

    def make_class(self, m, node, frame):
        c = ClassVal(m, node)
        bases = []
        for b in node.bases:
            bv = self.eval(b, frame)
            bases.append(bv)
        c._bases = bases
        c.is_enum = any(isinstance(b, External) and b.dotted in ("enum.Enum", "enum.IntEnum") for b in bases)
        # @dataclass / @dataclass(...): the generated __init__ is synthesised at instantiation from the annotated fields, in order
        deco = [d.func if isinstance(d, ast.Call) else d for d in node.decorator_list]
        c.dataclass_fields = [] if any(ast.unparse(d) in ("dataclass", "dataclasses.dataclass") for d in deco) else None
        for d in node.decorator_list:
            if c.dataclass_fields is None:
                raise Unsupported("class decorator %s on %s" % (ast.unparse(d), node.name))
            if isinstance(d, ast.Call) and any(k.arg in ("slots", "frozen", "kw_only", "init") for k in d.keywords):
                raise Unsupported("dataclass option %s" % ast.unparse(d))
        outer = frame
        frame = Frame(None, _ClassScope(c, outer.locals))
        frame.module = outer.module
        for st in node.body:
            if isinstance(st, ast.FunctionDef):
                c.methods[st.name] = FuncVal(m, st, c)
            elif isinstance(st, ast.Assign) and len(st.targets) == 1 and isinstance(st.targets[0], ast.Name):
                v = self.eval(st.value, frame)
                if c.is_enum:
                    mem = EnumMember(c, st.targets[0].id, v)
                    c.members[st.targets[0].id] = mem
                    c.attrs[st.targets[0].id] = mem
                else:
                    c.attrs[st.targets[0].id] = v
            elif isinstance(st, ast.AnnAssign) and isinstance(st.target, ast.Name) and st.value is not None:
                v = self.eval(st.value, frame)
                if c.dataclass_fields is not None and "ClassVar" not in ast.unparse(st.annotation):
                    if isinstance(v, DataclassField):
                        c.dataclass_fields.append((st.target.id, v))
                        if v.has_default:
                            c.attrs[st.target.id] = v.default
                        continue
                    if isinstance(v, (list, dict, SetVal)) or type(v).__name__ == "ByteArr":
                        raise PyExc("ValueError", "mutable default %s for field %s is not allowed: use default_factory" % (type(v).__name__, st.target.id))
                    c.dataclass_fields.append((st.target.id, DataclassField(True, v, None)))
                c.attrs[st.target.id] = v
            elif isinstance(st, ast.Expr) and isinstance(st.value, ast.Constant):
                pass
            elif isinstance(st, ast.Pass):
                pass
            elif isinstance(st, ast.AnnAssign):
                if c.dataclass_fields is not None and isinstance(st.target, ast.Name) and "ClassVar" not in ast.unparse(st.annotation):
                    c.dataclass_fields.append((st.target.id, DataclassField(False, None, None)))
            else:
                raise Unsupported("class body statement %s in %s" % (type(st).__name__, c.qualname))
        return c

    def resolve(self, qualname):
        m, rest = self.program.lookup(qualname)
        m = self.module(m.name)
        v = m.globals[rest[0]]
        for r in rest[1:]:
            if isinstance(v, ClassVal):
                v = self.class_lookup(v, r)
            else:
                raise KeyError(qualname)
        return v

    def mro(self, c):
        out = [c]
        for b in c._bases or []:
            if isinstance(b, ClassVal):
                for x in self.mro(b):
                    if x not in out:
                        out.append(x)
        return out

    def _init_sets(self, c, name):
        """does c.__init__ (or a method of c it calls on self, one level) assign self.<name> outside any branch or loop?"""
        cache = self.__dict__.setdefault("_init_sets_cache", {})
        key = (id(c), name)
        if key in cache:
            return cache[key]

        def unconditional_sets(fn, depth):
            out = set()
            for st in fn.node.body:
                for t in (st.targets if isinstance(st, ast.Assign) else [st.target] if isinstance(st, (ast.AnnAssign, ast.AugAssign)) else []):
                    if isinstance(t, ast.Attribute) and isinstance(t.value, ast.Name) and t.value.id == "self":
                        out.add(t.attr)
                if depth == 0 and isinstance(st, ast.Expr) and isinstance(st.value, ast.Call) and isinstance(st.value.func, ast.Attribute) \
                        and isinstance(st.value.func.value, ast.Name) and st.value.func.value.id == "self":
                    m = self.class_lookup(c, st.value.func.attr)
                    if isinstance(m, FuncVal):
                        out |= unconditional_sets(m, 1)
            return out
        init = self.class_lookup(c, "__init__")
        r = isinstance(init, FuncVal) and name in unconditional_sets(init, 0)
        cache[key] = r
        return r

    def class_lookup(self, c, name):
        for k in self.mro(c):
            if name in k.methods:
                return k.methods[name]
            if name in k.attrs:
                return k.attrs[name]
        return UNBOUND

    def isinstance_(self, v, c):
        if isinstance(c, tuple):
            return any(self.isinstance_(v, x) for x in c)
        if isinstance(c, ClassVal):
            return isinstance(v, Obj) and v.cls is not None and c in self.mro(v.cls)
        if isinstance(c, Builtin):
            n = c.name
            if n == "int":
                return isinstance(v, (int, SymInt, SymBool))
            if n == "bytes":
                return isinstance(v, (bytes, SymBytes))
            if n == "bytearray":
                return isinstance(v, ByteArr)
            if n == "str":
                return isinstance(v, str)
            if n == "list":
                return isinstance(v, list)
            if n == "dict":
                return isinstance(v, dict)
            if n == "tuple":
                return isinstance(v, tuple)
            if n == "bool":
                return isinstance(v, (bool, SymBool))
        if isinstance(c, External):
            return isinstance(v, Obj) and v.kind is not None and (v.kind == c.dotted or c.dotted in getattr(v, "kinds", ()))
        raise Unsupported("isinstance against %r" % (c,))

    # ------------------------------------------------------------------ calls
    def call(self, f, args, kwargs=None, lineno=None):
        kwargs = kwargs or {}
        if isinstance(f, FuncVal):
            return self.call_func(f, args, kwargs)
        if isinstance(f, BoundMethod):
            return self.call(f.func, [f.obj] + list(args), kwargs)
        if isinstance(f, Builtin):
            return f.fn(self, *args, **kwargs)
        if isinstance(f, ClassVal):
            return self.instantiate(f, args, kwargs)
        if isinstance(f, External):
            fn = self.models.get(f.dotted)
            if fn is None:
                raise Unsupported("call of unmodelled external %s" % f.dotted)
            self.used_externals.add(f.dotted)
            return fn(self, *args, **kwargs)
        if isinstance(f, Obj) and f.kind is not None:
            fn = self.models.get(f.kind + ".__call__")
            if fn is not None:
                return fn(self, f, *args, **kwargs)
        if callable(f) and getattr(f, "_pyvc_model", False):
            return f(self, *args, **kwargs)
        if isinstance(f, LambdaVal) and not kwargs and len(args) == len(f.node.args.args) and not f.node.args.vararg and not f.node.args.kwonlyargs:
            fr = Frame(f.frame.func, dict(f.frame.locals))
            fr.module = f.frame.module
            for a, v in zip(f.node.args.args, args):
                fr.locals[a.arg] = v
            return self.eval(f.node.body, fr)
        if isinstance(f, ExcClass):
            return ExcValue(f.name, args[0] if args and isinstance(args[0], str) else "")      # ValueError(anything): an exception instance
        raise Unsupported("call of %r" % (f,))

    def instantiate(self, c, args, kwargs):
        if c.is_enum:
            raise Unsupported("Enum(value) lookup")
        init = self.class_lookup(c, "__init__")
        if isinstance(init, FuncVal):
            q = c.qualname + ".__init__"
            # a summary for a constructor is keyed by the class's own __init__ qualname
            key = init.qualname if init.cls is c else q
            if key in self.summaries and key not in self.inline:
                self.used_summaries.add(key)
                return self.summaries[key](self, c, *args, **kwargs)
        o = Obj(c)
        if isinstance(init, FuncVal):
            self.call_func(init, [o] + list(args), kwargs, force_body=True)
        elif getattr(c, "dataclass_fields", None) is not None:
            fields = [f for k in reversed(self.mro(c)) for f in (getattr(k, "dataclass_fields", None) or [])]
            if len(args) > len(fields):
                raise PyExc("TypeError", "%s() takes %d positional arguments but %d were given" % (c.name, len(fields), len(args)))
            given = dict(zip([n for n, _ in fields], args))
            for k, v in kwargs.items():
                if k in given or k not in [n for n, _ in fields]:
                    raise PyExc("TypeError", "%s() got an unexpected or repeated argument '%s'" % (c.name, k))
                given[k] = v
            for n, fd in fields:
                if n in given:
                    o.attrs[n] = given[n]
                elif fd.factory is not None:
                    o.attrs[n] = self.call(fd.factory, [])
                elif fd.has_default:
                    o.attrs[n] = fd.default
                else:
                    raise PyExc("TypeError", "%s() missing required argument '%s'" % (c.name, n))
            post = self.class_lookup(c, "__post_init__")
            if isinstance(post, FuncVal):
                self.call_func(post, [o], {}, force_body=True)
        elif args or kwargs:
            ext = [b for k in self.mro(c) for b in (k._bases or []) if isinstance(b, External)]
            unpack = self.class_lookup(c, "unpack")
            if ext and isinstance(unpack, FuncVal) and len(args) == 1 and not kwargs:
                # dpkt.Packet semantics (assumed): Class(buf) == unpack(buf) on a fresh instance
                hdr = self.class_lookup(c, "__hdr__")
                o.attrs["__hdr_len__"] = sum({"I": 4, "H": 2, "q": 8, "B": 1, "b": 1}[f[1]] for f in hdr)
                self.call_func(unpack, [o, args[0]], {}, force_body=True)
            else:
                raise PyExc("TypeError", "%s() takes no arguments" % c.name)
        return o

    def bind_args(self, f, args, kwargs):
        a = f.node.args
        if a.vararg or a.kwarg or a.posonlyargs:
            raise Unsupported("varargs in %s" % f.qualname)
        names = [x.arg for x in a.args]
        loc = {}
        if len(args) > len(names):
            raise PyExc("TypeError", "%s() takes %d positional arguments but %d were given" % (f.name, len(names), len(args)))
        for n, v in zip(names, args):
            loc[n] = v
        kwnames = [x.arg for x in a.kwonlyargs]
        for k, v in kwargs.items():
            if k in loc:
                raise PyExc("TypeError", "%s() got multiple values for argument '%s'" % (f.name, k))
            if k not in names and k not in kwnames:
                raise PyExc("TypeError", "%s() got an unexpected keyword argument '%s'" % (f.name, k))
            loc[k] = v
        defaults = a.defaults
        frame0 = Frame(f, {})
        for i, n in enumerate(names):
            if n not in loc:
                di = i - (len(names) - len(defaults))
                if di < 0:
                    raise PyExc("TypeError", "%s() missing required argument '%s'" % (f.name, n))
                loc[n] = self.eval(defaults[di], frame0)
        for n, d in zip(kwnames, a.kw_defaults):
            if n not in loc:
                if d is None:
                    raise PyExc("TypeError", "%s() missing keyword-only argument '%s'" % (f.name, n))
                loc[n] = self.eval(d, frame0)
        return loc

    def call_func(self, f, args, kwargs=None, force_body=False):
        kwargs = kwargs or {}
        q = f.qualname
        for d in f.node.decorator_list:
            if ast.unparse(d) not in ("property", "staticmethod", "classmethod"):
                raise Unsupported("decorated function %s (@%s): decorators are outside the verified subset" % (q, ast.unparse(d)))
        if not force_body and q in self.summaries and q not in self.inline:
            self.used_summaries.add(q)
            return self.summaries[q](self, *args, **kwargs)
        if self.call_depth > 60:
            raise Unsupported("call depth (recursion?) at %s" % q)
        loc = self.bind_args(f, args, kwargs)
        frame = Frame(f, loc)
        self.functions_executed.add(q)
        self.call_depth += 1
        try:
            if _is_generator(f.node):
                # generators are consumed only by `for`/list(): run eagerly, collecting the yielded values
                frame.yields = []
                try:
                    self.exec_block(f.node.body, frame)
                except _Return:
                    pass
                return GeneratorVal(frame.yields)
            self.exec_block(f.node.body, frame)
        except _Return as r:
            return r.value
        finally:
            self.call_depth -= 1
        return None

    # ------------------------------------------------------------------ statements
    def exec_block(self, stmts, frame):
        for s in stmts:
            self.exec_stmt(s, frame)

    def exec_stmt(self, s, frame):
        try:
            m = getattr(self, "st_" + type(s).__name__, None)
            if m is None:
                raise Unsupported("statement %s" % type(s).__name__)
            return m(s, frame)
        except PyExc as e:
            if e.lineno is None:
                e.lineno = getattr(s, "lineno", None)
                e.where = frame.func.qualname if frame.func else frame.module.name
            raise
        except (AttributeError, TypeError, KeyError, IndexError, ValueError, AssertionError, NotImplementedError) as e:
            # an internal error of the ENGINE while interpreting repository code is a limit of the verified subset
            # (verdict: undecided), never a verdict about the code and never silently skipped
            import traceback
            tb = traceback.extract_tb(e.__traceback__)
            where = "%s:%s" % (tb[-1].filename.rsplit("/", 1)[-1], tb[-1].lineno) if tb else "?"
            raise Unsupported("engine limitation (%s: %s at %s) while executing line %s of %s" % (
                type(e).__name__, e, where, getattr(s, "lineno", "?"), frame.func.qualname if frame.func else frame.module.name))

    def st_Pass(self, s, f):
        pass

    def st_Expr(self, s, f):
        if isinstance(s.value, ast.Constant):
            return
        self.eval(s.value, f)

    def st_Return(self, s, f):
        raise _Return(self.eval(s.value, f) if s.value is not None else None)

    def st_Break(self, s, f):
        raise _Break()

    def st_Continue(self, s, f):
        raise _Continue()

    def st_Global(self, s, f):
        f.globals_decl = getattr(f, "globals_decl", set()) | set(s.names)

    def st_Import(self, s, f):
        for a in s.names:
            top = a.name.split(".")[0]
            f.locals[a.asname or top] = self.import_module_value(a.name if a.asname else top)

    def st_ImportFrom(self, s, f):
        for a in s.names:
            f.locals[a.asname or a.name] = self.import_from(s.module, a.name)

    def st_Assign(self, s, f):
        v = self.eval(s.value, f)
        for t in s.targets:
            self.assign(t, v, f)

    def st_AnnAssign(self, s, f):
        if s.value is None:
            return
        self.assign(s.target, self.eval(s.value, f), f)

    def st_AugAssign(self, s, f):
        t = s.target
        if isinstance(t, ast.Name):
            cur = self.load_name(t.id, f)
            self.assign(t, self.binop(s.op, cur, self.eval(s.value, f), inplace=True), f)
        elif isinstance(t, ast.Attribute):
            o = self.eval(t.value, f)
            cur = self.getattr_(o, t.attr)
            self.setattr_(o, t.attr, self.binop(s.op, cur, self.eval(s.value, f), inplace=True))
        elif isinstance(t, ast.Subscript):
            o = self.eval(t.value, f)
            k = self.eval_index(t.slice, f)
            cur = self.subscript(o, k)
            self.store_subscript(o, k, self.binop(s.op, cur, self.eval(s.value, f), inplace=True))
        else:
            raise Unsupported("augmented assignment target")

    def st_Delete(self, s, f):
        for t in s.targets:
            if isinstance(t, ast.Name):
                if f.locals.get(t.id, UNBOUND) is UNBOUND:
                    raise PyExc("UnboundLocalError", t.id)
                f.locals[t.id] = UNBOUND
            elif isinstance(t, ast.Subscript):
                o = self.eval(t.value, f)
                k = self.eval_index(t.slice, f)
                self.models["__delitem__"](self, o, k)
            else:
                raise Unsupported("del target")

    def st_Assert(self, s, f):
        if not self.truth(self.eval(s.test, f)):
            raise PyExc("AssertionError", "")

    def st_If(self, s, f):
        if self.truth(self.eval(s.test, f)):
            self.exec_block(s.body, f)
        else:
            self.exec_block(s.orelse, f)

    def st_Raise(self, s, f):
        if s.exc is None:
            cur = getattr(f, "current_exc", None)
            if cur is None:
                raise PyExc("RuntimeError", "No active exception to reraise")
            raise cur
        v = self.eval(s.exc, f)
        if isinstance(v, ExcValue):
            raise PyExc(v.cls, v.msg)
        if isinstance(v, ExcClass):
            raise PyExc(v.name, "")
        if isinstance(v, External):
            raise PyExc(v.dotted.split(".")[-1], "")
        raise Unsupported("raise of %r" % (v,))

    def st_Try(self, s, f):
        try:
            try:
                self.exec_block(s.body, f)
            except PyExc as e:
                for h in s.handlers:
                    if self.handler_matches(h, e, f):
                        if h.name:
                            f.locals[h.name] = ExcValue(e.cls, e.msg)
                        prev = getattr(f, "current_exc", None)
                        f.current_exc = e
                        try:
                            self.exec_block(h.body, f)
                        finally:
                            f.current_exc = prev
                        break
                else:
                    raise
            else:
                self.exec_block(s.orelse, f)
        finally:
            if s.finalbody:
                self.exec_block(s.finalbody, f)

    def handler_matches(self, h, e, f):
        if h.type is None:
            return True
        t = self.eval(h.type, f)
        ts = t if isinstance(t, tuple) else (t,)
        for x in ts:
            if isinstance(x, ExcClass):
                if exc_isinstance(e.cls, x.name):
                    return True
            elif isinstance(x, External):
                nm = x.dotted.split(".")[-1]
                if exc_isinstance(e.cls, nm) or exc_isinstance(e.cls, x.dotted):
                    return True
            else:
                raise Unsupported("except clause type %r" % (x,))
        return False

    def st_With(self, s, f):
        """`with` over objects whose __enter__/__exit__ are modelled (library records, e.g. files): __enter__ at the start, __exit__ on
        every way out; an __exit__ that suppresses exceptions is outside the subset (its result is ignored and exceptions propagate)"""
        mgrs = []
        for item in s.items:
            mgr = self.eval(item.context_expr, f)
            try:
                enter = self.getattr_(mgr, "__enter__")
            except PyExc:
                raise Unsupported("with statement over an object without a modelled __enter__")
            v = self.call(enter, [])
            if v is None:
                v = mgr                      # files return themselves
            if item.optional_vars is not None:
                self.assign(item.optional_vars, v, f)
            mgrs.append(mgr)
        try:
            self.exec_block(s.body, f)
        finally:
            for mgr in reversed(mgrs):
                try:
                    self.call(self.getattr_(mgr, "__exit__"), [None, None, None])
                except PyExc:
                    raise Unsupported("with statement: __exit__ not modelled")

    def st_FunctionDef(self, s, f):
        """a nested function: a closure over the defining frame.  The enclosing locals are READ through the live frame (Python's
        late binding); a nested function that rebinds an enclosing name (nonlocal) is outside the subset"""
        if s.decorator_list:
            raise Unsupported("decorated nested function")
        for n in ast.walk(s):
            if isinstance(n, (ast.Nonlocal, ast.Global)):
                raise Unsupported("nested function with nonlocal/global")
        fv = FuncVal(f.func.module if f.func else f.module, s, cls=None)
        fv.qualname = (f.func.qualname if f.func else f.module.name) + ".<locals>." + s.name
        fv.enclosing = f
        f.locals[s.name] = fv

    def st_Match(self, s, f):
        subj = self.eval(s.subject, f)
        for case in s.cases:
            if self.match_pattern(case.pattern, subj, f):
                if case.guard is not None and not self.truth(self.eval(case.guard, f)):
                    continue
                self.exec_block(case.body, f)
                return

    def match_pattern(self, p, v, f):
        if isinstance(p, ast.MatchValue):
            return self.truth(self.py_eq(v, self.eval(p.value, f)))
        if isinstance(p, ast.MatchSingleton):
            return v is p.value
        if isinstance(p, ast.MatchOr):
            return any(self.match_pattern(q, v, f) for q in p.patterns)
        if isinstance(p, ast.MatchAs):
            if p.pattern is None:
                if p.name:
                    f.locals[p.name] = v
                return True
            ok = self.match_pattern(p.pattern, v, f)
            if ok and p.name:
                f.locals[p.name] = v
            return ok
        if isinstance(p, ast.MatchClass):
            if p.patterns or p.kwd_patterns:
                raise Unsupported("class pattern with sub-patterns")
            return self.isinstance_(v, self.eval(p.cls, f))
        raise Unsupported("match pattern %s" % type(p).__name__)

    # loops ---------------------------------------------------------------
    def loop_spec(self, s, f):
        if f.func is None:
            return None
        specs = self.loops.get(f.func.qualname)
        if not specs:
            self.uncontracted_loops_executed += 1
            return None
        head = ast.unparse(s).split("\n")[0]
        for sp in specs:
            if head.startswith(sp.anchor):
                return sp
        self.unrolled_in_contract_fn.add(f.func.qualname)
        return None

    def st_While(self, s, f):
        sp = self.loop_spec(s, f)
        if sp is not None:
            return self.loop_with_invariant(s, f, sp, kind="while")
        n = 0
        while True:
            if not self.truth(self.eval(s.test, f)):
                self.exec_block(s.orelse, f)
                return
            n += 1
            if n > self.unroll_cap:
                raise Unsupported("while loop at line %d needs an invariant (unrolled %d times)" % (s.lineno, n))
            try:
                self.exec_block(s.body, f)
            except _Break:
                return
            except _Continue:
                continue

    def st_For(self, s, f):
        sp = self.loop_spec(s, f)
        it = self.eval(s.iter, f)
        if sp is not None:
            return self.loop_with_invariant(s, f, sp, kind="for", iterable=it)
        seq = _LiveList(it) if isinstance(it, list) else self.iterate(it)     # CPython iterates a list by index, live
        n = 0
        for v in seq:
            n += 1
            if n > 4096:
                raise Unsupported("for loop at line %d too long to unroll" % s.lineno)
            self.assign(s.target, v, f)
            try:
                self.exec_block(s.body, f)
            except _Break:
                return
            except _Continue:
                continue
        self.exec_block(s.orelse, f)

    def iterate(self, it):
        """concrete iteration (complete unrolling). Symbolic trip counts are concretised when they
        have few feasible values; otherwise an invariant is required."""
        if isinstance(it, RangeVal):
            lo, hi, st = it.lo, it.hi, it.step
            if is_sym(st):
                st = core.CUR.concretize(st, what="range step")
            if st == 0:
                raise PyExc("ValueError", "range() arg 3 must not be zero")
            if is_sym(lo) or is_sym(hi):
                if st != 1 and st != 2:
                    raise Unsupported("symbolic range with step %r" % st)
                cnt = hi - lo if st == 1 else (hi - lo + 1) // 2
                cnt = core.CUR.concretize(core.smax(cnt, 0), what="range trip count", limit=self.unroll_cap)
                return [lo + k * st for k in range(cnt)]
            return list(range(lo, hi, st))
        if isinstance(it, (list, tuple)):
            return list(it)
        if isinstance(it, dict):
            return list(it.keys())
        if isinstance(it, (set, frozenset)):
            raise Unsupported("iteration over a set (order is hash-dependent)")
        if isinstance(it, SetVal):
            return it.iterate()
        if isinstance(it, DictView):
            return it.items()
        if isinstance(it, EnumerateVal):
            return [(i + it.start, v) for i, v in enumerate(self.iterate(it.it))]
        if isinstance(it, ZipVal):
            seqs = [self.iterate(x) for x in it.its]
            return list(zip(*seqs))
        if is_byteslike(it):
            b = to_bytes_val(it)
            n = b.length
            if is_sym(n):
                n = core.CUR.concretize(n, what="bytes iteration length", limit=self.unroll_cap)
            return [b.at(k) for k in range(n)]
        if isinstance(it, str):
            return list(it)
        if isinstance(it, ClassVal) and it.is_enum:
            return list(it.members.values())
        if isinstance(it, GeneratorVal):
            return list(it.values)
        if isinstance(it, Obj) and it.cls is not None and self.class_lookup(it.cls, "__iter__") is not UNBOUND:
            return self.iterate(self.call_func(self.class_lookup(it.cls, "__iter__"), [it], {}))
        if hasattr(it, "pyvc_iter"):
            return it.pyvc_iter(self)
        raise Unsupported("iteration over %s" % type(it).__name__)

    def loop_with_invariant(self, s, f, sp, kind, iterable=None):
        from .loops import run_loop
        return run_loop(self, s, f, sp, kind, iterable)

    # ------------------------------------------------------------------ assignment
    def assign(self, t, v, f):
        if isinstance(t, ast.Name):
            if t.id in getattr(f, "globals_decl", ()):
                f.module.globals[t.id] = v
            else:
                f.locals[t.id] = v
        elif isinstance(t, ast.Attribute):
            self.setattr_(self.eval(t.value, f), t.attr, v)
        elif isinstance(t, ast.Subscript):
            o = self.eval(t.value, f)
            self.store_subscript(o, self.eval_index(t.slice, f), v)
        elif isinstance(t, (ast.Tuple, ast.List)):
            vals = self.iterate(v) if not isinstance(v, (tuple, list)) else list(v)
            if len(vals) != len(t.elts):
                raise PyExc("ValueError", "cannot unpack")
            for a, b in zip(t.elts, vals):
                self.assign(a, b, f)
        else:
            raise Unsupported("assignment target %s" % type(t).__name__)

    def setattr_(self, o, name, v):
        if isinstance(o, Obj):
            o.attrs[name] = v
            return
        if isinstance(o, ModuleRef):
            o.module().globals[name] = v
            return
        raise Unsupported("attribute store on %s" % type(o).__name__)

    def store_subscript(self, o, k, v):
        return self.models["__setitem__"](self, o, k, v)

    # ------------------------------------------------------------------ expressions
    def eval(self, e, f):
        m = getattr(self, "ex_" + type(e).__name__, None)
        if m is None:
            raise Unsupported("expression %s" % type(e).__name__)
        try:
            return m(e, f)
        except PyExc as ex:
            if ex.lineno is None:
                ex.lineno = getattr(e, "lineno", None)
                ex.where = f.func.qualname if f.func else (f.module.name if f.module else "?")
            raise

    def ex_Constant(self, e, f):
        return e.value

    def load_name(self, n, f):
        if f.func is not None and n not in getattr(f, "globals_decl", ()):
            v = f.locals.get(n, None if n not in f.locals else UNBOUND)
            if n in f.locals:
                v = f.locals[n]
                if v is UNBOUND:
                    raise PyExc("UnboundLocalError", "cannot access local variable '%s'" % n)
                return v
            if n in _assigned_names(f.func.node):
                raise PyExc("UnboundLocalError", "cannot access local variable '%s' where it is not associated with a value" % n)
            enc = getattr(f.func, "enclosing", None)
            while enc is not None:
                if n in enc.locals:
                    v = enc.locals[n]
                    if v is UNBOUND:
                        raise PyExc("NameError", "cannot access free variable '%s' where it is not associated with a value in enclosing scope" % n)
                    return v
                if enc.func is not None and n in _assigned_names(enc.func.node):
                    raise PyExc("NameError", "cannot access free variable '%s' where it is not associated with a value in enclosing scope" % n)
                enc = getattr(enc.func, "enclosing", None) if enc.func is not None else None
        elif f.func is None and n in f.locals:
            return f.locals[n]
        g = f.module.globals if f.module else {}
        if n in g:
            v = g[n]
            if isinstance(v, _Unevaluated):
                raise Unsupported("module constant %s could not be evaluated: %s" % (v.name, v.why))
            return v
        b = self.models.get("builtins." + n)
        if b is not None:
            return b if not callable(b) or isinstance(b, (ExcClass, External)) else Builtin(n, b)
        if n in EXC_NAMES:
            return ExcClass(n)
        import builtins as _b
        if hasattr(_b, n):
            raise Unsupported("builtin %s is not modelled" % n)          # a real builtin: outside the subset, NOT a NameError of the code
        raise PyExc("NameError", "name '%s' is not defined" % n)

    def ex_Name(self, e, f):
        return self.load_name(e.id, f)

    def ex_Attribute(self, e, f):
        return self.getattr_(self.eval(e.value, f), e.attr)

    def getattr_(self, o, name):
        if isinstance(o, Obj):
            if name in o.attrs:
                return o.attrs[name]
            if o.cls is not None:
                v = self.class_lookup(o.cls, name)
                if v is not UNBOUND:
                    if isinstance(v, FuncVal):
                        decos = [ast.unparse(d) for d in v.node.decorator_list]
                        if "staticmethod" in decos:
                            return v                      # no implicit first argument
                        if "classmethod" in decos:
                            return BoundMethod(o.cls, v)
                        if "property" in decos:
                            return self.call_func(v, [o], {})
                        return BoundMethod(o, v)
                    return v
                if name == "__class__":
                    return o.cls
                for k in self.mro(o.cls):
                    for b in (k._bases or []):
                        if isinstance(b, External):
                            fn = self.models.get(b.dotted + "." + name)
                            if fn is not None:
                                return BoundModel(o, fn, b.dotted + "." + name)
            if o.kind is not None:
                fn = self.models.get(o.kind + "." + name)
                if fn is not None:
                    return BoundModel(o, fn, o.kind + "." + name)
                if o.kind.startswith("recorder:"):
                    def rec(interp, obj, *a, _n=name, **k):
                        obj.attrs["__calls__"].append((_n, a, k))
                        h = obj.attrs.get("__handler__")
                        return h(_n, a, k) if h else None
                    return BoundModel(o, rec, o.kind + "." + name)
            if o.cls is not None and self._init_sets(o.cls, name):
                # the REAL constructor gives every instance this attribute; the object at hand was put together by a contract
                # that left it out: the contract's state description is incomplete - no verdict about the code
                raise Unsupported("contract-built %s object lacks attribute '%s', which %s.__init__ always sets" % (o.cls.name, name, o.cls.name))
            raise PyExc("AttributeError", "'%s' object has no attribute '%s'" % (o.cls.name if o.cls else o.kind, name))
        if isinstance(o, ModuleRef):
            g = o.module().globals
            if name in g:
                return g[name]
            raise PyExc("AttributeError", "module has no attribute " + name)
        if isinstance(o, External):
            cst = self.models.get(o.dotted + "." + name)
            if cst is not None and not callable(cst):
                return cst
            return External(o.dotted + "." + name)
        if isinstance(o, ClassVal):
            v = self.class_lookup(o, name)
            if v is UNBOUND:
                if name == "__name__":
                    return o.name
                raise PyExc("AttributeError", "type object '%s' has no attribute '%s'" % (o.name, name))
            if isinstance(v, FuncVal) and "classmethod" in [ast.unparse(d) for d in v.node.decorator_list]:
                return BoundMethod(o, v)
            return v
        if isinstance(o, EnumMember):
            if name == "value":
                return o.value
            if name == "name":
                return o.name
            if name in o.cls.members:      # CPython < 3.12 semantics differ, 3.12: members are reachable from members
                return o.cls.members[name]
        if isinstance(o, SuperProxy):
            for k in self.mro(o.cls)[1:]:
                if name in k.methods:
                    return BoundMethod(o.obj, k.methods[name])
            raise PyExc("AttributeError", "super has no " + name)
        from .models import method_of
        return method_of(self, o, name)

    def ex_Call(self, e, f):
        # dropped effects: logging.* and print - arguments ARE evaluated
        fn_node = e.func
        if isinstance(fn_node, ast.Name) and fn_node.id == "super" and not e.args:
            slf = f.locals.get("self")
            return SuperProxy(slf, f.func.cls)
        fn = self.eval(fn_node, f)
        args = []
        for a in e.args:
            if isinstance(a, ast.Starred):
                args.extend(self.iterate(self.eval(a.value, f)))
            else:
                args.append(self.eval(a, f))
        kwargs = {}
        for k in e.keywords:
            if k.arg is None:
                raise Unsupported("**kwargs call")
            kwargs[k.arg] = self.eval(k.value, f)
        return self.call(fn, args, kwargs, lineno=e.lineno)

    def ex_Tuple(self, e, f):
        return tuple(self.eval(x, f) for x in e.elts)

    def ex_List(self, e, f):
        return [self.eval(x, f) for x in e.elts]

    def ex_Set(self, e, f):
        s = SetVal()
        for x in e.elts:
            s.add(self, self.eval(x, f))
        return s

    def ex_Dict(self, e, f):
        d = {}
        for k, v in zip(e.keys, e.values):
            if k is None:
                raise Unsupported("dict unpacking")
            kv = self.eval(k, f)
            d[self.dict_key(kv)] = self.eval(v, f)
        return d

    def dict_key(self, k):
        if isinstance(k, (SymInt, SymBool)):
            return core.CUR.concretize(k, what="dict key")
        if isinstance(k, SymBytes):
            c = k.concrete() if isinstance(k, BList) else None
            if c is None:
                raise Unsupported("symbolic bytes as dict key")
            return c
        if isinstance(k, tuple):
            return tuple(self.dict_key(x) for x in k)
        return k

    def ex_JoinedStr(self, e, f):
        parts = []
        for v in e.values:
            if isinstance(v, ast.Constant):
                parts.append(v.value)
            else:
                val = self.eval(v.value, f)
                parts.append(val if isinstance(val, str) else OpaqueStr(val))
        if all(isinstance(p, str) for p in parts):
            return "".join(parts)
        return StrPieces(parts)

    def ex_FormattedValue(self, e, f):
        return self.eval(e.value, f)

    def ex_IfExp(self, e, f):
        return self.eval(e.body, f) if self.truth(self.eval(e.test, f)) else self.eval(e.orelse, f)

    def ex_BoolOp(self, e, f):
        isand = isinstance(e.op, ast.And)
        v = None
        for i, x in enumerate(e.values):
            v = self.eval(x, f)
            if i == len(e.values) - 1:
                return v
            t = self.truth(v)
            if isand and not t:
                return v
            if not isand and t:
                return v
        return v

    def ex_UnaryOp(self, e, f):
        v = self.eval(e.operand, f)
        if isinstance(e.op, ast.Not):
            t = self.truth_value(v)
            return bnot(t)
        if isinstance(e.op, ast.USub):
            return -v
        if isinstance(e.op, ast.UAdd):
            return v
        if isinstance(e.op, ast.Invert):
            if isinstance(v, (int, SymInt)):
                return ~v
            raise PyExc("TypeError", "bad operand type for unary ~")
        raise Unsupported("unary op")

    def ex_BinOp(self, e, f):
        return self.binop(e.op, self.eval(e.left, f), self.eval(e.right, f))

    def binop(self, op, a, b, inplace=False):
        from .models import binop_model
        return binop_model(self, op, a, b, inplace)

    def ex_Compare(self, e, f):
        left = self.eval(e.left, f)
        res = True
        for i, (op, rn) in enumerate(zip(e.ops, e.comparators)):
            right = self.eval(rn, f)
            r = self.compare(op, left, right)
            if i == len(e.ops) - 1 and res is True:
                return r
            if i == len(e.ops) - 1:
                return core.band(res, self.truth_value(r))
            # not last: short circuit
            tv = self.truth_value(r)
            if isinstance(tv, bool):
                if not tv:
                    return False
            else:
                if _pure(e.comparators[i + 1:]):
                    res = core.band(res, tv)
                elif not self.truth(tv):
                    return False
            left = right
        return res

    def compare(self, op, a, b):
        if isinstance(op, ast.Eq):
            return self.py_eq(a, b)
        if isinstance(op, ast.NotEq):
            return bnot(self.py_eq(a, b))
        if isinstance(op, ast.Is):
            return self.py_is(a, b)
        if isinstance(op, ast.IsNot):
            return bnot(self.py_is(a, b))
        if isinstance(op, ast.In):
            return self.py_in(a, b)
        if isinstance(op, ast.NotIn):
            return bnot(self.py_in(a, b))
        sym = {ast.Lt: "<", ast.LtE: "<=", ast.Gt: ">", ast.GtE: ">="}[type(op)]
        if isinstance(a, (int, SymInt, SymBool, float, SymFloat)) and isinstance(b, (int, SymInt, SymBool, float, SymFloat)):
            return core.cmp_num(sym, a, b)
        if isinstance(a, str) and isinstance(b, str):
            return {"<": a < b, "<=": a <= b, ">": a > b, ">=": a >= b}[sym]
        if a is None or b is None:
            raise PyExc("TypeError", "'%s' not supported between instances of NoneType and other" % sym)
        raise Unsupported("ordering comparison of %s and %s" % (type(a).__name__, type(b).__name__))

    def py_is(self, a, b):
        if a is None or b is None:
            return a is b
        if isinstance(a, bool) and isinstance(b, bool):
            return a is b
        if isinstance(a, (Obj, EnumMember, ClassVal, list, dict, ByteArr)) or isinstance(b, (Obj, EnumMember, ClassVal, list, dict, ByteArr)):
            return a is b
        if isinstance(a, (SymBool,)) or isinstance(b, SymBool):
            if isinstance(a, (bool, SymBool)) and isinstance(b, (bool, SymBool)):
                return mk_bool(TB(a) == TB(b))
            return False
        raise Unsupported("'is' on %s, %s" % (type(a).__name__, type(b).__name__))

    def py_eq(self, a, b):
        from .models import eq_model
        return eq_model(self, a, b)

    def py_in(self, a, b):
        from .models import in_model
        return in_model(self, a, b)

    def ex_Subscript(self, e, f):
        o = self.eval(e.value, f)
        k = self.eval_index(e.slice, f)
        return self.subscript(o, k)

    def eval_index(self, sl, f):
        if isinstance(sl, ast.Slice):
            return slice(self.eval(sl.lower, f) if sl.lower is not None else None,
                         self.eval(sl.upper, f) if sl.upper is not None else None,
                         self.eval(sl.step, f) if sl.step is not None else None)
        return self.eval(sl, f)

    def subscript(self, o, k):
        return self.models["__getitem__"](self, o, k)

    def ex_Yield(self, e, f):
        if not hasattr(f, "yields"):
            raise Unsupported("yield outside a generator frame")
        f.yields.append(self.eval(e.value, f) if e.value is not None else None)
        if len(f.yields) > 4096:
            raise Unsupported("generator yields too many values to unroll")
        return None

    def ex_Lambda(self, e, f):
        return LambdaVal(e, f)

    def ex_ListComp(self, e, f):
        if len(e.generators) != 1 or e.generators[0].is_async:
            raise Unsupported("comprehension with several generators")
        g = e.generators[0]
        out = []
        sub = Frame(f.func, dict(f.locals))
        sub.module = f.module
        for v in self.iterate(self.eval(g.iter, f)):
            self.assign(g.target, v, sub)
            if all(self.truth(self.eval(c, sub)) for c in g.ifs):
                out.append(self.eval(e.elt, sub))
        return out

    def ex_GeneratorExp(self, e, f):
        return self.ex_ListComp(e, f)

    def ex_DictComp(self, e, f):
        if len(e.generators) != 1 or e.generators[0].is_async:
            raise Unsupported("comprehension with several generators")
        g = e.generators[0]
        out = {}
        sub = Frame(f.func, dict(f.locals))
        sub.module = f.module
        for v in self.iterate(self.eval(g.iter, f)):
            self.assign(g.target, v, sub)
            if all(self.truth(self.eval(c, sub)) for c in g.ifs):
                k = self.eval(e.key, sub)
                out[self.dict_key(k)] = self.eval(e.value, sub)
        return out

    def ex_SetComp(self, e, f):
        s = SetVal()
        for v in self.ex_ListComp(ast.ListComp(elt=e.elt, generators=e.generators), f):
            s.add(self, v)
        return s

    def ex_Starred(self, e, f):
        raise Unsupported("starred expression")

    # ------------------------------------------------------------------ truth
    def truth_value(self, v):
        """bool | SymBool without forking"""
        if isinstance(v, (bool, SymBool)):
            return v
        if v is None:
            return False
        if isinstance(v, int):
            return v != 0
        if isinstance(v, SymInt):
            return mk_bool(v.t != 0)
        if isinstance(v, float):
            return v != 0.0
        if isinstance(v, (str, list, tuple, dict, bytes, bytearray)):
            return len(v) != 0
        if is_byteslike(v):
            n = to_bytes_val(v).length
            return n != 0 if isinstance(n, int) else mk_bool(n.t != 0)
        if isinstance(v, SetVal):
            return v.truth()
        if isinstance(v, (Obj, ClassVal, FuncVal, EnumMember, External, Builtin, BoundMethod, ModuleRef)):
            if isinstance(v, Obj) and v.cls is not None:
                ln = self.class_lookup(v.cls, "__len__")
                if ln is not UNBOUND:
                    raise Unsupported("truthiness via __len__")
            return True
        if hasattr(v, "pyvc_truth"):
            return v.pyvc_truth(self)
        if isinstance(v, (StrPieces, OpaqueStr)):
            raise Unsupported("truthiness of symbolic string")
        raise Unsupported("truthiness of %s" % type(v).__name__)

    def truth(self, v):
        t = self.truth_value(v)
        if isinstance(t, bool):
            return t
        return core.CUR.fork(t.t)


class _ClassScope(dict):
    """name lookup inside a class body: names defined so far in the class, then the enclosing scope"""

    def __init__(self, cls, outer):
        dict.__init__(self)
        self.cls = cls
        self.outer = outer

    def __contains__(self, k):
        return k in self.cls.attrs or k in self.cls.methods or k in self.outer

    def __getitem__(self, k):
        if k in self.cls.attrs:
            return self.cls.attrs[k]
        if k in self.cls.methods:
            return self.cls.methods[k]
        return self.outer[k]

    def get(self, k, d=None):
        return self[k] if k in self else d


class GeneratorVal:
    def __init__(self, values):
        self.values = values


class LazyIter:
    """iter(obj) that is created but never consumed by the code under contract"""

    def __init__(self, obj):
        self.obj = obj


class _LiveList:
    """list iteration as CPython does it: by index into the live list (mutation during iteration is visible)"""

    def __init__(self, lst):
        self.lst = lst

    def __iter__(self):
        i = 0
        while i < len(self.lst):
            yield self.lst[i]
            i += 1


class ModuleRef:
    def __init__(self, interp, name):
        self.interp = interp
        self.name = name

    def module(self):
        return self.interp.module(self.name)


class DataclassField:
    """dataclasses.field(default=..., default_factory=...) / a plain default / no default"""

    def __init__(self, has_default, default, factory):
        self.has_default, self.default, self.factory = has_default, default, factory


class _Unevaluated:
    def __init__(self, name, why):
        self.name = name
        self.why = why


class ExcClass:
    def __init__(self, name):
        self.name = name

    def __repr__(self):
        return "<exc %s>" % self.name


class ExcValue:
    def __init__(self, cls, msg=""):
        self.cls = cls
        self.msg = msg


class RangeVal:
    def __init__(self, lo, hi, step):
        self.lo, self.hi, self.step = lo, hi, step


class EnumerateVal:
    def __init__(self, it, start=0):
        self.it = it
        self.start = start


class ZipVal:
    def __init__(self, its):
        self.its = its


class DictView:
    def __init__(self, d, kind):
        self.d = d
        self.kind = kind

    def items(self):
        if self.kind == "keys":
            return list(self.d.keys())
        if self.kind == "values":
            return list(self.d.values())
        return list(self.d.items())


class LambdaVal:
    def __init__(self, node, frame):
        self.node = node
        self.frame = frame


class OpaqueStr:
    def __init__(self, of):
        self.of = of


class StrPieces:
    """string built from literal pieces and formatted symbolic values (value unused or opaque)"""

    def __init__(self, parts):
        self.parts = parts


class BoundModel:
    def __init__(self, obj, fn, name):
        self.obj = obj
        self.fn = fn
        self.name = name
        self._pyvc_model = True

    def __call__(self, interp, *a, **k):
        return self.fn(interp, self.obj, *a, **k)


class SetVal:
    """a set whose members may be symbolic byte strings: membership is an or-chain of equalities;
    iteration order is NOT defined (hash order) -> iterate() refuses unless singleton/empty"""

    def __init__(self, items=None):
        self.items = list(items or [])

    def add(self, interp, v):
        if isinstance(v, (ByteArr, list, dict, SetVal)):
            raise PyExc("TypeError", "unhashable type: '%s'" % ("bytearray" if isinstance(v, ByteArr) else type(v).__name__))
        for x in self.items:
            r = interp.py_eq(x, v)
            if r is True:
                return
            if r is not False:
                if interp.truth(r):
                    return
        self.items.append(v)

    def contains(self, interp, v):
        r = False
        for x in self.items:
            r = core.bor(r, interp.truth_value(interp.py_eq(x, v)))
        return r

    def truth(self):
        return len(self.items) != 0

    def iterate(self):
        if len(self.items) <= 1:
            return list(self.items)
        # the iteration order of a set of str/bytes depends on PYTHONHASHSEED: every order is possible
        import itertools
        if len(self.items) > 4:
            raise Unsupported("iteration over a set with more than 4 members (order is hash-dependent)")
        perms = list(itertools.permutations(self.items))
        k = core.CUR.choose(len(perms))
        core.CUR.declare("set_iteration_order", "choice", k)
        return list(perms[k])

    def union(self, o, interp=None):
        s = SetVal(self.items)
        others = o.items if isinstance(o, SetVal) else list(interp.iterate(o)) if interp is not None else list(o)
        if interp is not None:
            for x in others:
                s.add(interp, x)
        else:
            s.items = self.items + [x for x in others if not any(x is y for y in self.items)]
        return s


_ASSIGNED_CACHE = {}


def _assigned_names(fn):
    r = _ASSIGNED_CACHE.get(id(fn))
    if r is not None:
        return r
    names = set()

    class V(ast.NodeVisitor):
        def visit_Name(self, n):
            if isinstance(n.ctx, (ast.Store, ast.Del)):
                names.add(n.id)

        def visit_FunctionDef(self, n):
            if n is fn:
                self.generic_visit(n)
            else:
                names.add(n.name)        # a nested def binds its name in the enclosing scope

        def visit_Lambda(self, n):
            pass

        def visit_ExceptHandler(self, n):
            if n.name:
                names.add(n.name)
            self.generic_visit(n)

        def visit_MatchAs(self, n):
            if n.name:
                names.add(n.name)
            self.generic_visit(n)

        def visit_ListComp(self, n):
            pass

        def visit_GeneratorExp(self, n):
            pass

    V().visit(fn)
    for a in fn.args.args + fn.args.kwonlyargs:
        names.add(a.arg)
    _ASSIGNED_CACHE[id(fn)] = names
    return names


def _is_generator(fn):
    for n in ast.walk(fn):
        if isinstance(n, (ast.Yield, ast.YieldFrom)):
            return True
    return False


def _pure(nodes):
    return all(isinstance(n, (ast.Name, ast.Constant)) for n in nodes)
