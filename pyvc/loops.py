"""loops cut at sidecar invariants (the unbounded route): init / step / variant obligations.

A loop with a LoopSpec is executed as
   ensure inv (init);  havoc everything the body may assign;  assume inv;
   choice: STEP  -> assume guard; body; ensure inv (step); ensure variant decreased; path ends
           EXIT  -> assume not guard; continue after the loop
`break` leaves the loop with the state at the break; `return` inside the body returns from the function.
For `for` loops a hidden counter `it` (completed iterations) is introduced; env.it is visible to the
invariant, and for range loops the target variable is bound to its head value lo + it*step.
"""
import ast

from . import core
from .core import PathAbort, Unsupported, PyExc, SymInt, SymBool, SymBytes, ByteArr, BBase, T, TB, is_sym, to_bytes_val, is_byteslike
from .interp import Env, UNBOUND, RangeVal, EnumerateVal, _Break, _Continue, Obj


class OpaqueList:
    """a list about which nothing is known after a havoc; only growth is allowed"""

    def __init__(self, name):
        self.name = name

    def pyvc_getattr(self, I, name):
        from .interp import Builtin
        if name in ("append", "extend"):
            return Builtin("list." + name, lambda I, x: None)
        raise Unsupported("read of havocked list %s (.%s): give the loop a list abstraction" % (self.name, name))


class OpaqueDict:
    """a dict about which nothing is known after a havoc: stores are accepted, lookups return an unknown value"""

    def __init__(self, name):
        self.name = name

    def pyvc_setitem(self, I, k, v):
        pass

    def _unknown(self):
        E = core.CUR
        if E.choose(2) == 0:
            return None
        n = E.fresh_int(self.name + ".vlen")
        E.add(n >= 0)
        return BBase(E.fresh_name(self.name + ".v"), SymInt(n))

    def pyvc_getitem(self, I, k):
        v = self._unknown()
        if v is None:
            raise PyExc("KeyError", "unknown key")
        return v

    def pyvc_contains(self, I, k):
        return core.CUR.choose(2) == 0

    def pyvc_getattr(self, I, name):
        from .interp import Builtin
        if name == "get":
            return Builtin("dict.get", lambda I, k, d=None: (lambda v: d if v is None else v)(self._unknown()))
        if name == "keys":
            return Builtin("dict.keys", lambda I: self)
        raise Unsupported("method %s on a havocked dict" % name)

    def pyvc_havoc(self, name):
        return self


def _targets(body_nodes, extra_targets=()):
    names, attrs, mutated = set(), set(), set()

    def tgt(t):
        if isinstance(t, ast.Name):
            names.add(t.id)
        elif isinstance(t, ast.Attribute) and isinstance(t.value, ast.Name):
            attrs.add((t.value.id, t.attr))
        elif isinstance(t, ast.Subscript):
            b = t.value
            if isinstance(b, ast.Name):
                mutated.add((b.id, None))
            elif isinstance(b, ast.Attribute) and isinstance(b.value, ast.Name):
                mutated.add((b.value.id, b.attr))
            else:
                raise Unsupported("loop body stores through a complex subscript")
        elif isinstance(t, (ast.Tuple, ast.List)):
            for e in t.elts:
                tgt(e)
        elif isinstance(t, ast.Attribute):
            raise Unsupported("loop body stores to a nested attribute")
        else:
            raise Unsupported("loop body store target")

    for t in extra_targets:
        tgt(t)
    for st in body_nodes:
        for n in ast.walk(st):
            if isinstance(n, ast.Assign):
                for t in n.targets:
                    tgt(t)
            elif isinstance(n, (ast.AugAssign, ast.AnnAssign)):
                tgt(n.target)
            elif isinstance(n, ast.For):
                tgt(n.target)
            elif isinstance(n, ast.ExceptHandler) and n.name:
                names.add(n.name)
            elif isinstance(n, ast.Call) and isinstance(n.func, ast.Attribute) and n.func.attr in (
                    "append", "extend", "add", "update", "remove", "pop", "clear", "insert", "sort", "reverse"):
                b = n.func.value
                if isinstance(b, ast.Subscript):
                    b = b.value            # d[k].remove(x): an element of the container d changes - d is what gets havocked
                if isinstance(b, ast.Name):
                    mutated.add((b.id, None))
                elif isinstance(b, ast.Attribute) and isinstance(b.value, ast.Name):
                    mutated.add((b.value.id, b.attr))
                else:
                    raise Unsupported("loop body mutates a container through a complex expression")
    return names, attrs, mutated


def _add_writes_of_self_calls(I, body_nodes, f, attrs, mutated):
    """a loop body that calls self.m(...) also changes whatever m (and the methods m calls on self) stores through self: those
    attributes are havocked like the ones the body assigns itself.  (Without this, extracting a helper method from a loop body would keep
    the loop's state at its entry value - an unsound proof and, in practice, a false alarm.)"""
    slf = f.locals.get("self", UNBOUND)
    cls = getattr(slf, "cls", None)
    if cls is None:
        return
    seen, todo = set(), []
    for st in body_nodes:
        for n in ast.walk(st):
            if isinstance(n, ast.Call) and isinstance(n.func, ast.Attribute) and isinstance(n.func.value, ast.Name) and n.func.value.id == "self":
                todo.append(n.func.attr)
    while todo:
        m = todo.pop()
        if m in seen:
            continue
        seen.add(m)
        try:
            fv = I.class_lookup(cls, m)
        except Exception:
            continue
        node = getattr(fv, "node", None)
        if not isinstance(node, ast.FunctionDef) or not node.args.args:
            continue
        me = node.args.args[0].arg
        if any(isinstance(d, ast.Name) and d.id in ("staticmethod", "classmethod") for d in node.decorator_list):
            continue
        if getattr(fv, "qualname", None) in I.summaries and getattr(fv, "qualname", None) not in I.inline:
            continue            # called through its contract: the harness that gives the contract havocs what it changes
        n2, a2, m2 = _targets(node.body)
        for base, attr in a2:
            if base == me:
                attrs.add(("self", attr))
        for base, attr in m2:
            if base == me and attr is not None:
                mutated.add(("self", attr))
        for n in ast.walk(node):
            if isinstance(n, ast.Call) and isinstance(n.func, ast.Attribute) and isinstance(n.func.value, ast.Name) and n.func.value.id == me:
                todo.append(n.func.attr)


def _havoc_value(cur, name, spec):
    E = core.CUR
    h = spec.havoc.get(name)
    if h is not None:
        return h(cur)
    if cur is UNBOUND:
        return UNBOUND
    if isinstance(cur, (bool, SymBool)):
        return SymBool(core.z3.Bool(E.fresh_name(name)))
    if isinstance(cur, (int, SymInt)):
        return SymInt(E.fresh_int(name))
    if isinstance(cur, ByteArr):
        n = E.fresh_int(name + ".len")
        E.add(n >= 0)
        cur.val = BBase(E.fresh_name(name), SymInt(n))
        return cur
    if isinstance(cur, (SymBytes, bytes)):
        n = E.fresh_int(name + ".len")
        E.add(n >= 0)
        return BBase(E.fresh_name(name), SymInt(n))
    if isinstance(cur, list):
        return OpaqueList(name)
    if isinstance(cur, dict):
        return OpaqueDict(name)
    if isinstance(cur, OpaqueList):
        return cur
    if isinstance(cur, core.FloatExpr):
        # an arbitrary float: an uninterpreted expression equal to nothing but itself
        return core.FloatExpr("havocked", (SymInt(E.fresh_int(name)),))
    if cur is None or isinstance(cur, (Obj, tuple, str, float)):
        # assigned in the body with an unknown value: only a spec'ed havoc can give it a shape
        return Havocked(name)
    if hasattr(cur, "pyvc_havoc"):
        return cur.pyvc_havoc(name)
    raise Unsupported("cannot havoc %s of type %s; give the loop spec a havoc rule" % (name, type(cur).__name__))


class Havocked:
    """value of a variable assigned in a loop body whose shape is unknown at the loop head"""

    def __init__(self, name):
        self.name = name

    def pyvc_getattr(self, I, name):
        raise Unsupported("use of loop-havocked value %s" % self.name)


def run_loop(I, s, f, sp, kind, iterable):
    E = core.CUR
    z3 = core.z3
    fn = f.func.qualname
    label = "%s.loop[%s]" % (fn, sp.label)
    extra = {}
    # ---- iteration model for `for`
    it_name = None
    if kind == "for":
        it = iterable
        start_enum = None
        if isinstance(it, EnumerateVal):
            start_enum = it.start
            it = it.it
        if isinstance(it, RangeVal):
            lo, hi, st = it.lo, it.hi, it.step
            if is_sym(st):
                st = E.concretize(st, what="range step")
            if st <= 0:
                raise Unsupported("range with non-positive step under an invariant")
            trips = core.smax(0, (hi - lo + (st - 1)) // st) if st != 1 else core.smax(0, hi - lo)
            elem = lambda k: lo + k * st
        elif is_byteslike(it):
            bv = to_bytes_val(it)
            trips = bv.length
            elem = lambda k: bv.at(k)
        elif hasattr(it, "pyvc_len"):
            trips = it.pyvc_len(I)
            elem = lambda k: it.pyvc_getitem(I, k)
        elif isinstance(it, (list, tuple)):
            seq = list(it)
            trips = len(seq)

            def elem(k):
                if isinstance(k, int):
                    return seq[k]
                return seq[E.concretize(k, what="list index under invariant", limit=4096)]
        else:
            raise Unsupported("for-loop with invariant over %s" % type(it).__name__)
        if start_enum is not None:
            e0 = elem
            elem = lambda k: (k + start_enum, e0(k))
        it_var = [0]  # number of completed iterations (int | SymInt)
        extra["it"] = 0
        extra["trips"] = trips

    names, attrs, mutated = _targets(s.body, [s.target] if kind == "for" else [])
    if sp.callee_frame != "harness":
        before = (set(attrs), set(mutated))
        _add_writes_of_self_calls(I, s.body, f, attrs, mutated)
        if (set(attrs), set(mutated)) != before:
            # the contract was written for a body that stored these attributes itself (or not at all): with the cut widened, an invariant
            # that no longer goes through is a contract to be rewritten, not a counterexample
            I.loop_cuts_widened.add("%s [%s]: %s" % (fn.split(".")[-1], sp.anchor, ", ".join(sorted("self." + a for b, a in (attrs - before[0]) | (mutated - before[1]) if a))))

    def bind_head():
        if kind == "for":
            extra["it"] = it_var[0]
            if isinstance(iterable, RangeVal) and isinstance(s.target, ast.Name):
                f.locals[s.target.id] = elem(it_var[0])

    def inv_now():
        bind_head()
        return sp.invariant(Env(f, I, extra))

    for gname in sp.havoc:
        if gname.startswith("ghost:") and gname not in f.locals:
            f.locals[gname] = 0             # ghost counters start at 0
    # 1. invariant holds on entry
    E.ensure(label + ".inv.init", inv_now(), kind="inv.init", lineno=s.lineno)

    # 2. havoc
    for n in sorted(names):
        if kind == "for" and isinstance(s.target, ast.Name) and n == s.target.id:
            continue
        if kind == "for" and isinstance(s.target, ast.Tuple) and n in [e.id for e in s.target.elts if isinstance(e, ast.Name)]:
            continue
        cur = f.locals.get(n, UNBOUND)
        f.locals[n] = _havoc_value(cur, n, sp)
    for base, attr in sorted(attrs):
        o = f.locals.get(base, UNBOUND)
        if isinstance(o, Obj):
            cur = o.attrs.get(attr, UNBOUND)
            o.attrs[attr] = _havoc_value(cur, base + "." + attr, sp)
            if o.attrs[attr] is UNBOUND:
                del o.attrs[attr]
        elif o is not UNBOUND:
            raise Unsupported("loop stores attribute of non-object %s" % base)
    for base, attr in sorted(mutated, key=lambda x: (x[0], x[1] or "")):
        o = f.locals.get(base, UNBOUND)
        if o is UNBOUND:
            continue
        if attr is None:
            f.locals[base] = _havoc_value(o, base, sp)
        elif isinstance(o, Obj):
            cur = o.attrs.get(attr, UNBOUND)
            if cur is not UNBOUND:
                o.attrs[attr] = _havoc_value(cur, base + "." + attr, sp)
        else:
            raise Unsupported("loop mutates attribute container of non-object %s" % base)
    for gname, rule in sp.havoc.items():
        if gname.startswith("ghost:"):          # ghost locals: always re-chosen at the loop head
            f.locals[gname] = rule(f.locals.get(gname, UNBOUND))
    if kind == "for":
        k = E.fresh_int("it")
        E.add(z3.And(k >= 0, k <= T(trips)))
        it_var[0] = SymInt(k)
    if sp.ghost_step is not None:
        bind_head()
        sp.ghost_step("havoc", Env(f, I, extra))

    # 3. assume the invariant
    inv = inv_now()
    E.assume(inv)

    step = E.choose(2) == 0
    if step:
        # guard holds
        if kind == "while":
            if not I.truth(I.eval(s.test, f)):
                raise PathAbort("step path: guard false")
            old_variant = sp.decreases(Env(f, I, extra)) if sp.decreases else None
        else:
            E.assume(core.cmp_num("<", it_var[0], trips))
            I.assign(s.target, elem(it_var[0]), f)
            old_variant = None
        E.cover(label + ".step")
        try:
            I.exec_block(s.body, f)
        except _Break:
            return  # continue after the loop with the state at the break
        except _Continue:
            pass
        if kind == "for":
            it_var[0] = it_var[0] + 1
        if sp.ghost_step is not None:
            bind_head()
            sp.ghost_step("step", Env(f, I, extra))
        E.ensure(label + ".inv.step", inv_now(), kind="inv.step", lineno=s.lineno)
        if old_variant is not None:
            new_variant = sp.decreases(Env(f, I, extra))
            E.ensure(label + ".variant", core.band(core.cmp_num("<", new_variant, old_variant),
                                                   core.cmp_num(">=", old_variant, 0)),
                     kind="variant", lineno=s.lineno)
        raise PathAbort("loop step path ends")
    # exit path
    if kind == "while":
        if I.truth(I.eval(s.test, f)):
            raise PathAbort("exit path: guard true")
    else:
        E.assume(core.cmp_num(">=", it_var[0], trips))
        # Python leaves the target bound to the last element (or untouched if no iteration ran):
        # over-approximated by an unconstrained value of the same kind
        for t in ([s.target] if isinstance(s.target, ast.Name) else getattr(s.target, "elts", [])):
            if isinstance(t, ast.Name):
                cur = f.locals.get(t.id, UNBOUND)
                f.locals[t.id] = SymInt(E.fresh_int(t.id)) if isinstance(cur, (int, SymInt)) or cur is UNBOUND else cur
    E.cover(label + ".exit")
    if sp.ghost_step is not None:
        bind_head()
        sp.ghost_step("exit", Env(f, I, extra))
    I.exec_block(s.orelse, f)
