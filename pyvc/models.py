"""models of builtins and of the library calls that are never verified (assumed contracts).

Every external that a run actually used is reported in the evidence (interp.used_externals)."""
import ast

from . import core
from .core import (PyExc, Unsupported, SymInt, SymBool, SymBytes, ByteArr, SymFloat, BList, BBase, DivResult,
                   is_sym, T, TB, mk_bool, mk_int, bnot, to_bytes_val, is_byteslike, bcat, bslice, bytes_eq,
                   const, be_int, int_to_bytes)
from .frontend import FuncVal, ClassVal, EnumMember, External


def install(I):
    from .interp import ExcClass
    M = I.models
    M["__getitem__"] = getitem
    M["__setitem__"] = setitem
    M["__delitem__"] = delitem
    M["dataclasses.field"] = _dc_field
    # constants of dpkt (values from dpkt 1.9.8's source; RFC 793 flag bits, IANA protocol numbers, IEEE ethertypes)
    for k, v in {"tcp.TH_FIN": 1, "tcp.TH_SYN": 2, "tcp.TH_RST": 4, "tcp.TH_PUSH": 8, "tcp.TH_ACK": 16, "tcp.TH_URG": 32, "tcp.TH_ECE": 64, "tcp.TH_CWR": 128,
                 "ip.IP_PROTO_TCP": 6, "ip.IP_PROTO_UDP": 17, "ip.IP_PROTO_ICMP": 1, "ip.IP_PROTO_IP6": 41, "ip.IP_PROTO_ICMP6": 58,
                 "ethernet.ETH_TYPE_IP": 0x0800, "ethernet.ETH_TYPE_IP6": 0x86DD, "ethernet.ETH_TYPE_ARP": 0x0806, "ethernet.ETH_TYPE_8021Q": 0x8100}.items():
        M["dpkt." + k] = v
    b = "builtins."
    M[b + "len"] = m_len
    M[b + "range"] = m_range
    M[b + "slice"] = lambda I, *a: slice(*a)          # subscripting with it goes through the same getitem as x[a:b]
    M[b + "int"] = IntType()
    M[b + "bool"] = m_bool
    M[b + "bytes"] = BytesType()
    M[b + "bytearray"] = m_bytearray
    M[b + "enumerate"] = m_enumerate
    M[b + "zip"] = m_zip
    M[b + "isinstance"] = lambda I, v, c: I.isinstance_(v, c)
    M[b + "print"] = lambda I, *a, **k: None
    M[b + "list"] = m_list
    M[b + "tuple"] = lambda I, x=(): tuple(I.iterate(x))
    M[b + "dict"] = m_dict
    M[b + "set"] = m_set
    M[b + "str"] = m_str
    M[b + "min"] = m_min
    M[b + "max"] = m_max
    M[b + "abs"] = lambda I, x: core.ite(x < 0, -x, x)
    M[b + "type"] = m_type
    M[b + "hex"] = lambda I, x: _opaque_str(x)
    M[b + "sorted"] = m_sorted
    M[b + "reversed"] = lambda I, x: list(reversed(I.iterate(x)))
    M[b + "any"] = lambda I, x: _any(I, x)
    M[b + "all"] = lambda I, x: _all(I, x)
    M[b + "sum"] = lambda I, x, start=0: _sum(I, x, start)
    M[b + "float"] = lambda I, x=0: _to_float(x)
    M[b + "setattr"] = lambda I, o, n, v: I.setattr_(o, n, v)
    M[b + "getattr"] = m_getattr
    M[b + "hasattr"] = m_hasattr
    M[b + "open"] = m_open
    M[b + "iter"] = lambda I, x: __import__("pyvc.interp", fromlist=["LazyIter"]).LazyIter(x)
    M[b + "exit"] = m_exit
    M[b + "quit"] = m_exit
    M[b + "Exception"] = ExcClass("Exception")
    M[b + "None"] = None
    M[b + "object"] = External("builtins.object")
    M[b + "NotImplemented"] = External("builtins.NotImplemented")
    M["sys.exit"] = m_exit
    M["ipaddress.IPv4Address"] = lambda I, a: _ipaddr(I, a, 4)
    M["ipaddress.IPv6Address"] = lambda I, a: _ipaddr(I, a, 16)
    M["ipaddress.addr.__str__"] = lambda I, o: IpStr(o.attrs["packed"], o.attrs["version"])
    M["typing.cast"] = lambda I, t, v: v
    M["struct.unpack_from"] = m_unpack_from
    def m_round(I, x, ndigits=None):
        if isinstance(x, (int,)) and not isinstance(x, bool) and ndigits is None:
            return x
        if isinstance(x, float) and not is_sym(ndigits):
            return round(x, ndigits) if ndigits is not None else round(x)
        return core.FloatExpr("round", (x, ndigits if ndigits is not None else -1))      # uninterpreted: equal only to itself

    M["builtins.round"] = m_round
    M["os.path.getsize"] = lambda I, p: _stat_size(I, p)
    M["types.MappingProxyType"] = lambda I, d: d          # read-only VIEW of the same mapping (writes through it are not modelled)
    M["copy.deepcopy"] = m_deepcopy
    M["copy.copy"] = m_deepcopy
    M["math.floor"] = m_floor
    M["math.ceil"] = m_ceil
    for lvl in ("debug", "info", "warning", "error", "critical", "exception", "log"):
        M["logging." + lvl] = lambda I, *a, **k: None
    M["logging.getLogger"] = lambda I, *a, **k: External("logging.Logger")
    for lvl in ("debug", "info", "warning", "error", "critical", "exception", "setLevel", "addHandler"):
        M["logging.Logger." + lvl] = lambda I, *a, **k: None


def _mark(fn):
    fn._pyvc_model = True
    return fn


class IntType:
    """the builtin `int`: callable and with the classmethods from_bytes / to_bytes"""
    _pyvc_model = True
    name = "int"

    def __call__(self, I, x=0, base=None):
        if isinstance(x, (bool, SymBool)):
            return mk_int(T(x)) if is_sym(x) else int(x)
        if isinstance(x, (int, SymInt)):
            return x
        if isinstance(x, float):
            return int(x)
        if isinstance(x, SymFloat):
            return mk_int(x.t)
        if isinstance(x, DivResult):
            return x.floor()  # n>=0: trunc == floor
        if isinstance(x, str):
            try:
                return int(x, base) if base is not None else int(x)
            except ValueError as e:
                raise PyExc("ValueError", str(e))
        if hasattr(x, "pyvc_int"):
            return x.pyvc_int(I, base)
        raise Unsupported("int(%s)" % type(x).__name__)


class BytesType:
    _pyvc_model = True
    name = "bytes"

    def __call__(self, I, x=b"", *a):
        from .interp import Obj
        if isinstance(x, str):
            if not a:
                raise PyExc("TypeError", "string argument without an encoding")
            return const(x.encode(a[0]))
        if isinstance(x, (int, SymInt)):
            n = x
            if is_sym(n):
                n = core.CUR.concretize(n, what="bytes(n)")
            return const(bytes(n))
        if is_byteslike(x):
            return to_bytes_val(x)
        if isinstance(x, (list, tuple)):
            items = []
            for v in x:
                if isinstance(v, int):
                    if not 0 <= v <= 255:
                        raise PyExc("ValueError", "bytes must be in range(0, 256)")
                elif isinstance(v, SymInt):
                    if core.CUR.fork(core.z3.Or(v.t < 0, v.t > 255)):
                        raise PyExc("ValueError", "bytes must be in range(0, 256)")
                else:
                    raise PyExc("TypeError", "cannot convert to bytes")
                items.append(v)
            return BList(items)
        if isinstance(x, Obj) and x.kind is not None:
            fn = I.models.get(x.kind + ".__bytes__")
            if fn is not None:
                return fn(I, x)
        if isinstance(x, Obj) and "__bytes__" in x.attrs:
            return x.attrs["__bytes__"]
        raise Unsupported("bytes(%s)" % type(x).__name__)


def m_len(I, x):
    from .interp import SetVal, Obj, DictView
    if isinstance(x, (list, tuple, dict, str, bytes, bytearray)):
        return len(x)
    if is_byteslike(x):
        return to_bytes_val(x).length
    if isinstance(x, SetVal):
        return len(x.items)
    if isinstance(x, DictView):
        return len(x.d)
    if hasattr(x, "pyvc_len"):
        return x.pyvc_len(I)
    if isinstance(x, Obj) and x.kind is not None:
        fn = I.models.get(x.kind + ".__len__")
        if fn is not None:
            return fn(I, x)
    if isinstance(x, Obj) and "__bytes__" in x.attrs:   # library record: len(x) == len(bytes(x)) (assumed, dpkt)
        return to_bytes_val(x.attrs["__bytes__"]).length
    raise PyExc("TypeError", "object of type '%s' has no len()" % type(x).__name__)


def m_range(I, a, b=None, c=1):
    from .interp import RangeVal
    if b is None:
        return RangeVal(0, a, 1)
    return RangeVal(a, b, c)


def m_bool(I, x=False):
    return I.truth_value(x)


def m_bytearray(I, x=b"", *a):
    if isinstance(x, (int, SymInt)):
        return ByteArr(I.models["builtins.bytes"](I, x))
    return ByteArr(I.models["builtins.bytes"](I, x))


def m_enumerate(I, it, start=0):
    from .interp import EnumerateVal
    return EnumerateVal(it, start)


def m_zip(I, *its):
    from .interp import ZipVal
    return ZipVal(list(its))


_MISSING = object()


def _dc_field(I, default=_MISSING, default_factory=_MISSING, **kw):
    from .interp import DataclassField
    if any(k not in ("repr", "compare", "hash", "metadata", "init") or (k == "init" and v is not True) for k, v in kw.items()):
        raise Unsupported("dataclasses.field(%s)" % ", ".join(kw))
    return DataclassField(default is not _MISSING, None if default is _MISSING else default, None if default_factory is _MISSING else default_factory)


def m_list(I, x=()):
    if hasattr(x, "pyvc_copy"):
        return x.pyvc_copy(I)               # a list given by ghost structure: its copy is a snapshot of that structure
    return list(I.iterate(x))


def m_dict(I, x=None, **kw):
    d = {}
    if x is not None:
        if isinstance(x, dict):
            d.update(x)
        else:
            for k, v in I.iterate(x):
                d[I.dict_key(k)] = v
    d.update(kw)
    return d


def m_set(I, x=()):
    from .interp import SetVal
    s = SetVal()
    for v in I.iterate(x):
        s.add(I, v)
    return s


def m_str(I, x=""):
    from .interp import OpaqueStr
    if isinstance(x, SymInt):
        from .strings import PieceStr, IntPiece
        if core.CUR.fork(x.t < 0):
            return PieceStr(["-", IntPiece(-x)])
        return PieceStr([IntPiece(x)])
    if isinstance(x, (str, int, float)) and not isinstance(x, bool):
        return str(x)
    if isinstance(x, bool):
        return str(x)
    if x is None:
        return "None"
    if hasattr(x, "pyvc_str"):
        return x.pyvc_str(I)
    from .interp import Obj
    if isinstance(x, Obj) and x.kind == "ipaddress.addr":
        return IpStr(x.attrs["packed"], x.attrs["version"])
    return OpaqueStr(x)


def _opaque_str(x):
    from .interp import OpaqueStr
    return OpaqueStr(x)


def m_min(I, *a):
    xs = I.iterate(a[0]) if len(a) == 1 else list(a)
    r = xs[0]
    for x in xs[1:]:
        r = core.smin(r, x)
    return r


def m_max(I, *a):
    xs = I.iterate(a[0]) if len(a) == 1 else list(a)
    r = xs[0]
    for x in xs[1:]:
        r = core.smax(r, x)
    return r


def m_type(I, x):
    from .interp import Obj, Builtin
    if isinstance(x, Obj) and x.cls is not None:
        return x.cls
    b = "builtins."
    for name, test in (("bool", lambda v: isinstance(v, (bool, core.SymBool))), ("int", lambda v: isinstance(v, (int, SymInt))),
                       ("bytearray", lambda v: isinstance(v, ByteArr)), ("bytes", lambda v: isinstance(v, (bytes, SymBytes))),
                       ("list", lambda v: isinstance(v, list)), ("dict", lambda v: isinstance(v, dict)), ("str", lambda v: isinstance(v, str)),
                       ("tuple", lambda v: isinstance(v, tuple))):
        if test(x):
            t = I.models[b + name]
            return t if isinstance(t, Builtin) else Builtin(name, t)
    raise Unsupported("type() of %s" % type(x).__name__)


def m_sorted(I, x, key=None, reverse=False):
    from .interp import SetVal
    if isinstance(x, SetVal):
        # sorting removes the dependence on hash order EXCEPT among elements with equal keys (stable sort of an
        # arbitrary order); callers' contracts must not depend on that tie order
        xs = list(x.items)
    else:
        xs = list(I.iterate(x))
    return _sort_list(I, xs, key, reverse)


def _sort_list(I, xs, key, reverse):
    from .interp import LambdaVal, Frame, Builtin
    keys = []
    for v in xs:
        if key is None:
            k = v
        elif isinstance(key, Builtin) and key.name == "len":
            k = m_len(I, v)
        elif isinstance(key, LambdaVal):
            fr = Frame(key.frame.func, dict(key.frame.locals))
            fr.module = key.frame.module
            fr.locals[key.node.args.args[0].arg] = v
            k = I.eval(key.node.body, fr)
        else:
            k = I.call(key, [v])
        keys.append(k)
    # insertion sort with symbolic comparisons (forks); stable
    idx = list(range(len(xs)))
    out = []
    for i in idx:
        pos = len(out)
        while pos > 0:
            a, b = keys[out[pos - 1]], keys[i]
            gt = core.cmp_num(">", a, b) if not reverse else core.cmp_num("<", a, b)
            if I.truth(gt):
                pos -= 1
            else:
                break
        out.insert(pos, i)
    return [xs[i] for i in out]


def _any(I, x):
    for v in I.iterate(x):
        if I.truth(v):
            return True
    return False


def _all(I, x):
    for v in I.iterate(x):
        if not I.truth(v):
            return False
    return True


def _sum(I, x, start):
    r = start
    for v in I.iterate(x):
        r = r + v
    return r


def m_getattr(I, o, n, *d):
    try:
        return I.getattr_(o, n)
    except PyExc as e:
        if e.cls == "AttributeError" and d:
            return d[0]
        raise


def m_hasattr(I, o, n):
    try:
        I.getattr_(o, n)
        return True
    except PyExc as e:
        if e.cls == "AttributeError":
            return False
        raise


def m_open(I, *a, **k):
    h = I.models.get("hook.open")
    if h is None:
        raise Unsupported("open() without a file model supplied by the contract")
    return h(I, *a, **k)


class IpStr:
    """the textual form of an IP address: opaque, but remembers the packed address it denotes"""

    def __init__(self, packed, version, encoded=False):
        self.packed = packed
        self.version = version
        self.encoded = encoded

    def pyvc_eq(self, I, o):
        if isinstance(o, IpStr):
            return bytes_eq(self.packed, o.packed) if self.version == o.version else False
        return False

    def pyvc_getattr(self, I, name):
        from .interp import Builtin
        if name == "encode":       # scapy accepts str and bytes spellings of the same address (assumed, DESIGN 3.5)
            return Builtin("str.encode", lambda I, *a: IpStr(self.packed, self.version, True))
        if name == "__str__":
            return Builtin("str.__str__", lambda I: self)
        raise Unsupported("method %s on an address string" % name)

    def pyvc_str(self, I):
        return self


def _ipaddr(I, a, n):
    from .interp import Obj
    if isinstance(a, IpStr):
        a = a.packed
    if not is_byteslike(a):
        raise Unsupported("ip address from %s" % type(a).__name__)
    v = to_bytes_val(a)
    ln = v.length
    bad = core.cmp_num("!=", ln, n)
    if I.truth(bad):
        raise PyExc("ValueError", "AddressValueError: wrong packed length")
    return Obj(None, {"packed": v, "version": 4 if n == 4 else 6}, kind="ipaddress.addr")


def _to_float(x):
    if isinstance(x, core.PowExpr):
        return core.FloatExpr("float_pow", (x.base, x.exp))
    if isinstance(x, core.FloatExpr):
        return x
    return core.to_float(x)


def m_unpack_from(I, fmt, buf, offset=0):
    """struct.unpack_from for formats made of B / H / I and <n>s items, n possibly symbolic (piece-list strings)"""
    from .strings import PieceStr, IntPiece
    parts = fmt.parts if isinstance(fmt, PieceStr) else [fmt]
    items, count = [], None
    for p in parts:
        if isinstance(p, IntPiece):
            if count is not None:
                raise Unsupported("struct format with adjacent counts")
            count = p.v
            continue
        if not isinstance(p, str):
            raise Unsupported("struct format piece %r" % (p,))
        i = 0
        while i < len(p):
            ch = p[i]
            if ch.isdigit():
                j = i
                while j < len(p) and p[j].isdigit():
                    j += 1
                if count is not None:
                    raise Unsupported("struct format with adjacent counts")
                count = int(p[i:j])
                i = j
                continue
            if ch in "<>!=@" and not items and count is None:
                raise Unsupported("struct byte-order prefix")
            if ch == "s":
                items.append(("s", 1 if count is None else count))
            elif ch in "BHI":
                for _ in range(1 if count is None else (count if isinstance(count, int) else core.CUR.concretize(count, what="struct repeat"))):
                    items.append((ch, None))
            elif ch == "-":
                raise PyExc("struct.error", "bad char in struct format")
            else:
                raise Unsupported("struct format char %r" % ch)
            count = None
            i += 1
    if count is not None:
        raise PyExc("struct.error", "repeat count given without format specifier")
    b = to_bytes_val(buf)
    off = offset
    total = off
    for kind, n in items:
        total = total + (n if kind == "s" else {"B": 1, "H": 2, "I": 4}[kind])
    if I.truth(core.cmp_num("<", b.length, total)):
        raise PyExc("struct.error", "unpack_from requires a buffer of at least that many bytes")
    out = []
    for kind, n in items:
        if kind == "s":
            out.append(bslice(b, off, off + n))
            off = off + n
        else:
            w = {"B": 1, "H": 2, "I": 4}[kind]
            v = 0
            for k in range(w):        # native byte order is little endian on the supported platforms; only "B" is used
                v = v + b.at(off + k) * (256 ** k)
            out.append(v)
            off = off + w
    return tuple(out)


def m_exit(I, *a):
    raise PyExc("SystemExit", "exit")


def m_deepcopy(I, x):
    from .interp import Obj
    if isinstance(x, ByteArr):
        return ByteArr(x.val)
    if isinstance(x, (SymBytes, bytes, int, SymInt, str, float, bool, type(None), SymBool)):
        return x
    if isinstance(x, list):
        return [m_deepcopy(I, v) for v in x]
    if isinstance(x, tuple):
        return tuple(m_deepcopy(I, v) for v in x)
    if isinstance(x, dict):
        return {k: m_deepcopy(I, v) for k, v in x.items()}
    raise Unsupported("deepcopy of %s" % type(x).__name__)


def m_floor(I, x):
    if isinstance(x, DivResult):
        return x.floor()
    if isinstance(x, (int, SymInt)):
        return x
    if isinstance(x, float):
        import math
        return math.floor(x)
    if isinstance(x, SymFloat):
        return mk_int(x.t)
    raise Unsupported("math.floor(%s)" % type(x).__name__)


def m_ceil(I, x):
    if isinstance(x, DivResult):
        return x.ceil()
    if isinstance(x, (int, SymInt)):
        return x
    if isinstance(x, float):
        import math
        return math.ceil(x)
    if isinstance(x, SymFloat):
        return mk_int(x.t)
    raise Unsupported("math.ceil(%s)" % type(x).__name__)


# ---------------------------------------------------------------------------------- operators

def binop_model(I, op, a, b, inplace=False):
    from .interp import SetVal, StrPieces, OpaqueStr
    tn = type(op).__name__
    num = (int, SymInt, SymBool, float, SymFloat)
    if isinstance(a, num) and isinstance(b, num):
        if isinstance(a, (bool, SymBool)) and tn in ("BitAnd", "BitOr", "BitXor") and isinstance(b, (bool, SymBool)):
            if tn == "BitAnd":
                return core.band(a, b)
            if tn == "BitOr":
                return core.bor(a, b)
            return mk_bool(core.z3.Xor(TB(a), TB(b))) if (is_sym(a) or is_sym(b)) else a ^ b
        if isinstance(a, SymBool):
            a = mk_int(T(a))
        if isinstance(b, SymBool):
            b = mk_int(T(b))
        if tn == "Add":
            return a + b
        if tn == "Sub":
            return a - b
        if tn == "Mult":
            if isinstance(a, (float, SymFloat)) or isinstance(b, (float, SymFloat)):
                if isinstance(a, (int, float)) and isinstance(b, (int, float)):
                    return a * b
                raise Unsupported("symbolic float multiplication")
            return a * b
        if tn == "FloorDiv":
            return core.int_floordiv(a, b)
        if tn == "Mod":
            return core.int_mod(a, b)
        if tn == "Div":
            return core.true_div(a, b)
        if tn == "LShift":
            return core.int_lshift(a, b)
        if tn == "RShift":
            return core.int_rshift(a, b)
        if tn == "BitAnd":
            return core.int_and(a, b)
        if tn == "BitOr":
            return core.int_or(a, b)
        if tn == "BitXor":
            return core.int_xor(a, b)
        if tn == "Pow":
            return core.int_pow(a, b)
        raise Unsupported("numeric operator %s" % tn)
    if is_byteslike(a):
        if tn == "Add":
            if not is_byteslike(b):
                raise PyExc("TypeError", "can't concat %s to bytes" % type(b).__name__)
            if isinstance(a, ByteArr):
                if inplace:
                    a.val = bcat(a.val, b)
                    return a
                return ByteArr(bcat(a.val, b))
            return bcat(a, b)
        if tn == "Mult" and isinstance(b, (int, SymInt)):
            return _bytes_repeat(a, b)
        if tn == "Mod":
            raise Unsupported("bytes % formatting")
    if isinstance(a, (int, SymInt)) and is_byteslike(b) and tn == "Mult":
        return _bytes_repeat(b, a)
    if isinstance(a, str) and isinstance(b, str) and tn == "Add":
        return a + b
    if isinstance(a, (str, StrPieces, OpaqueStr)) and isinstance(b, (str, StrPieces, OpaqueStr)) and tn == "Add":
        pa = a.parts if isinstance(a, StrPieces) else [a]
        pb = b.parts if isinstance(b, StrPieces) else [b]
        return StrPieces(pa + pb)
    if isinstance(a, str) and tn == "Mult" and isinstance(b, int):
        return a * b
    if isinstance(b, str) and tn == "Mult" and isinstance(a, int) and not isinstance(a, bool):
        return a * b
    if isinstance(a, str) and tn == "Mod":
        return _opaque_str((a, b))
    if isinstance(a, list) and isinstance(b, list) and tn == "Add":
        if inplace:
            a.extend(b)
            return a
        return a + b
    if isinstance(a, list) and isinstance(b, int) and tn == "Mult":
        return a * b
    if isinstance(a, tuple) and isinstance(b, tuple) and tn == "Add":
        return a + b
    if isinstance(a, SetVal) and isinstance(b, SetVal) and tn == "BitOr":
        return a.union(b)
    from .interp import Obj
    if isinstance(a, Obj) and a.kind is not None and tn == "Div":
        fn = I.models.get(a.kind + ".__truediv__")
        if fn is not None:
            return fn(I, a, b)
    if isinstance(a, core.FloatExpr) or isinstance(b, core.FloatExpr):
        return a.pyvc_binop(I, tn, b, False) if isinstance(a, core.FloatExpr) else b.pyvc_binop(I, tn, a, True)
    if hasattr(a, "pyvc_binop"):
        return a.pyvc_binop(I, tn, b, False)
    if hasattr(b, "pyvc_binop"):
        return b.pyvc_binop(I, tn, a, True)
    if a is None or b is None:
        raise PyExc("TypeError", "unsupported operand type(s) for %s: '%s' and '%s'" % (tn, _tn(a), _tn(b)))
    if (isinstance(a, num) and is_byteslike(b)) or (is_byteslike(a) and isinstance(b, num)) or \
            (isinstance(a, str) and (isinstance(b, num) or is_byteslike(b))) or (isinstance(b, str) and (isinstance(a, num) or is_byteslike(a))):
        raise PyExc("TypeError", "unsupported operand type(s) for %s: '%s' and '%s'" % (tn, _tn(a), _tn(b)))
    raise Unsupported("operator %s on %s and %s" % (tn, type(a).__name__, type(b).__name__))


def _tn(x):
    if x is None:
        return "NoneType"
    if isinstance(x, (SymInt,)):
        return "int"
    if isinstance(x, SymBytes):
        return "bytes"
    return type(x).__name__


def _bytes_repeat(b, n):
    v = to_bytes_val(b)
    if is_sym(n):
        n = core.CUR.concretize(n, what="bytes repeat count", limit=64)
    if n <= 0:
        return const(b"")
    return bcat(*([v] * n))


def eq_model(I, a, b):
    from .interp import Obj, SetVal, ExcClass
    if a is b:
        if not isinstance(a, float):
            return True
    num = (int, SymInt, SymBool, float, SymFloat)
    if isinstance(a, num) and isinstance(b, num):
        if isinstance(a, (bool, SymBool)) and isinstance(b, (bool, SymBool)):
            if not is_sym(a) and not is_sym(b):
                return a == b
            return mk_bool(TB(a) == TB(b))
        return core.cmp_num("==", a, b)
    if a is None or b is None:
        return False
    if is_byteslike(a) and is_byteslike(b):
        return bytes_eq(a, b)
    if isinstance(a, str) and isinstance(b, str):
        return a == b
    if isinstance(a, (tuple, list)) and isinstance(b, (tuple, list)):
        if type(a) is not type(b) or len(a) != len(b):
            return False
        r = True
        for x, y in zip(a, b):
            r = core.band(r, I.truth_value(eq_model(I, x, y)))
            if r is False:
                return False
        return r
    from .interp import SetVal as _SV
    if isinstance(a, _SV) and isinstance(b, _SV):
        r = True
        for x in a.items:
            r = core.band(r, I.truth_value(b.contains(I, x)))
        for y in b.items:
            r = core.band(r, I.truth_value(a.contains(I, y)))
        return r
    if isinstance(a, dict) and isinstance(b, dict):
        if set(a) != set(b):
            return False
        r = True
        for k in a:
            r = core.band(r, I.truth_value(eq_model(I, a[k], b[k])))
        return r
    if isinstance(a, (Obj, EnumMember, ClassVal, FuncVal, ExcClass)) or isinstance(b, (Obj, EnumMember, ClassVal, FuncVal, ExcClass)):
        if isinstance(a, Obj) and a.cls is not None and I.class_lookup(a.cls, "__eq__") is not I.class_lookup.__self__ and False:
            pass
        if hasattr(a, "pyvc_eq"):
            return a.pyvc_eq(I, b)
        return a is b
    if hasattr(a, "pyvc_eq"):
        return a.pyvc_eq(I, b)
    if hasattr(b, "pyvc_eq"):
        return b.pyvc_eq(I, a)
    if isinstance(a, External) and isinstance(b, External):
        return a.dotted == b.dotted
    ta = "num" if isinstance(a, num) else "bytes" if is_byteslike(a) else type(a).__name__
    tb = "num" if isinstance(b, num) else "bytes" if is_byteslike(b) else type(b).__name__
    basic = {"num", "bytes", "str", "tuple", "list", "dict", "External"}
    if ta != tb and ta in basic and tb in basic:
        return False
    raise Unsupported("== on %s and %s" % (type(a).__name__, type(b).__name__))


def in_model(I, a, b):
    from .interp import SetVal, DictView
    if isinstance(b, (tuple, list)):
        r = False
        for x in b:
            r = core.bor(r, I.truth_value(eq_model(I, a, x)))
            if r is True:
                return True
        return r
    if isinstance(b, DictView) and b.kind == "keys":
        b = b.d
    if isinstance(b, dict):
        if isinstance(a, (SymInt, SymBool)) or (isinstance(a, int) and any(_symkey(k) for k in b)):
            r = False
            for k in b:
                if isinstance(k, (int, SymInt)):
                    r = core.bor(r, core.cmp_num("==", a, k))
            return r
        if isinstance(a, SymBytes) and not (isinstance(a, BList) and a.concrete() is not None):
            r = False
            for k in b:
                if isinstance(k, bytes):
                    r = core.bor(r, bytes_eq(a, k))
            return r
        return I.dict_key(a) in b
    if isinstance(b, SetVal):
        return b.contains(I, a)
    if isinstance(b, str) and isinstance(a, str):
        return a in b
    if is_byteslike(b):
        bv = to_bytes_val(b)
        if isinstance(a, (int, SymInt)):
            n = bv.length
            if is_sym(n):
                raise Unsupported("int in bytes of symbolic length")
            r = False
            for k in range(n):
                r = core.bor(r, core.cmp_num("==", bv.at(k), a))
            return r
        if is_byteslike(a):
            av = to_bytes_val(a)
            ca = av.concrete() if isinstance(av, BList) else None
            cb = bv.concrete() if isinstance(bv, BList) else None
            if ca is not None and cb is not None:
                return ca in cb
            raise Unsupported("symbolic substring test")
    if hasattr(b, "pyvc_contains"):
        return b.pyvc_contains(I, a)
    from .interp import Obj
    if isinstance(b, Obj) and b.kind == "argparse.Namespace" and isinstance(a, str):
        return a in b.attrs
    raise Unsupported("'in' on %s" % type(b).__name__)


def _symkey(k):
    return isinstance(k, (SymInt, SymBool)) or (isinstance(k, SymBytes) and not (isinstance(k, BList) and k.concrete() is not None))


def _norm_index(I, i, n, what="index"):
    """Python index normalisation with IndexError as a path split; returns non-negative index"""
    if isinstance(i, (bool, SymBool)):
        i = mk_int(T(i)) if is_sym(i) else int(i)
    if not isinstance(i, (int, SymInt)):
        raise PyExc("TypeError", "indices must be integers, not %s" % _tn(i))
    if not is_sym(i) and not is_sym(n):
        if i < -n or i >= n:
            raise PyExc("IndexError", "%s out of range" % what)
        return i + n if i < 0 else i
    ti, tn_ = T(i), T(n)
    z = core.z3
    if core.CUR.fork(z.Or(ti >= tn_, ti < -tn_)):
        raise PyExc("IndexError", "%s out of range" % what)
    if isinstance(i, int):
        return i + n if i < 0 else i
    if core.CUR.prove(ti >= 0):
        return i
    if core.CUR.fork(ti < 0):
        return i + n
    return i


def getitem(I, o, k):
    from .interp import Obj
    if is_byteslike(o):
        v = to_bytes_val(o)
        if isinstance(k, slice):
            if k.step is not None and k.step != 1:
                raise Unsupported("slice step")
            r = bslice(v, k.start, k.stop)
            return ByteArr(r) if isinstance(o, ByteArr) else r
        idx = _norm_index(I, k, v.length)
        return v.at(idx)
    if isinstance(o, (list, tuple)):
        if isinstance(k, slice):
            lo, hi = k.start, k.stop
            if is_sym(lo):
                lo = core.CUR.concretize(lo, what="list slice bound")
            if is_sym(hi):
                hi = core.CUR.concretize(hi, what="list slice bound")
            st = k.step
            return o[lo:hi:st]
        if is_sym(k):
            idx = _norm_index(I, k, len(o))
            idx = core.CUR.concretize(idx, what="list index", limit=64)
            return o[idx]
        if not isinstance(k, int):
            raise PyExc("TypeError", "list indices must be integers")
        try:
            return o[k]
        except IndexError:
            raise PyExc("IndexError", "list index out of range")
    if isinstance(o, dict):
        if _symkey(k) or any(_symkey(kk) for kk in o):
            # symbolic key (or symbolic keys in the dict): fork per key
            for kk in list(o):
                if I.truth(eq_model(I, k, kk)):
                    return o[kk]
            raise PyExc("KeyError", "symbolic key")
        kk = I.dict_key(k)
        try:
            hash(kk)
        except TypeError:
            raise PyExc("TypeError", "unhashable type")
        if kk in o:
            return o[kk]
        raise PyExc("KeyError", repr(kk))
    if isinstance(o, str):
        try:
            return o[k]
        except IndexError:
            raise PyExc("IndexError", "string index out of range")
    if hasattr(o, "pyvc_getitem"):
        return o.pyvc_getitem(I, k)
    if isinstance(o, Obj) and o.kind is not None:
        fn = I.models.get(o.kind + ".__getitem__")
        if fn is not None:
            return fn(I, o, k)
    if o is None:
        raise PyExc("TypeError", "'NoneType' object is not subscriptable")
    if isinstance(o, (ClassVal, External)):
        return o  # typing subscripts such as list[int]
    raise Unsupported("subscript of %s" % type(o).__name__)


def setitem(I, o, k, v):
    if isinstance(o, ByteArr):
        if isinstance(k, slice):
            if k.step is not None:
                raise Unsupported("slice step assignment")
            if not is_byteslike(v):
                raise PyExc("TypeError", "can assign only bytes")
            cur = o.val
            n = cur.length
            lo = core._clip_index(k.start, n, 0)
            hi = core._clip_index(k.stop, n, n)
            hi = core.smax(lo, hi)
            o.val = bcat(bslice(cur, 0, lo), to_bytes_val(v), bslice(cur, hi, None))
            return
        idx = _norm_index(I, k, o.val.length, "bytearray index")
        if not isinstance(v, (int, SymInt)):
            raise PyExc("TypeError", "an integer is required")
        if is_sym(v):
            if core.CUR.fork(core.z3.Or(v.t < 0, v.t > 255)):
                raise PyExc("ValueError", "byte must be in range(0, 256)")
        elif not 0 <= v <= 255:
            raise PyExc("ValueError", "byte must be in range(0, 256)")
        cur = o.val
        o.val = bcat(bslice(cur, 0, idx), BList([v]), bslice(cur, idx + 1, None))
        return
    if isinstance(o, list):
        if isinstance(k, slice):
            if k.step is None and all(x is None or isinstance(x, int) for x in (k.start, k.stop)):
                o[k] = list(I.iterate(v))        # concrete bounds: Python's own slice semantics on the heap list
                return
            raise Unsupported("list slice assignment with symbolic bounds or a step")
        if is_sym(k):
            k = core.CUR.concretize(_norm_index(I, k, len(o)), what="list index")
        try:
            o[k] = v
        except IndexError:
            raise PyExc("IndexError", "list assignment index out of range")
        return
    if isinstance(o, dict):
        if _symkey(k) or any(_symkey(kk) for kk in o):
            for kk in list(o):
                if I.truth(eq_model(I, k, kk)):
                    o[kk] = v
                    return
            o[k] = v
            return
        o[I.dict_key(k)] = v
        return
    if hasattr(o, "pyvc_setitem"):
        return o.pyvc_setitem(I, k, v)
    if isinstance(o, (bytes, SymBytes)):
        raise PyExc("TypeError", "'bytes' object does not support item assignment")
    raise Unsupported("item store on %s" % type(o).__name__)


def delitem(I, o, k):
    if isinstance(o, ByteArr) and isinstance(k, slice) and k.step is None:
        cur = o.val
        n = cur.length
        lo = core._clip_index(k.start, n, 0)
        hi = core.smax(lo, core._clip_index(k.stop, n, n))
        o.val = bcat(bslice(cur, 0, lo), bslice(cur, hi, None))
        return
    if isinstance(o, dict):
        kk = I.dict_key(k)
        if kk not in o:
            raise PyExc("KeyError", repr(kk))
        del o[kk]
        return
    if isinstance(o, list) and isinstance(k, slice) and all(x is None or isinstance(x, int) for x in (k.start, k.stop, k.step)):
        del o[k]
        return
    if isinstance(o, list) and isinstance(k, int):
        try:
            del o[k]
        except IndexError:
            raise PyExc("IndexError", "list assignment index out of range")
        return
    raise Unsupported("del item on %s" % type(o).__name__)


# ---------------------------------------------------------------------------------- methods

def method_of(I, o, name):
    from .interp import Builtin, SetVal, DictView, StrPieces, OpaqueStr, ExcValue
    if isinstance(o, IntType):
        if name == "from_bytes":
            return Builtin("int.from_bytes", _int_from_bytes)
        if name == "to_bytes":
            return Builtin("int.to_bytes", lambda I, x, length=1, byteorder="big", signed=False: _to_bytes(I, x, length, byteorder, signed))
    if isinstance(o, BytesType):
        if name == "fromhex":
            return Builtin("bytes.fromhex", _fromhex)
    if isinstance(o, Builtin) and isinstance(o.fn, (IntType, BytesType)):
        return method_of(I, o.fn, name)
    if isinstance(o, Builtin) and o.name == "dict" and name == "fromkeys":
        def fromkeys(I, keys, value=None):
            d = {}
            for k in I.iterate(keys):
                d[I.dict_key(k)] = value          # ONE value object shared by all keys, as in CPython
            return d
        return Builtin("dict.fromkeys", fromkeys)
    if isinstance(o, Builtin) and o.name == "bytearray" and name == "fromhex":
        return Builtin("bytearray.fromhex", lambda I, s: ByteArr(_fromhex(I, s)))
    if isinstance(o, (int, SymInt)) and not isinstance(o, bool):
        if name == "to_bytes":
            return Builtin("int.to_bytes", lambda I, length=1, byteorder="big", signed=False: _to_bytes(I, o, length, byteorder, signed))
        if name == "bit_length" and isinstance(o, int):
            return Builtin("int.bit_length", lambda I: o.bit_length())
    if is_byteslike(o):
        if name == "hex":
            return Builtin("bytes.hex", lambda I, *a: HexStr(to_bytes_val(o)))
        if name == "decode":
            return Builtin("bytes.decode", lambda I, *a, **k: _decode(I, o))
        if isinstance(o, ByteArr):
            if name == "extend":
                return Builtin("bytearray.extend", lambda I, x: _ba_extend(I, o, x))
            if name == "append":
                return Builtin("bytearray.append", lambda I, x: _ba_extend(I, o, BList([x])))
            if name == "copy":
                return Builtin("bytearray.copy", lambda I: ByteArr(o.val))
            if name == "clear":
                return Builtin("bytearray.clear", lambda I: setattr(o, "val", const(b"")))
        if name == "rstrip":
            return Builtin("bytes.rstrip", lambda I, chars=None: _rstrip(I, o, chars))
        if name == "lstrip":
            return Builtin("bytes.lstrip", lambda I, chars=None: _lstrip(I, o, chars))
        if name == "strip":
            return Builtin("bytes.strip", lambda I, chars=None: _rstrip(I, _lstrip(I, o, chars), chars))
        if name == "startswith":
            return Builtin("bytes.startswith", lambda I, p: bytes_eq(bslice(to_bytes_val(o), 0, to_bytes_val(p).length), p) if True else None)
        if name == "index" or name == "find":
            raise Unsupported("bytes.%s" % name)
    if isinstance(o, list):
        if name == "append":
            return Builtin("list.append", lambda I, x: o.append(x))
        if name == "extend":
            return Builtin("list.extend", lambda I, x: o.extend(I.iterate(x)))
        if name == "insert":
            return Builtin("list.insert", lambda I, i, x: o.insert(core.CUR.concretize(i) if is_sym(i) else i, x))
        if name == "pop":
            return Builtin("list.pop", lambda I, i=-1: _list_pop(o, i))
        if name == "remove":
            return Builtin("list.remove", lambda I, x: _list_remove(I, o, x))
        if name == "clear":
            return Builtin("list.clear", lambda I: o.clear())
        if name == "copy":
            return Builtin("list.copy", lambda I: list(o))
        if name == "sort":
            return Builtin("list.sort", lambda I, key=None, reverse=False: _list_sort(I, o, key, reverse))
        if name == "index":
            return Builtin("list.index", lambda I, x: _list_index(I, o, x))
        if name == "reverse":
            return Builtin("list.reverse", lambda I: o.reverse())
        if name == "count":
            raise Unsupported("list.count")
    if isinstance(o, dict):
        if name == "keys":
            return Builtin("dict.keys", lambda I: DictView(o, "keys"))
        if name == "values":
            return Builtin("dict.values", lambda I: DictView(o, "values"))
        if name == "items":
            return Builtin("dict.items", lambda I: DictView(o, "items"))
        if name == "get":
            return Builtin("dict.get", lambda I, k, d=None: _dict_get(I, o, k, d))
        if name == "update":
            return Builtin("dict.update", lambda I, other: o.update(other))
        if name == "pop":
            return Builtin("dict.pop", lambda I, k, *d: _dict_pop(I, o, k, d))
        if name == "setdefault":
            return Builtin("dict.setdefault", lambda I, k, d=None: o.setdefault(I.dict_key(k), d))
        if name == "clear":
            return Builtin("dict.clear", lambda I: o.clear())
        if name == "copy":
            return Builtin("dict.copy", lambda I: dict(o))
    if isinstance(o, SetVal):
        if name == "add":
            return Builtin("set.add", lambda I, x: o.add(I, x))
        if name == "union":
            return Builtin("set.union", lambda I, x: o.union(x, I))
        if name == "clear":
            return Builtin("set.clear", lambda I: o.items.clear())
    if isinstance(o, str):
        if name in ("lower", "upper", "strip", "rstrip", "lstrip", "encode", "split", "replace", "startswith",
                    "endswith", "join", "format", "isdigit", "splitlines", "find", "hex"):
            def strm(I, *a, **k):
                if any(not isinstance(x, (str, int, bytes, type(None), tuple)) for x in a):
                    if name == "join":
                        return _opaque_str(a)
                    if name == "format":
                        return _opaque_str(a)
                    raise Unsupported("str.%s with symbolic argument" % name)
                r = getattr(o, name)(*a, **k)
                return r
            return Builtin("str." + name, strm)
    if isinstance(o, (StrPieces, OpaqueStr, HexStr)):
        if name in ("lower", "upper", "strip", "format"):
            return Builtin("str." + name, lambda I, *a: o)
        if hasattr(o, "pyvc_method"):
            return o.pyvc_method(I, name)
        raise Unsupported("method %s on symbolic string" % name)
    if isinstance(o, ExcValue):
        if name == "args":
            return (o.msg,)
        if name in ("__str__", "__repr__"):
            return Builtin("exc.__str__", lambda I: o.msg)
    if isinstance(o, float) and name == "is_integer":
        return Builtin("float.is_integer", lambda I: o.is_integer())
    if hasattr(o, "pyvc_getattr"):
        return o.pyvc_getattr(I, name)
    if o is None:
        raise PyExc("AttributeError", "'NoneType' object has no attribute '%s'" % name)
    if isinstance(o, (int, SymInt, SymBool, float, str, list, dict, tuple, SymBytes, ByteArr, bytes)):
        if name in ("__str__", "__repr__"):
            return Builtin("str", lambda I: m_str(I, o))
        known = _KNOWN_ATTRS.get(_tn(o) if not isinstance(o, ByteArr) else "bytearray")
        if known is not None and name not in known:
            raise PyExc("AttributeError", "'%s' object has no attribute '%s'" % (_tn(o), name))
    raise Unsupported("attribute %s of %s" % (name, type(o).__name__))


_KNOWN_ATTRS = {
    "int": set(dir(int)), "bytes": set(dir(bytes)), "bytearray": set(dir(bytearray)), "str": set(dir(str)),
    "list": set(dir(list)), "dict": set(dir(dict)), "tuple": set(dir(tuple)), "float": set(dir(float)),
    "bool": set(dir(bool)),
}


class HexStr:
    """the string x.hex() - opaque, but knows its source for equality of hex strings"""

    def __init__(self, b):
        self.b = b

    def pyvc_eq(self, I, o):
        if isinstance(o, HexStr):
            return bytes_eq(self.b, o.b)
        if hasattr(o, "pyvc_eq") and not isinstance(o, HexStr):
            return o.pyvc_eq(I, self)
        raise Unsupported("comparison of hex string with %s" % type(o).__name__)

    def pyvc_getattr(self, I, name):
        from .interp import Builtin
        if name == "lower":
            return Builtin("str.lower", lambda I: self)      # bytes.hex() is lower-case
        raise Unsupported("method %s on hex string" % name)


def _int_from_bytes(I, b, byteorder="big", signed=False):
    if signed is not False:
        u = _int_from_bytes(I, b, byteorder, False)
        n = to_bytes_val(b).length
        if is_sym(n):
            n = core.CUR.concretize(n, what="from_bytes length")
        if n == 0:
            return 0
        return core.ite(u >= 2 ** (8 * n - 1), u - 2 ** (8 * n), u)
    if byteorder == "little":
        v = to_bytes_val(b)
        n = v.length
        if is_sym(n):
            n = core.CUR.concretize(n, what="from_bytes length")
        r = 0
        for k in range(n - 1, -1, -1):
            r = r * 256 + v.at(k)
        return r
    if byteorder != "big":
        raise PyExc("ValueError", "byteorder must be either 'little' or 'big'")
    return be_int(b)


def _to_bytes(I, x, length, byteorder, signed):
    if isinstance(x, (bool,)):
        x = int(x)
    if not isinstance(x, (int, SymInt)):
        raise PyExc("TypeError", "to_bytes on non-int")
    if byteorder != "big":
        if byteorder == "little":
            r = int_to_bytes(x, length, signed)
            return BList(list(reversed(r.items)))
        raise PyExc("ValueError", "byteorder must be either 'little' or 'big'")
    return int_to_bytes(x, length, signed)


def _fromhex(I, s):
    if isinstance(s, str):
        try:
            return const(bytes.fromhex(s))
        except ValueError as e:
            raise PyExc("ValueError", str(e))
    if isinstance(s, HexStr):
        return s.b
    if hasattr(s, "pyvc_fromhex"):
        return s.pyvc_fromhex(I)
    raise Unsupported("bytes.fromhex of symbolic string")


def _rstrip(I, o, chars):
    """b.rstrip(single byte): the prefix ending at the last byte different from it"""
    v = to_bytes_val(o)
    cb = to_bytes_val(chars).concrete() if chars is not None and isinstance(to_bytes_val(chars), BList) else None
    if cb is None or len(cb) != 1:
        raise Unsupported("rstrip with other than one concrete byte")
    ch = cb[0]
    c0 = v.concrete() if isinstance(v, BList) else None
    if c0 is not None:
        return const(c0.rstrip(cb))
    z3 = core.z3
    E = core.CUR
    m = E.fresh_int("rstrip.len")
    n = T(v.length)
    E.add(z3.And(m >= 0, m <= n))
    ms = SymInt(m)
    E.add(z3.Or(m == 0, T(v.at(ms - 1)) != ch))
    j = E.fresh_int("j")
    E.add(z3.ForAll([j], z3.Implies(z3.And(j >= m, j < n), T(v.at(SymInt(j))) == ch)))
    return bslice(v, 0, ms)


def _stat_size(I, path):
    """assumed contract of os.path.getsize: SOME non-negative integer - what stat() reports is not determined by what reading the path
    delivers (named pipes, process substitution, /dev/stdin and /proc files report 0)"""
    v = core.CUR.fresh_int("stat_size")
    core.CUR.add(v >= 0)
    return SymInt(v)


def _lstrip(I, o, chars):
    v = to_bytes_val(o)
    cb = to_bytes_val(chars).concrete() if chars is not None and isinstance(to_bytes_val(chars), BList) else None
    if cb is None or len(cb) != 1:
        raise Unsupported("lstrip with other than one concrete byte")
    ch = cb[0]
    c0 = v.concrete() if isinstance(v, BList) else None
    if c0 is not None:
        return const(c0.lstrip(cb))
    z3 = core.z3
    E = core.CUR
    m = E.fresh_int("lstrip.skipped")
    n = T(v.length)
    E.add(z3.And(m >= 0, m <= n))
    ms = SymInt(m)
    E.add(z3.Or(m == n, T(v.at(ms)) != ch))
    j = E.fresh_int("j")
    E.add(z3.ForAll([j], z3.Implies(z3.And(j >= 0, j < m), T(v.at(SymInt(j))) == ch)))
    return bslice(v, ms, v.length)


def _decode(I, o):
    v = to_bytes_val(o)
    c = v.concrete() if isinstance(v, BList) else None
    if c is not None:
        try:
            return c.decode()
        except UnicodeDecodeError as e:
            raise PyExc("UnicodeDecodeError", str(e))
    return DecodedStr(v)


class DecodedStr:
    def __init__(self, b):
        self.b = b


def _ba_extend(I, o, x):
    if isinstance(x, (list, tuple)):
        x = I.models["builtins.bytes"](I, list(x))
    if not is_byteslike(x):
        raise PyExc("TypeError", "can't extend bytearray with %s" % _tn(x))
    o.val = bcat(o.val, x)


def _list_pop(o, i):
    if is_sym(i):
        i = core.CUR.concretize(i)
    try:
        return o.pop(i)
    except IndexError:
        raise PyExc("IndexError", "pop from empty list")


def _list_remove(I, o, x):
    for idx, v in enumerate(o):
        if I.truth(eq_model(I, v, x)):
            del o[idx]
            return
    raise PyExc("ValueError", "list.remove(x): x not in list")


def _list_index(I, o, x):
    for idx, v in enumerate(o):
        if I.truth(eq_model(I, v, x)):
            return idx
    raise PyExc("ValueError", "x not in list")


def _list_sort(I, o, key, reverse):
    o[:] = _sort_list(I, list(o), key, reverse)


def _dict_get(I, o, k, d):
    try:
        return getitem(I, o, k)
    except PyExc as e:
        if e.cls == "KeyError":
            return d
        raise


def _dict_pop(I, o, k, d):
    kk = I.dict_key(k)
    if kk in o:
        return o.pop(kk)
    if d:
        return d[0]
    raise PyExc("KeyError", repr(kk))
