"""native-mode implementation of the contract API: the same contract text, evaluated by CPython on
the REAL code (used to replay counter-models and as the CPython differential of the executor)."""
import importlib
import os
import sys

MODE = "native"
REPO = os.environ.get("TLEXPORT_REPO", "/repo")


def len_(x):
    return len(x)


def ite(c, a, b):
    return a if c else b


def const(b):
    return bytes(b)


def cat(*parts):
    return b"".join(bytes(p) for p in parts)


def be(b):
    return int.from_bytes(bytes(b), "big")


def eq(a, b):
    if isinstance(a, (bytes, bytearray)) and isinstance(b, (bytes, bytearray)):
        return bytes(a) == bytes(b)
    return a == b


def band(*xs):
    return all(xs)


def bor(*xs):
    return any(xs)


def bnot(x):
    return not x


def implies(a, b):
    return (not a) or b


def smin(a, b):
    return min(a, b)


def smax(a, b):
    return max(a, b)


def slice_(b, lo, hi):
    return b[lo:hi]


def is_none(x):
    return x is None


def is_slice_of(x, base):
    return bytes(x) in bytes(base)


class ReplayPrecondition(Exception):
    pass


class Obj:  # placeholder so contracts can import the name
    pass


class _Opaque:
    def __init__(self, name):
        self.name = name

    def __repr__(self):
        return "<opaque %s>" % self.name


def _resolve(qualname):
    if REPO not in sys.path:
        sys.path.insert(0, REPO)
    parts = qualname.split(".")
    for cut in range(len(parts), 0, -1):
        try:
            m = importlib.import_module(".".join(parts[:cut]))
        except ImportError:
            continue
        v = m
        for p in parts[cut:]:
            v = getattr(v, p)
        return v
    raise ImportError(qualname)


def exc_name(e):
    t = type(e)
    if t.__module__ == "struct" or t.__name__ == "error" and "struct" in t.__module__:
        return "struct.error"
    return t.__name__


class _Recorder:
    def __init__(self, name, handler, attrs):
        self.__dict__["_calls"] = []
        self.__dict__["_handler"] = handler
        self.__dict__["_name"] = name
        self.__dict__.update(attrs)

    def __getattr__(self, n):
        if n.startswith("__"):
            raise AttributeError(n)

        def m(*a, **k):
            self._calls.append((n, a, k))
            return self._handler(n, a, k) if self._handler else None
        return m


class Ctx:
    def __init__(self, model, harness, case):
        self.model = model
        self.harness = harness
        self.case = case
        self.mode = "native"
        self.native = True
        self.results = []
        self.notes = []
        self.ghost = {}

    # ---- inputs come from the counter-model
    def int(self, name, lo=None, hi=None):
        v = self.model.get(name)
        if v is None:
            v = lo if lo is not None else 0
        if (lo is not None and v < lo) or (hi is not None and v > hi):
            raise ReplayPrecondition("%s=%r outside [%r,%r]" % (name, v, lo, hi))
        return v

    def bool(self, name):
        return bool(self.model.get(name, False))

    def bytes(self, name, length=None, min_len=0, max_len=None):
        v = self.model.get(name)
        b = bytes.fromhex(v["hex"]) if isinstance(v, dict) and "hex" in v else b""
        if length is not None:
            b = (b + bytes(length))[:length]
        if len(b) < min_len:
            b = b + bytes(min_len - len(b))
        return b

    def bytearray(self, name, **kw):
        return bytearray(self.bytes(name, **kw))

    def choice(self, name, options):
        return options[self.model.get(name, 0)]

    def encode_be(self, name, value, width, first_max=255):
        b = int(value).to_bytes(width, "big")
        if b[0] > first_max:
            raise ReplayPrecondition("encode_be first digit")
        return b

    def fill(self, value, length):
        return bytes([value]) * length

    def bytearray_of(self, b):
        return bytearray(b)

    def bytes_val(self, b):
        return bytes(b)

    def truth(self, v):
        return bool(v)

    def recorder(self, name, handler=None, **attrs):
        return _Recorder(name, handler, attrs)

    def calls(self, rec):
        return rec._calls

    def bytes_of(self, items):
        return bytes(items)

    def opaque(self, name):
        return _Opaque(name)

    def record(self, kind, **attrs):
        ns = {}
        if "__bytes__" in attrs:
            data = bytes(attrs.pop("__bytes__"))
            ns["__bytes__"] = lambda self: data
            ns["__len__"] = lambda self: len(data)
        cls = type("Record_" + kind.replace(".", "_"), (), ns)
        o = cls()
        o.__dict__.update(attrs)
        return o

    def obj(self, qualname, **attrs):
        cls = _resolve(qualname)
        o = cls.__new__(cls)
        for k, v in attrs.items():
            setattr(o, k, v)
        return o

    def enum(self, qualname, member):
        return getattr(_resolve(qualname), member)

    def const_of(self, qualname):
        return _resolve(qualname)

    def loop(self, *a, **k):
        pass

    # ---- assumptions / obligations
    def assume(self, cond):
        if not cond:
            raise ReplayPrecondition("assumption false under the model")

    def ensure(self, name, cond, kind="post"):
        self.results.append((self.harness.name + "." + name, bool(cond)))

    def cover(self, name):
        pass

    def raise_(self, cls):
        raise SpecRaise(cls)

    def prove(self, cond):
        return bool(cond)

    # ---- the real code
    def _run(self, thunk):
        import io
        import contextlib
        try:
            with contextlib.redirect_stdout(io.StringIO()):
                return Outcome(value=thunk())
        except ReplayPrecondition:
            raise
        except BaseException as e:  # SystemExit included
            import traceback
            self.notes.append(traceback.format_exc(limit=6))
            return Outcome(exc=exc_name(e), msg=str(e))

    def call(self, qualname, *args, **kwargs):
        f = _resolve(qualname)
        return self._run(lambda: f(*args, **kwargs))

    def new(self, qualname, *args, **kwargs):
        c = _resolve(qualname)
        return self._run(lambda: c(*args, **kwargs))

    def method(self, obj, name, *args, **kwargs):
        return self._run(lambda: getattr(obj, name)(*args, **kwargs))

    def spec(self, fn, *args, **kwargs):
        try:
            return Outcome(value=fn(self, *args, **kwargs))
        except SpecRaise as r:
            return Outcome(exc=r.cls)

    def get(self, obj, name, default=None):
        if default is None:
            return getattr(obj, name)
        return getattr(obj, name, default)

    def has(self, obj, name):
        return hasattr(obj, name)

    def isinstance(self, obj, qualname):
        return isinstance(obj, _resolve(qualname))

    def same_outcome(self, label, got, want, value_eq=eq):
        if want.exc is not None:
            self.ensure(label + ".raises", got.exc == want.exc, kind="raises")
        else:
            ok = got.exc is None
            self.ensure(label + ".no_raise", ok, kind="raises")
            if ok:
                self.ensure(label + ".value", value_eq(got.value, want.value), kind="post")


from .api import Outcome, SpecRaise  # noqa: E402
