"""native-mode implementation of the contract API: the same contract text, evaluated by CPython on
the REAL code (used to replay counter-models and as the CPython differential of the executor)."""
import importlib
import os
import sys

MODE = "native"
REPO = os.environ.get("TLEXPORT_REPO", "/repo")


def len_(x):
    return len(x)


def ite(c, a, b):
    return a if c else b


def const(b):
    return bytes(b)


def cat(*parts):
    return b"".join(bytes(p) for p in parts)


def be(b):
    return int.from_bytes(bytes(b), "big")


def eq(a, b):
    if isinstance(a, (bytes, bytearray)) and isinstance(b, (bytes, bytearray)):
        return bytes(a) == bytes(b)
    return a == b


def band(*xs):
    return all(xs)


def bor(*xs):
    return any(xs)


def bnot(x):
    return not x


def implies(a, b):
    return (not a) or b


def smin(a, b):
    return min(a, b)


def smax(a, b):
    return max(a, b)


def slice_(b, lo, hi):
    return b[lo:hi]


def is_none(x):
    return x is None


def is_slice_of(x, base):
    return bytes(x) in bytes(base)


def gen_from_pattern(pattern, rng):
    """a random string matching `pattern` (subset of re syntax used by the contracts)"""
    try:
        import re._parser as sp
    except Exception:
        import sre_parse as sp

    def gen(parsed):
        out = []
        for op, av in parsed:
            o = str(op)
            if o == "LITERAL":
                out.append(chr(av))
            elif o == "IN":
                chars = []
                neg = False
                for op2, av2 in av:
                    o2 = str(op2)
                    if o2 == "LITERAL":
                        chars.append(chr(av2))
                    elif o2 == "RANGE":
                        chars.extend(chr(x) for x in range(av2[0], av2[1] + 1))
                    elif o2 == "NEGATE":
                        neg = True
                    elif o2 == "CATEGORY":
                        chars.extend("0123456789")
                if neg:
                    chars = [chr(x) for x in range(33, 127) if chr(x) not in chars]
                out.append(rng.choice(chars))
            elif o == "ANY":
                out.append(chr(rng.randint(32, 126)))
            elif o == "SUBPATTERN":
                out.append(gen(av[3]))
            elif o == "BRANCH":
                out.append(gen(rng.choice(av[1])))
            elif o in ("MAX_REPEAT", "MIN_REPEAT"):
                lo, hi, sub = av
                hi = lo + 6 if str(hi) == "MAXREPEAT" else hi
                out.append("".join(gen(sub) for _ in range(rng.randint(lo, hi))))
        return "".join(out)
    return gen(sp.parse(pattern))


class ReplayPrecondition(Exception):
    pass


def _missing_attr_is_set_by_init(e):
    """AttributeError on obj.name where type(obj).__init__ (or a method it calls on self, one level) assigns self.name at top level"""
    import ast
    import inspect
    import textwrap
    obj, name = getattr(e, "obj", None), getattr(e, "name", None)
    if obj is None or name is None or isinstance(obj, type):
        return False
    cls = type(obj)
    if not getattr(cls, "__module__", "").startswith("tlexport"):
        return False

    def sets(fn, depth):
        try:
            tree = ast.parse(textwrap.dedent(inspect.getsource(fn)))
        except Exception:
            return set()
        out = set()
        for st in tree.body[0].body:
            for t in (st.targets if isinstance(st, ast.Assign) else [st.target] if isinstance(st, (ast.AnnAssign, ast.AugAssign)) else []):
                if isinstance(t, ast.Attribute) and isinstance(t.value, ast.Name) and t.value.id == "self":
                    out.add(t.attr)
            if depth == 0 and isinstance(st, ast.Expr) and isinstance(st.value, ast.Call) and isinstance(st.value.func, ast.Attribute) \
                    and isinstance(st.value.func.value, ast.Name) and st.value.func.value.id == "self":
                m = getattr(cls, st.value.func.attr, None)
                if m is not None:
                    out |= sets(m, 1)
        return out
    init = cls.__dict__.get("__init__") or getattr(cls, "__init__", None)
    return init is not None and name in sets(init, 0)


class Obj:  # placeholder so contracts can import the name
    pass


class _Opaque:
    def __init__(self, name):
        self.name = name

    def __repr__(self):
        return "<opaque %s>" % self.name


def _resolve(qualname):
    if REPO not in sys.path:
        sys.path.insert(0, REPO)
    parts = qualname.split(".")
    for cut in range(len(parts), 0, -1):
        try:
            m = importlib.import_module(".".join(parts[:cut]))
        except ImportError:
            continue
        v = m
        for p in parts[cut:]:
            v = getattr(v, p)
        return v
    raise ImportError(qualname)


def exc_name(e):
    t = type(e)
    if t.__module__ == "struct" or t.__name__ == "error" and "struct" in t.__module__:
        return "struct.error"
    return t.__name__


class _Recorder:
    def __init__(self, name, handler, attrs):
        self.__dict__["_calls"] = []
        self.__dict__["_handler"] = handler
        self.__dict__["_name"] = name
        self.__dict__.update(attrs)

    def __getattr__(self, n):
        if n.startswith("__"):
            raise AttributeError(n)

        def m(*a, **k):
            self._calls.append((n, a, k))
            return self._handler(n, a, k) if self._handler else None
        return m


class _NativeMake:
    """ctx facade inside a patched __init__: make_obj fills the object under construction"""

    def __init__(self, ctx, slf):
        self._ctx = ctx
        self._slf = slf

    def make_obj(self, cls, **attrs):
        for k, v in attrs.items():
            setattr(self._slf, k, v)
        return self._slf

    def __getattr__(self, n):
        return getattr(self._ctx, n)


class Ctx:
    def __init__(self, model, harness, case):
        self.model = model
        self.harness = harness
        self.case = case
        self.mode = "native"
        self.native = True
        self.results = []
        self.notes = []
        self.ghost = {}

    # ---- inputs come from the counter-model (or, in the follow-up search, are redrawn at random)
    fuzz = None

    def int(self, name, lo=None, hi=None):
        v = self.model.get(name)
        if self.fuzz is not None and self.fuzz.random() < 0.6:
            a = lo if lo is not None else -4
            b = hi if hi is not None else (a + 2 ** self.fuzz.choice([3, 8, 16, 33, 62]))
            r = self.fuzz.random()
            v = a if r < 0.1 else b if r < 0.2 else self.fuzz.randint(a, min(b, a + 300)) if r < 0.5 else self.fuzz.randint(a, b)
        if v is None:
            v = lo if lo is not None else 0
        if (lo is not None and v < lo) or (hi is not None and v > hi):
            raise ReplayPrecondition("%s=%r outside [%r,%r]" % (name, v, lo, hi))
        return v

    def bool(self, name):
        if self.fuzz is not None and self.fuzz.random() < 0.5:
            return self.fuzz.random() < 0.5
        return bool(self.model.get(name, False))

    def bytes(self, name, length=None, min_len=0, max_len=None):
        v = self.model.get(name)
        b = bytes.fromhex(v["hex"]) if isinstance(v, dict) and "hex" in v else b""
        if length is not None and length > 200000:
            raise ReplayPrecondition("byte string of length %d is too long to build natively" % length)
        if self.fuzz is not None and self.fuzz.random() < 0.6:
            n = length if length is not None else self.fuzz.randint(min_len, min(max_len if max_len is not None else min_len + 64, min_len + 64))
            b = self.fuzz.randbytes(n)
        if length is not None:
            b = (b + bytes(length))[:length]
        if len(b) < min_len:
            b = b + bytes(min_len - len(b))
        return b

    def bytearray(self, name, **kw):
        return bytearray(self.bytes(name, **kw))

    def choice(self, name, options):
        if self.fuzz is not None and self.fuzz.random() < 0.5:
            return self.fuzz.choice(options)
        return options[self.model.get(name, 0)]

    def encode_be(self, name, value, width, first_max=255):
        b = int(value).to_bytes(width, "big")
        if b[0] > first_max:
            raise ReplayPrecondition("encode_be first digit")
        return b

    def fill(self, value, length):
        if length > 200000:
            raise ReplayPrecondition("fill of length %d is too long to build natively" % length)
        return bytes([value]) * length

    def int_map(self, name):
        d = {}
        i = 0
        while "%s.q%d.key" % (name, i) in self.model:
            if self.model.get("%s.q%d.in" % (name, i)):
                d[self.model["%s.q%d.key" % (name, i)]] = self.model["%s.q%d.val" % (name, i)]
            i += 1
        if self.model.get(name + ".nonempty") and not d:
            d[70001] = 70002        # an entry that no query touched
        self._maps = getattr(self, "_maps", []) + [(d, dict(d))]
        return d

    def map_unmodified(self, m):
        return all(cur == orig for cur, orig in getattr(self, "_maps", []) if cur is m)

    def is_bool(self, v):
        return isinstance(v, bool)

    def map_has(self, m, k):
        return k in m

    def map_val(self, m, k):
        return m[k]

    def map_get(self, m, k, d):
        return m.get(k, d)

    def namespace(self, **attrs):
        import argparse
        return argparse.Namespace(**attrs)

    def decimal(self, v):
        return str(v)

    def dict_get(self, d, k):
        return d.get(k)

    def lib_model_raw(self, dotted, fn):
        pass

    def same_object(self, a, b):
        return a is b or (isinstance(a, (bool, int)) and a == b)

    def is_external(self, v, dotted):
        return v is _resolve(dotted)

    def truth_fork(self, cond):
        return bool(cond)

    def module_global(self, module, name):
        return getattr(_resolve(module), name)

    def lib_model(self, dotted, fn):
        import unittest.mock as um
        parts = dotted.rsplit(".", 1)
        mod = _resolve(parts[0])
        p = um.patch.object(mod, parts[1], fn)
        p.start()
        self._patches = getattr(self, "_patches", []) + [p]

    def summary_override(self, qualname, fn):
        import unittest.mock as um
        parts = qualname.rsplit(".", 1)
        owner = _resolve(parts[0])
        ctx = self
        if parts[1] == "__init__":
            def init(slf, *a, **k):
                fn(_NativeMake(ctx, slf), type(slf), *a, **k)
            p = um.patch.object(owner, "__init__", init)
        else:
            p = um.patch.object(owner, parts[1], lambda *a, **k: fn(ctx, *a, **k))
        p.start()
        self._patches = getattr(self, "_patches", []) + [p]

    def make_obj(self, cls, **attrs):
        o = cls.__new__(cls)
        for k, v in attrs.items():
            setattr(o, k, v)
        return o

    def hash_is(self, obj, name):
        return type(obj).__name__ == name

    def external(self, dotted):
        return _resolve(dotted)

    def lib(self, dotted, *args, **kw):
        return _resolve(dotted)(*args, **kw)

    def libmethod(self, obj, name, *args, **kw):
        return getattr(obj, name)(*args, **kw)

    def concrete(self, v):
        return v

    def ip_text(self, name, ipv6=False):
        import ipaddress
        b = self.bytes(name, length=16 if ipv6 else 4)
        return str(ipaddress.IPv6Address(b) if ipv6 else ipaddress.IPv4Address(b))

    def token_list(self, name, min_len=0):
        v = self.model.get(name)
        n = self.int(name + ".len", min_len, None)
        if self.fuzz is not None:
            n = min(n, 12)
        xs = [float(x) for x in (v or [])][:n]
        while len(xs) < n:
            xs.append(float(1000 + len(xs)))
        return xs

    def set(self, obj, name, v):
        setattr(obj, name, v)

    def appends_only(self, qualname, attr_text):
        return True

    def known_finding(self, fid):
        return False        # native replays never exclude a region: the witness must fail

    def regstr(self, name, pattern):
        v = self.model.get(name)
        if isinstance(v, str) and (self.fuzz is None or self.fuzz.random() < 0.3):
            return v
        import random
        return gen_from_pattern(pattern, self.fuzz or random.Random(len(name)))

    def text(self, *pieces):
        return "".join(str(p) for p in pieces)

    def new_set_of(self, items):
        return set(items)

    def new_set(self):
        return set()

    def set_add(self, s, v):
        s.add(bytes(v))

    def bytearray_of(self, b):
        return bytearray(b)

    def bytes_val(self, b):
        return bytes(b)

    def truth(self, v):
        return bool(v)

    def recorder(self, name, handler=None, **attrs):
        return _Recorder(name, handler, attrs)

    def calls(self, rec):
        return rec._calls

    def bytes_of(self, items):
        return bytes(items)

    def opaque(self, name):
        return _Opaque(name)

    def record(self, kind, **attrs):
        ns = {}
        if "__bytes__" in attrs:
            data = bytes(attrs.pop("__bytes__"))
            ns["__bytes__"] = lambda self: data
            ns["__len__"] = lambda self: len(data)
        cls = type("Record_" + kind.replace(".", "_"), (), ns)
        o = cls()
        o.__dict__.update(attrs)
        return o

    def obj(self, qualname, _bare=False, **attrs):
        from . import api
        mk = api.COMPLETERS.get(qualname)
        if mk is not None and not _bare and not getattr(self, "_completing", False):
            self._completing = True
            try:
                o = mk(self)
            finally:
                self._completing = False
        else:
            cls = _resolve(qualname)
            o = cls.__new__(cls)
        for k, v in attrs.items():
            setattr(o, k, v)
        return o

    def enum(self, qualname, member):
        return getattr(_resolve(qualname), member)

    def const_of(self, qualname):
        return _resolve(qualname)

    def loop(self, *a, **k):
        pass

    # ---- assumptions / obligations
    def assume(self, cond):
        if not cond:
            raise ReplayPrecondition("assumption false under the model")

    def ensure(self, name, cond, kind="post"):
        self.results.append((self.harness.name + "." + name, bool(cond)))

    def cover(self, name):
        pass

    def raise_(self, cls):
        raise SpecRaise(cls)

    def prove(self, cond):
        return bool(cond)

    # ---- the real code
    def _run(self, thunk):
        import io
        import contextlib
        try:
            with contextlib.redirect_stdout(io.StringIO()):
                return Outcome(value=thunk())
        except ReplayPrecondition:
            raise
        except BaseException as e:  # SystemExit included
            import traceback
            if isinstance(e, AttributeError) and _missing_attr_is_set_by_init(e):
                # the object was put together by the contract (bypassing __init__) and lacks an attribute the real constructor always
                # sets: the contract's state description is incomplete for this tree - not a failing input
                raise ReplayPrecondition("contract-built object lacks an attribute __init__ sets: %s" % e)
            self.notes.append(traceback.format_exc(limit=6))
            return Outcome(exc=exc_name(e), msg=str(e))

    def call(self, qualname, *args, **kwargs):
        f = _resolve(qualname)
        return self._run(lambda: f(*args, **kwargs))

    def new(self, qualname, *args, **kwargs):
        c = _resolve(qualname)
        return self._run(lambda: c(*args, **kwargs))

    def method(self, obj, name, *args, **kwargs):
        return self._run(lambda: getattr(obj, name)(*args, **kwargs))

    def spec(self, fn, *args, **kwargs):
        try:
            return Outcome(value=fn(self, *args, **kwargs))
        except SpecRaise as r:
            return Outcome(exc=r.cls)

    def get(self, obj, name, default=None):
        if default is None:
            return getattr(obj, name)
        return getattr(obj, name, default)

    def has(self, obj, name):
        return hasattr(obj, name)

    def isinstance(self, obj, qualname):
        return isinstance(obj, _resolve(qualname))

    def same_outcome(self, label, got, want, value_eq=eq):
        if want.exc is not None:
            self.ensure(label + ".raises", got.exc == want.exc, kind="raises")
        else:
            ok = got.exc is None
            self.ensure(label + ".no_raise", ok, kind="raises")
            if ok:
                self.ensure(label + ".value", value_eq(got.value, want.value), kind="post")


from .api import Outcome, SpecRaise  # noqa: E402
