"""regular languages: Python `re` patterns (subset) -> z3 RegLan; strings typed by regular languages.

A RegStr is a string about which exactly one thing is known: the regular language it belongs to.  Lines are
built as piece lists of literals and RegStr tokens; `re.compile(p).match(line)` is decided by language
inclusion in z3's regex theory (no string variables in the deciding query)."""
from . import core
from .core import Unsupported, PyExc

try:
    import re._parser as sre_parse      # 3.11+
except Exception:  # pragma: no cover
    import sre_parse


def _charset(items):
    z3 = core.z3
    alts = []
    neg = False
    for op, av in items:
        op = str(op)
        if op == "NEGATE":
            neg = True
        elif op == "LITERAL":
            alts.append(z3.Re(chr(av)))
        elif op == "RANGE":
            alts.append(z3.Range(chr(av[0]), chr(av[1])))
        elif op == "CATEGORY":
            c = str(av)
            if c.endswith("DIGIT"):
                alts.append(z3.Range("0", "9"))
            elif c.endswith("SPACE"):
                alts.append(z3.Union(z3.Re(" "), z3.Re("\t"), z3.Re("\n"), z3.Re("\r")))
            else:
                raise Unsupported("regex category %s" % c)
        else:
            raise Unsupported("regex set item %s" % op)
    r = alts[0] if len(alts) == 1 else z3.Union(*alts)
    if neg:
        r = z3.Intersect(z3.AllChar(z3.ReSort(z3.StringSort())), z3.Complement(r))
    return r


def _tr(parsed):
    z3 = core.z3
    seq = []
    for op, av in parsed:
        ops = str(op)
        if ops == "LITERAL":
            seq.append(z3.Re(chr(av)))
        elif ops == "ANY":
            seq.append(z3.Intersect(z3.AllChar(z3.ReSort(z3.StringSort())), z3.Complement(z3.Re("\n"))))
        elif ops == "IN":
            seq.append(_charset(av))
        elif ops == "SUBPATTERN":
            seq.append(_tr(av[3]))
        elif ops == "BRANCH":
            alts = [_tr(a) for a in av[1]]
            seq.append(z3.Union(*alts) if len(alts) > 1 else alts[0])
        elif ops in ("MAX_REPEAT", "MIN_REPEAT"):
            lo, hi, sub = av
            r = _tr(sub)
            if str(hi) == "MAXREPEAT":
                seq.append(z3.Star(r) if lo == 0 else z3.Plus(r) if lo == 1 else z3.Concat(z3.Loop(r, lo, lo), z3.Star(r)))
            else:
                seq.append(z3.Loop(r, lo, hi))
        elif ops == "AT":
            raise Unsupported("regex anchors")
        else:
            raise Unsupported("regex construct %s" % ops)
    if not seq:
        return z3.Re("")
    return seq[0] if len(seq) == 1 else z3.Concat(*seq)


def pattern_to_re(pattern):
    return _tr(sre_parse.parse(pattern))


def sigma_star():
    z3 = core.z3
    return z3.Full(z3.ReSort(z3.StringSort()))


_INC_CACHE = {}


def included(a, b, timeout_ms=10000):
    """L(a) subset of L(b)?  -> (True/False/None, witness string or None)"""
    key = (a.sexpr(), b.sexpr())
    if key in _INC_CACHE:
        return _INC_CACHE[key]
    r = _included(a, b, timeout_ms)
    _INC_CACHE[key] = r
    return r


def _included(a, b, timeout_ms):
    z3 = core.z3
    s = z3.Solver()
    s.set("timeout", timeout_ms)
    x = z3.String("x!re")
    s.add(z3.InRe(x, a), z3.Not(z3.InRe(x, b)))
    r = s.check()
    if r == z3.unsat:
        return True, None
    if r == z3.sat:
        return False, s.model()[x].as_string()
    return None, None


def nonempty(a, timeout_ms=10000):
    z3 = core.z3
    s = z3.Solver()
    s.set("timeout", timeout_ms)
    x = z3.String("x!re")
    s.add(z3.InRe(x, a))
    r = s.check()
    if r == z3.sat:
        return True, s.model()[x].as_string()
    if r == z3.unsat:
        return False, None
    return None, None


class RegStr:
    """an unknown string known to lie in a regular language"""

    def __init__(self, name, lang, pattern=None):
        self.name = name
        self.lang = lang
        self.pattern = pattern

    def __repr__(self):
        return "RegStr(%s)" % self.name

    # --- hex tokens: the bytes they spell (uninterpreted), case handling
    def _is_hex(self):
        z3 = core.z3
        hexpair = z3.Loop(z3.Union(z3.Range("0", "9"), z3.Range("a", "f"), z3.Range("A", "F")), 2, 2)
        ok, _ = included(self.lang, z3.Star(hexpair))
        return ok is True

    def pyvc_fromhex(self, I):
        from .cryptomodel import BApp
        if not self._is_hex():
            if core.CUR.choose(2) == 0:
                raise PyExc("ValueError", "non-hexadecimal number found in fromhex() arg")
        n = getattr(self, "_nbytes", None)
        if n is None:
            z3 = core.z3
            hexd = z3.Union(z3.Range("0", "9"), z3.Range("a", "f"), z3.Range("A", "F"))
            for k in (32, 48, 16, 20, 64):
                ok, _ = included(self.lang, z3.Loop(hexd, 2 * k, 2 * k))
                if ok is True:
                    n = k
                    break
            if n is None:
                v = core.CUR.fresh_int("hexlen")
                core.CUR.add(core.z3.And(v >= 0, v < 2 ** 40))      # every byte string is shorter than 2^53 (DESIGN 3.2)
                n = core.SymInt(v)
            self._nbytes = n
        return BApp("fromhex", ["token:" + self.name + ":" + str(id(self))], n)

    def is_lower(self):
        if not hasattr(self, "_lower"):
            z3 = core.z3
            ok, _ = included(self.lang, z3.Star(z3.Union(z3.Range("0", "9"), z3.Range("a", "f"))))
            self._lower = True if ok is True else core.SymBool(z3.Bool(core.CUR.fresh_name("is_lower_" + self.name)))
        return self._lower

    def pyvc_getattr(self, I, name):
        from .interp import Builtin
        if name == "lower":
            return Builtin("str.lower", lambda I: LowerStr(self))
        if name == "split":
            from .strings import PieceStr
            return PieceStr([self]).pyvc_getattr(I, "split")
        raise Unsupported("method %s on a regular-language string" % name)

    def pyvc_eq(self, I, o):
        from .models import HexStr
        if o is self:
            return True
        if isinstance(o, HexStr):     # raw comparison with x.hex(): equal iff same bytes AND self is lower-case
            return core.band(core.bytes_eq(self.pyvc_fromhex(I), o.b), self.is_lower())
        if isinstance(o, str):
            ok, _ = nonempty(core.z3.Intersect(self.lang, core.z3.Re(o)))
            if ok is False:
                return False
        raise Unsupported("equality of a regular-language string with %s" % type(o).__name__)


class LowerStr:
    def __init__(self, src):
        self.src = src

    def pyvc_eq(self, I, o):
        from .models import HexStr
        if isinstance(o, HexStr):     # hex() is lower-case already: equal iff they spell the same bytes
            return core.bytes_eq(self.src.pyvc_fromhex(I), o.b)
        raise Unsupported("equality of lower-cased string with %s" % type(o).__name__)

    def pyvc_getattr(self, I, name):
        from .interp import Builtin
        if name == "lower":
            return Builtin("str.lower", lambda I: self)
        raise Unsupported("method %s on lower-cased string" % name)


def lang_of(x):
    z3 = core.z3
    from .strings import PieceStr, IntPiece
    if isinstance(x, str):
        return z3.Re(x)
    if isinstance(x, RegStr):
        return x.lang
    if isinstance(x, PieceStr):
        parts = []
        for p in x.parts:
            if isinstance(p, IntPiece):
                parts.append(z3.Plus(z3.Range("0", "9")))
            else:
                parts.append(lang_of(p))
        return parts[0] if len(parts) == 1 else z3.Concat(*parts) if parts else z3.Re("")
    raise Unsupported("language of %s" % type(x).__name__)


class PatternObj:
    def __init__(self, pattern):
        self.pattern = pattern
        self.re = pattern_to_re(pattern)

    def pyvc_getattr(self, I, name):
        from .interp import Builtin
        if name == "match":
            return Builtin("Pattern.match", self.match)
        if name in ("fullmatch", "search"):
            raise Unsupported("re.%s" % name)
        raise PyExc("AttributeError", name)

    def match(self, I, line):
        z3 = core.z3
        if isinstance(line, str):
            import re
            return MatchObj() if re.compile(self.pattern).match(line) else None
        L = lang_of(line)
        P = z3.Concat(self.re, sigma_star())       # match() anchors at the start only
        inc, w = included(L, P)
        if inc is True:
            return MatchObj()
        dis, w2 = nonempty(z3.Intersect(L, P))
        if dis is False:
            return None
        if inc is None or dis is None:
            raise Unsupported("regex inclusion undecided by z3")
        # some strings of the language match and some do not: split, refining the language on each side
        E = core.CUR
        k = E.choose(2)
        E.declare("regex.witness", "choice", {"matches": w2, "does_not_match": w}["matches" if k == 0 else "does_not_match"])
        if k == 0:
            refine(line, z3.Intersect(L, P))
            return MatchObj()
        refine(line, z3.Intersect(L, z3.Complement(P)))
        return None


def refine(line, lang):
    from .strings import PieceStr
    if isinstance(line, RegStr):
        line.lang = lang
    elif isinstance(line, PieceStr) and len(line.parts) == 1 and isinstance(line.parts[0], RegStr):
        line.parts[0].lang = lang


class MatchObj:
    def pyvc_truth(self, I):
        return True


def install(I):
    I.models["re.compile"] = lambda I, pattern, flags=0: PatternObj(pattern)
