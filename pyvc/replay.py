"""native replay of a counter-model:  /venv/bin/python -m pyvc.replay <replay.json>

Runs the SAME contract text in native mode: inputs come from the model, ctx.call runs the real
function under CPython, ctx.ensure evaluates the clause concretely.  Prints one JSON line."""
import json
import os
import sys

os.environ["PYVC_NATIVE"] = "1"


def main(path):
    here = os.path.dirname(os.path.dirname(os.path.abspath(__file__)))
    sys.path.insert(0, here)
    with open(path) as f:
        rp = json.load(f)
    os.environ.setdefault("TLEXPORT_REPO", rp.get("repo", "/repo"))
    import importlib
    from pyvc import api
    from pyvc.native_ops import Ctx, ReplayPrecondition
    for m in rp["contract_modules"]:
        importlib.import_module("contracts." + m)
    if rp.get("native_search"):
        ns = rp["native_search"]
        os.environ["VERIF_SEED"] = str(ns["seed"])
        import io, contextlib
        buf = io.StringIO()
        with contextlib.redirect_stdout(buf):
            fuzz(",".join(rp["contract_modules"]), rp["harness"], ns["trials"], ns["seed"], exact=True)
        doc = json.loads(buf.getvalue().strip().splitlines()[-1])
        print(json.dumps({"reproduced": bool(doc["failed"]), "failed_clauses": sorted(doc["failed"]), "obligation": rp["obligation"],
                          "how": "seeded native search re-run (%d trials, seed %d)" % (ns["trials"], ns["seed"]), "first_failing_trial": doc.get("first_failing_trial")}))
        return 0
    hs = [h for h in api.REGISTRY["harness"] if h.name == rp["harness"]]
    if not hs:
        print(json.dumps({"reproduced": False, "error": "harness not found"}))
        return 3
    h = hs[0]
    case = h.cases[rp["case_index"]]
    ctx = Ctx(rp.get("model") or {}, h, case)
    out = {"reproduced": False, "obligation": rp["obligation"]}

    def attempt(ctx):
        try:
            h.fn(ctx, *case)
        except ReplayPrecondition as e:
            out.setdefault("precondition_failed", str(e))
        except api.SpecRaise as e:
            out["error"] = "spec raised %s outside ctx.spec" % e.cls
        except Exception:
            import traceback
            out["error"] = traceback.format_exc()
        finally:
            for p in getattr(ctx, "_patches", []):
                try:
                    p.stop()
                except Exception:
                    pass
        return [n for n, ok in ctx.results if not ok]

    failed = attempt(ctx)
    if not failed:
        # follow-up search seeded from the model: uninterpreted functions (xor, crypto) in the VC mean the
        # model's bytes need not be the failing ones; redraw part of the inputs at random (VERIF_SEED)
        import random
        rng = random.Random(int(os.environ.get("VERIF_SEED", "0") or 0))
        trials = int(os.environ.get("PYVC_FOLLOWUP", "300"))
        for t in range(trials):
            c2 = Ctx(rp.get("model") or {}, h, case)
            c2.fuzz = rng
            f2 = attempt(c2)
            if f2:
                failed = f2
                ctx = c2
                out["found_by_followup_trial"] = t
                break
    out["failed_clauses"] = failed
    out["clauses_evaluated"] = len(ctx.results)
    # the refuted clause itself fails natively, or (loop / call-site obligations have no native counterpart)
    # another clause of the same contract fails on the model's input
    out["reproduced"] = bool(failed)
    out["same_clause_failed"] = rp["obligation"] in failed
    out["native_notes"] = ctx.notes[-2:]
    print(json.dumps(out))
    return 0


def fuzz(mods, hname, trials, seed, exact=False):
    """CPython differential: the contract text evaluated natively on random inputs (must hold on the tree)"""
    here = os.path.dirname(os.path.dirname(os.path.abspath(__file__)))
    sys.path.insert(0, here)
    import importlib
    import random
    from pyvc import api
    from pyvc.native_ops import Ctx, ReplayPrecondition
    for m in mods.split(","):
        importlib.import_module("contracts." + m)
    rng = random.Random(seed)
    res = {"harness": hname, "runs": 0, "skipped": 0, "clauses": 0, "failed": {}, "errors": []}
    for h in api.REGISTRY["harness"]:
        if hname.startswith("@"):
            if hname[1:] not in h.prop:
                continue
        elif (hname != h.name) if exact else (hname not in h.name):
            continue
        for t in range(trials):
            case = h.cases[t % len(h.cases)]
            ctx = Ctx({}, h, case)
            ctx.fuzz = rng
            try:
                h.fn(ctx, *case)
                res["runs"] += 1
            except ReplayPrecondition:
                res["skipped"] += 1
            except Exception:
                import traceback
                res["errors"].append(traceback.format_exc()[-600:])
            finally:
                for p in getattr(ctx, "_patches", []):
                    try:
                        p.stop()
                    except Exception:
                        pass
            res["clauses"] += len(ctx.results)
            for n, ok in ctx.results:
                if not ok:
                    res["failed"][n] = res["failed"].get(n, 0) + 1
                    res.setdefault("first_failing_trial", {}).setdefault(n, {"trial": t, "case": repr(case), "notes": [str(x)[:300] for x in ctx.notes[-2:]]})
    res["errors"] = res["errors"][:3]
    print(json.dumps(res))
    return 0


if __name__ == "__main__":
    if sys.argv[1] == "--fuzz":
        sys.exit(fuzz(sys.argv[2], sys.argv[3], int(sys.argv[4]), int(os.environ.get("VERIF_SEED", "0") or 0)))
    if sys.argv[1] == "--fuzz-exact":
        sys.exit(fuzz(sys.argv[2], sys.argv[3], int(sys.argv[4]), int(os.environ.get("VERIF_SEED", "0") or 0), exact=True))
    sys.exit(main(sys.argv[1]))
