"""explores all paths of a harness case, discharges its obligations, aggregates results"""
import importlib
import os
import sys
import time
import traceback

from . import core
from .core import Engine, PathAbort, Unsupported, PyExc
from .interp import Interp, LoopSpec
from .frontend import Program
from . import api

_PROGRAM = None


def program():
    global _PROGRAM
    if _PROGRAM is None:
        _PROGRAM = Program()
    return _PROGRAM


def load_contracts(names):
    here = os.path.dirname(os.path.dirname(os.path.abspath(__file__)))
    if here not in sys.path:
        sys.path.insert(0, here)
    for n in names:
        importlib.import_module("contracts." + n)


def fresh_interp(ctx_holder, harness):
    prog = program()
    for m in prog.modules.values():
        m.globals = {}
        m.initialised = False
    I = Interp(prog)
    for q, fn in api.REGISTRY["summary"].items():
        if q in harness.inline:
            continue
        I.summaries[q] = _wrap_summary(ctx_holder, fn)
    for q, specs in api.REGISTRY["loops"].items():
        I.loops[q] = [LoopSpec(**s) for s in specs]
    for k, fn in api.REGISTRY["models"].items():
        I.models[k] = fn
    I.inline = set(harness.inline)
    return I


def _wrap_summary(holder, fn):
    def call(interp, *a, **k):
        try:
            return fn(holder[0], *a, **k)
        except api.SpecRaise as r:
            raise PyExc(r.cls, "raised by the callee's contract")
    return call


def _stale_loop_contracts(I):
    """loop contracts of functions this path executed whose anchor text is the head of no loop statement of the function's current source"""
    import ast
    out = []
    for q, specs in I.loops.items():
        if q not in I.functions_executed or (q not in I.unrolled_in_contract_fn and not I.uncontracted_loops_executed):
            continue            # (a contract whose loop is simply gone leaves straight-line code - no loop ran anywhere without a contract,
                                #  e.g. the loop was replaced by a library call: obligations on it stand; if the loop MOVED into a helper, the
                                #  helper's loop ran without the contract's ghost bookkeeping and they do not)
        try:
            node = I.resolve(q).node
        except Exception:
            continue
        heads = [ast.unparse(n).split("\n")[0] for n in ast.walk(node) if isinstance(n, (ast.For, ast.While))]
        for sp in specs:
            if not any(h.startswith(sp.anchor) for h in heads):
                out.append("%s [%s]" % (q.split(".")[-1], sp.anchor))
    return sorted(set(out))


def run_case(harness, case, timeout_ms=10000, max_paths=20000, want_smt2=False, deadline=None):
    """returns a result dict (picklable)"""
    t0 = time.time()
    work = [[]]
    res = {"harness": harness.name, "case": repr(case), "paths": 0, "obligations": [], "undecided": [],
           "covers": {}, "solver_time": 0.0, "solver_calls": 0, "summaries": set(), "externals": set(),
           "executed": set(), "errors": [], "aborted_paths": 0}
    samples = 0
    while work:
        prefix = work.pop()
        if res["paths"] >= max_paths:
            res["undecided"].append({"reason": "path budget %d exhausted" % max_paths})
            break
        if deadline is not None and time.time() > deadline:
            res["undecided"].append({"reason": "time budget exhausted after %d paths" % res["paths"]})
            break
        eng = Engine(prefix, timeout_ms=timeout_ms, want_smt2=want_smt2 and samples < 2)
        core.CUR = eng
        holder = [None]
        I = fresh_interp(holder, harness)
        ctx = api.Ctx(I, eng, harness, case)
        holder[0] = ctx
        res["paths"] += 1
        try:
            harness.fn(ctx, *case)
        except PathAbort:
            res["aborted_paths"] += 1
        except Unsupported as u:
            res["undecided"].append({"reason": "unsupported: %s" % (u,), "trace_len": len(eng.trace)})
        except api.SpecRaise as r:
            res["errors"].append("contract raised %s outside ctx.spec()" % r.cls)
        except PyExc as e:
            res["errors"].append("uncaught PyExc in contract code: %r" % (e,))
        except RecursionError:
            res["undecided"].append({"reason": "recursion limit"})
        except Exception:
            res["errors"].append(traceback.format_exc())
        stale = _stale_loop_contracts(I) + ["cut widened by writes of called methods: " + x for x in sorted(I.loop_cuts_widened)]
        if stale and any(ob.verdict == "refuted" for ob in eng.obligations):
            # a loop contract whose loop was rewritten is not applied: the loop is unrolled from its entry state WITHOUT the ghost facts the
            # contract instantiates at the loop head, so a failed obligation on such a path is no counterexample - the path is undecided
            res["undecided"].append({"reason": "unsupported: loop contract %s no longer fits the current source (loop rewritten?); %d failed obligation(s) of this "
                                               "path are not counterexamples" % ("; ".join(stale), sum(ob.verdict == "refuted" for ob in eng.obligations))})
        for ob in eng.obligations:
            if stale and ob.verdict == "refuted":
                continue
            d = ob.as_dict()
            d["path"] = res["paths"]
            if ob.verdict == "refuted":
                d["trace"] = [list(x) if isinstance(x, tuple) else x for x in eng.trace]
            res["obligations"].append(d)
            if ob.smt2:
                samples += 1
        for c in eng.covers:
            res["covers"][c] = res["covers"].get(c, 0) + 1
        res["solver_time"] += eng.solver_time
        res["solver_calls"] += eng.solver_calls
        res["summaries"] |= I.used_summaries
        res["externals"] |= I.used_externals
        res["executed"] |= I.functions_executed
        work.extend(eng.pending)
        core.CUR = None
    res["wall"] = time.time() - t0
    res["summaries"] = sorted(res["summaries"])
    res["externals"] = sorted(res["externals"])
    res["executed"] = sorted(res["executed"])
    return res


def _job(args):
    hidx, cidx, opts = args
    h = api.REGISTRY["harness"][hidx]
    try:
        sys.setrecursionlimit(10000)
        budget = opts.pop("case_budget_s", None)
        if budget:
            opts["deadline"] = time.time() + budget      # a case that explodes (typical on a broken tree) ends as UNDECIDED, not as a hang
        return hidx, cidx, run_case(h, h.cases[cidx], **opts)
    except Exception:
        return hidx, cidx, {"harness": h.name, "case": repr(h.cases[cidx]), "paths": 0, "obligations": [],
                            "undecided": [], "covers": {}, "solver_time": 0, "solver_calls": 0, "summaries": [],
                            "externals": [], "executed": [], "errors": [traceback.format_exc()], "wall": 0,
                            "aborted_paths": 0}


def run_property(prop, tier="quick", jobs=None, only=None, timeout_ms=None):
    import multiprocessing as mp
    hs = [(i, h) for i, h in enumerate(api.REGISTRY["harness"]) if prop in h.prop]
    if tier == "quick":
        hs = [(i, h) for i, h in hs if h.tier == "quick"]
    if only:
        hs = [(i, h) for i, h in hs if only in h.name]
    tasks = []
    for i, h in hs:
        for c in range(len(h.cases)):
            t = timeout_ms or (h.timeout or (10000 if tier == "quick" else 60000))
            tasks.append((i, c, {"timeout_ms": t, "want_smt2": True, "case_budget_s": 240 if tier == "quick" else 1800}))
    jobs = jobs or min(16, max(1, len(tasks)))
    results = []
    if jobs == 1 or len(tasks) <= 1:
        for t in tasks:
            results.append(_job(t))
    else:
        ctxm = mp.get_context("fork")
        with ctxm.Pool(jobs, maxtasksperchild=1) as pool:      # every case in a fresh process: its verdict and running time do not depend on what the worker ran before
            for r in pool.imap_unordered(_job, tasks, chunksize=1):
                results.append(r)
        # a case that ran out of its wall budget WITHOUT any failed obligation gets one more run, each in a fresh process (the solver's
        # running time on identical queries varies by orders of magnitude with the state of a long-lived worker; a verdict must not)
        slow = [k for k, (hi, ci, r) in enumerate(results) if any("time budget exhausted" in u.get("reason", "") for u in r["undecided"])
                and not any(o["verdict"] == "refuted" for o in r["obligations"])][:6]
        if slow:
            by_key = {(t[0], t[1]): t for t in tasks}
            with ctxm.Pool(min(len(slow), jobs), maxtasksperchild=1) as pool:
                again = pool.map(_job, [by_key[(results[k][0], results[k][1])] for k in slow], chunksize=1)
            for k, r2 in zip(slow, again):
                if not any("time budget exhausted" in u.get("reason", "") for u in r2[2]["undecided"]):
                    r2[2].setdefault("notes", []).append("second run in a fresh process after the first exhausted its wall budget")
                    results[k] = r2
    return hs, results
