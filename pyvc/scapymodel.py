"""assumed record model of scapy layers: a packet is the list of its layers with exactly the fields the
code set.  Assumed (DESIGN 3.5): on bytes() scapy fills in every length/checksum field that was not set,
and str / str.encode() spellings of an address denote the same address."""
from . import core
from .core import Unsupported, PyExc, to_bytes_val, is_byteslike
from .interp import Obj

LAYERS = {
    "scapy.layers.l2.Ether": ("Ether", {"src", "dst", "type"}),
    "scapy.layers.inet.IP": ("IP", {"src", "dst", "ttl", "id", "flags", "tos", "proto", "len", "chksum", "ihl", "version", "frag", "options"}),
    "scapy.layers.inet6.IPv6": ("IPv6", {"src", "dst", "hlim", "fl", "tc", "nh", "plen", "version"}),
    "scapy.layers.inet.TCP": ("TCP", {"sport", "dport", "seq", "ack", "flags", "window", "dataofs", "chksum", "urgptr", "options", "reserved"}),
    "scapy.layers.inet.UDP": ("UDP", {"sport", "dport", "len", "chksum"}),
    "scapy.packet.Raw": ("Raw", {"load"}),
}


def install(I):
    for dotted, (name, fields) in LAYERS.items():
        I.models[dotted] = _mk(name, fields)
    I.models["scapy.pkt.__truediv__"] = _div
    I.models["scapy.pkt.__bytes__"] = _bytes


def _mk(name, fields):
    def ctor(I, *a, **kw):
        if name == "Raw" and len(a) == 1 and not kw:
            kw = {"load": a[0]}
            a = ()
        if a:
            raise Unsupported("positional arguments to scapy layer %s" % name)
        for k in kw:
            if k not in fields:
                raise PyExc("AttributeError", "%s has no field %s" % (name, k))
        return Obj(None, {"layers": [(name, dict(kw))]}, kind="scapy.pkt")
    return ctor


def _div(I, a, b):
    if isinstance(b, Obj) and b.kind == "scapy.pkt":
        return Obj(None, {"layers": a.attrs["layers"] + b.attrs["layers"]}, kind="scapy.pkt")
    if is_byteslike(b):
        return Obj(None, {"layers": a.attrs["layers"] + [("Raw", {"load": to_bytes_val(b)})]}, kind="scapy.pkt")
    raise Unsupported("scapy layer / %s" % type(b).__name__)


def _bytes(I, o):
    from .cryptomodel import BApp
    n = core.CUR.fresh_int("framelen")
    core.CUR.add(n >= 14)
    return BApp("scapy.build", [repr([(nm, sorted(f)) for nm, f in o.attrs["layers"]]), id(o)], core.SymInt(n))
