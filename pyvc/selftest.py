"""engine self-test run by setup.sh: the varint contract must verify on the real source, and an
in-memory mutant of the same source (mask 0x3f -> 0x1f) must be refuted with a model."""
import os
import shutil
import sys
import tempfile


def run(repo):
    os.environ["TLEXPORT_REPO"] = repo
    import importlib
    from pyvc import frontend, runner, api
    frontend.REPO = repo
    runner._PROGRAM = None
    if not api.REGISTRY["harness"]:
        runner.load_contracts(["quic_varint"])
    h = [h for h in api.REGISTRY["harness"] if h.name == "varint.decode"][0]
    r = runner.run_case(h, ())
    return r


def main():
    base = os.environ.get("TLEXPORT_REPO", "/repo")
    r = run(base)
    bad = [o for o in r["obligations"] if o["verdict"] != "discharged"]
    if bad or not r["obligations"] or r["undecided"] or r["errors"]:
        print("selftest: varint.decode does not verify on the tree:", bad[:2], r["undecided"][:2], r["errors"][:1])
        return 1
    d = tempfile.mkdtemp(prefix="tlx-selftest-")
    try:
        shutil.copytree(os.path.join(base, "tlexport"), os.path.join(d, "tlexport"))
        p = os.path.join(d, "tlexport/quic/quic_decode.py")
        s = open(p).read()
        if "v = v & 0x3f" in s:
            open(p, "w").write(s.replace("v = v & 0x3f", "v = v & 0x1f"))
            r2 = run(d)
            if not any(o["verdict"] == "refuted" and o.get("model") for o in r2["obligations"]):
                print("selftest: canary mutant was NOT refuted - engine unsound")
                return 1
        else:
            print("selftest: canary anchor not present (source changed); canary skipped")
    finally:
        shutil.rmtree(d, ignore_errors=True)
    print("selftest ok: %d obligations discharged, canary refuted" % len(r["obligations"]))
    return 0


if __name__ == "__main__":
    sys.exit(main())
