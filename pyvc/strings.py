"""symbolic strings as piece lists: literal pieces and decimal renderings of non-negative integers.
Enough for 'a:b' port maps, struct format strings built by concatenation, and int(x) of an argument."""
from . import core
from .core import Unsupported, PyExc, SymInt


class IntPiece:
    def __init__(self, v):
        self.v = v      # non-negative int | SymInt; text = decimal digits (never contains ':' ',' ' ')

    def __repr__(self):
        return "<%r>" % (self.v,)


class PieceStr:
    def __init__(self, parts):
        out = []
        flat = []
        for p in parts:
            if isinstance(p, PieceStr):
                flat.extend(p.parts)
            else:
                flat.append(p)
        for p in flat:
            if isinstance(p, str):
                if p == "":
                    continue
                if out and isinstance(out[-1], str):
                    out[-1] += p
                    continue
            out.append(p)
        self.parts = out

    def __repr__(self):
        return "PieceStr(%r)" % (self.parts,)

    def concrete(self):
        if all(isinstance(p, str) or (isinstance(p, IntPiece) and isinstance(p.v, int)) for p in self.parts):
            return "".join(p if isinstance(p, str) else str(p.v) for p in self.parts)
        return None

    def __add__(self, o):
        return self.pyvc_binop(None, "Add", o, False)

    def __radd__(self, o):
        return self.pyvc_binop(None, "Add", o, True)

    # --- protocol used by the interpreter
    def pyvc_int(self, I, base=None):
        c = self.concrete()
        if c is not None:
            try:
                return int(c)
            except ValueError as e:
                raise PyExc("ValueError", str(e))
        if len(self.parts) == 1 and isinstance(self.parts[0], IntPiece):
            return self.parts[0].v
        raise Unsupported("int() of a mixed symbolic string")

    def pyvc_str(self, I):
        return self

    def pyvc_eq(self, I, o):
        from .regex import RegStr, lang_of, nonempty
        if isinstance(o, RegStr):
            o = PieceStr([o])
        if isinstance(o, PieceStr):
            if len(o.parts) == len(self.parts) and all((a is b) or (isinstance(a, str) and a == b) for a, b in zip(self.parts, o.parts)):
                return True
            ok, _ = nonempty(core.z3.Intersect(lang_of(self), lang_of(o)))
            if ok is False:
                return False
            return core.CUR.choose(2) == 0        # two unrelated strings of overlapping languages may or may not be equal
        if isinstance(o, str):
            c = self.concrete()
            if c is not None:
                return c == o
            if len(self.parts) == 1 and isinstance(self.parts[0], IntPiece) and o.isdigit() and (o == "0" or o[0] != "0"):
                return core.cmp_num("==", self.parts[0].v, int(o))
            if not any(ch.isdigit() for ch in o):
                return False
        raise Unsupported("equality of symbolic strings")

    def pyvc_binop(self, I, op, other, reflected):
        if op != "Add":
            raise Unsupported("operator %s on symbolic string" % op)
        from .regex import RegStr
        o = other.parts if isinstance(other, PieceStr) else [other]
        if not all(isinstance(x, (str, IntPiece, RegStr)) for x in o):
            raise Unsupported("concatenation of symbolic string with %s" % type(other).__name__)
        return PieceStr(o + self.parts if reflected else self.parts + o)

    def pyvc_getattr(self, I, name):
        from .interp import Builtin
        if name == "replace":
            def rep(I, a, b):
                if not (isinstance(a, str) and isinstance(b, str)) or any(ch.isdigit() for ch in a):
                    raise Unsupported("replace on symbolic string")
                from .regex import RegStr, included, lang_of
                z3 = core.z3
                for p in self.parts:
                    if isinstance(p, RegStr):       # a token is unaffected only if none of its strings contains `a`
                        ok, _ = included(p.lang, z3.Complement(z3.Concat(z3.Full(z3.ReSort(z3.StringSort())), z3.Re(a), z3.Full(z3.ReSort(z3.StringSort())))))
                        if ok is not True:
                            raise Unsupported("replace(%r) on a token that may contain it" % a)
                return PieceStr([p.replace(a, b) if isinstance(p, str) else p for p in self.parts])
            return Builtin("str.replace", rep)
        if name == "split":
            def split(I, sep=None):
                if not isinstance(sep, str) or len(sep) != 1 or sep.isdigit():
                    raise Unsupported("split on symbolic string")
                from .regex import RegStr, included
                z3 = core.z3
                full = z3.Full(z3.ReSort(z3.StringSort()))
                groups, cur = [], []
                for p in self.parts:
                    if isinstance(p, RegStr):
                        ok, _ = included(p.lang, z3.Complement(z3.Concat(full, z3.Re(sep), full)))
                        if ok is not True:
                            return _split_unknown(self, sep)
                    if isinstance(p, str):
                        bits = p.split(sep)
                        cur.append(bits[0])
                        for b in bits[1:]:
                            groups.append(cur)
                            cur = [b]
                    else:
                        cur.append(p)
                groups.append(cur)
                res = []
                for g in groups:
                    ps = PieceStr(g)
                    c = ps.concrete()
                    if c is None and len(ps.parts) == 1 and not isinstance(ps.parts[0], (str, IntPiece)):
                        res.append(ps.parts[0])
                    else:
                        res.append(c if c is not None else ps)
                return res
            return Builtin("str.split", split)
        if name in ("strip", "lower", "upper"):
            return Builtin("str." + name, lambda I: self)
        raise Unsupported("method %s on symbolic string" % name)


class _SplitUnknown:
    """split() of a string whose separator positions are not structurally known: the number of fields is at
    least 1 + (number of separators every string of the language is guaranteed to contain)"""

    def __init__(self, src, sep):
        from .regex import included, lang_of
        z3 = core.z3
        full = z3.Full(z3.ReSort(z3.StringSort()))
        L = lang_of(src)
        self.min_fields = 1
        need = full
        for k in range(1, 6):
            need = z3.Concat(need, z3.Re(sep), full)
            ok, _ = included(L, need)
            if ok is True:
                self.min_fields = k + 1
            else:
                break

    def pyvc_getitem(self, I, k):
        from .regex import RegStr
        if not isinstance(k, int) or k < 0:
            raise Unsupported("index into split() of an unstructured string")
        if k < self.min_fields:
            return RegStr("field%d" % k, core.z3.Full(core.z3.ReSort(core.z3.StringSort())))
        if core.CUR.choose(2) == 0:
            raise PyExc("IndexError", "list index out of range")
        return RegStr("field%d" % k, core.z3.Full(core.z3.ReSort(core.z3.StringSort())))

    def pyvc_len(self, I):
        raise Unsupported("len of split() of an unstructured string")


def _split_unknown(src, sep):
    return _SplitUnknown(src, sep)
