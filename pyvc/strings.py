"""symbolic strings as piece lists: literal pieces and decimal renderings of non-negative integers.
Enough for 'a:b' port maps, struct format strings built by concatenation, and int(x) of an argument."""
from . import core
from .core import Unsupported, PyExc, SymInt


class IntPiece:
    def __init__(self, v):
        self.v = v      # non-negative int | SymInt; text = decimal digits (never contains ':' ',' ' ')

    def __repr__(self):
        return "<%r>" % (self.v,)


class PieceStr:
    def __init__(self, parts):
        out = []
        for p in parts:
            if isinstance(p, str):
                if p == "":
                    continue
                if out and isinstance(out[-1], str):
                    out[-1] += p
                    continue
            out.append(p)
        self.parts = out

    def __repr__(self):
        return "PieceStr(%r)" % (self.parts,)

    def concrete(self):
        if all(isinstance(p, str) or isinstance(p.v, int) for p in self.parts):
            return "".join(p if isinstance(p, str) else str(p.v) for p in self.parts)
        return None

    def __add__(self, o):
        return self.pyvc_binop(None, "Add", o, False)

    def __radd__(self, o):
        return self.pyvc_binop(None, "Add", o, True)

    # --- protocol used by the interpreter
    def pyvc_int(self, I, base=None):
        c = self.concrete()
        if c is not None:
            try:
                return int(c)
            except ValueError as e:
                raise PyExc("ValueError", str(e))
        if len(self.parts) == 1 and isinstance(self.parts[0], IntPiece):
            return self.parts[0].v
        raise Unsupported("int() of a mixed symbolic string")

    def pyvc_str(self, I):
        return self

    def pyvc_eq(self, I, o):
        if isinstance(o, str):
            c = self.concrete()
            if c is not None:
                return c == o
            if len(self.parts) == 1 and isinstance(self.parts[0], IntPiece) and o.isdigit() and (o == "0" or o[0] != "0"):
                return core.cmp_num("==", self.parts[0].v, int(o))
            if not any(ch.isdigit() for ch in o):
                return False
        raise Unsupported("equality of symbolic strings")

    def pyvc_binop(self, I, op, other, reflected):
        if op != "Add":
            raise Unsupported("operator %s on symbolic string" % op)
        o = other.parts if isinstance(other, PieceStr) else [other]
        if not all(isinstance(x, (str, IntPiece)) for x in o):
            raise Unsupported("concatenation of symbolic string with %s" % type(other).__name__)
        return PieceStr(o + self.parts if reflected else self.parts + o)

    def pyvc_getattr(self, I, name):
        from .interp import Builtin
        if name == "replace":
            def rep(I, a, b):
                if not (isinstance(a, str) and isinstance(b, str)) or any(ch.isdigit() for ch in a):
                    raise Unsupported("replace on symbolic string")
                return PieceStr([p.replace(a, b) if isinstance(p, str) else p for p in self.parts])
            return Builtin("str.replace", rep)
        if name == "split":
            def split(I, sep=None):
                if not isinstance(sep, str) or len(sep) != 1 or sep.isdigit():
                    raise Unsupported("split on symbolic string")
                groups, cur = [], []
                for p in self.parts:
                    if isinstance(p, str):
                        bits = p.split(sep)
                        cur.append(bits[0])
                        for b in bits[1:]:
                            groups.append(cur)
                            cur = [b]
                    else:
                        cur.append(p)
                groups.append(cur)
                res = []
                for g in groups:
                    ps = PieceStr(g)
                    c = ps.concrete()
                    res.append(c if c is not None else ps)
                return res
            return Builtin("str.split", split)
        if name in ("strip", "lower", "upper"):
            return Builtin("str." + name, lambda I: self)
        raise Unsupported("method %s on symbolic string" % name)
