"""symbolic-mode implementation of the contract API"""
from . import core
from .core import (ite, band, bor, bnot, implies, const, is_slice_of, smin, smax, SymInt, SymBool, SymBytes, ByteArr,
                   BList, BBase, PyExc, Unsupported, PathAbort, is_sym, T, TB, mk_bool, mk_int, to_bytes_val,
                   is_byteslike, bcat, bslice, bytes_eq)
from .interp import Obj, Interp, LoopSpec, BoundMethod, UNBOUND
from .symlist import SymList, SymMap, SpecList, from_list, forall
from .frontend import FuncVal, ClassVal, EnumMember

MODE = "symbolic"


def len_(x):
    if is_byteslike(x):
        return to_bytes_val(x).length
    if hasattr(x, "pyvc_len"):
        return x.pyvc_len(None)
    return len(x)


def cat(*parts):
    return bcat(*parts)


def be(b):
    return core.be_int(b)


def eq(a, b):
    if is_byteslike(a) and is_byteslike(b):
        return bytes_eq(a, b)
    if isinstance(a, (int, SymInt, SymBool, bool)) and isinstance(b, (int, SymInt, SymBool, bool)):
        return core.cmp_num("==", a, b) if not (isinstance(a, (bool, SymBool)) and isinstance(b, (bool, SymBool))) else mk_bool(TB(a) == TB(b))
    if a is None or b is None:
        return a is b
    if isinstance(a, (tuple, list)) and isinstance(b, (tuple, list)):
        if len(a) != len(b):
            return False
        r = True
        for x, y in zip(a, b):
            r = band(r, eq(x, y))
        return r
    if isinstance(a, str) and isinstance(b, str):
        return a == b
    return a is b


def slice_(b, lo, hi):
    return bslice(b, lo, hi)


def is_none(x):
    return x is None


class Ctx:
    def __init__(self, interp, engine, harness, case):
        self.I = interp
        self.E = engine
        self.harness = harness
        self.case = case
        self.mode = "symbolic"
        self.native = False
        self.ghost = {}

    # ---- inputs
    def int(self, name, lo=None, hi=None):
        return core.sym_int(name, lo, hi)

    def bool(self, name):
        return core.sym_bool(name)

    def bytes(self, name, length=None, min_len=0, max_len=None):
        return core.sym_bytes(name, length=length, min_len=min_len, max_len=max_len)

    def bytearray(self, name, **kw):
        return ByteArr(self.bytes(name, **kw))

    def choice(self, name, options):
        k = self.E.choose(len(options))
        self.E.declare(name, "choice", k)
        return options[k]

    def encode_be(self, name, value, width, first_max=255):
        """bytes of length `width` whose big-endian value is `value` (digits are the free variables,
        tied to the value by one linear Horner equation)"""
        z3 = core.z3
        if first_max == 255 and is_sym(value):
            return BList(core.digits_of(T(value), width))
        if not is_sym(value):
            return const(int(value).to_bytes(width, "big"))
        ds = []
        h = z3.IntVal(0)
        for k in range(width):
            d = self.E.fresh_int("%s.d%d" % (name, k))
            self.E.add(z3.And(d >= 0, d <= (first_max if k == 0 else 255)))
            ds.append(SymInt(d))
            h = h * 256 + d
        self.E.add(h == T(value))
        return BList(ds)

    def loop(self, qualname, anchor, invariant, decreases=None, havoc=None, label=None, ghost_step=None, callee_frame=None):
        """loop contract given by the harness (may mention the harness's ghost values)"""
        self.I.loops.setdefault(qualname, []).insert(0, LoopSpec(anchor, invariant, decreases, havoc, label, ghost_step, callee_frame))

    def fill(self, value, length):
        return core.BFill(value, length)

    def fresh_int(self, name, lo=None, hi=None):
        """an undeclared fresh integer (ghost / nondeterministic result of a callee contract)"""
        v = self.E.fresh_int(name)
        if lo is not None:
            self.E.add(v >= lo)
        if hi is not None:
            self.E.add(v <= hi)
        return SymInt(v)

    def nondet(self, name="nd"):
        return self.E.choose(2) == 1

    def make_obj(self, cls, **attrs):
        return Obj(cls, dict(attrs))

    def uf(self, name, nargs=1, boolean=False):
        """uninterpreted function over integers (ghost description of an input's structure)"""
        z3 = core.z3
        f = z3.Function(name, *([z3.IntSort()] * nargs + [z3.BoolSort() if boolean else z3.IntSort()]))
        if boolean:
            return lambda *a: mk_bool(f(*[T(x) for x in a]))
        return lambda *a: SymInt(f(*[T(x) for x in a]))

    def recorder(self, name, handler=None, **attrs):
        """stand-in for a library object: records every method call (name, args, kwargs); `handler` gives
        the (assumed) result"""
        d = dict(attrs)
        d["__calls__"] = []
        d["__handler__"] = handler
        return Obj(None, d, kind="recorder:" + name)

    def calls(self, rec):
        return rec.attrs["__calls__"]

    def int_map(self, name):
        """an arbitrary dict[int, int]"""
        return SymMap(name)

    def map_has(self, m, k):
        return m.contains(k)

    def map_val(self, m, k):
        return m.value(k)

    def map_unmodified(self, m):
        return not m.mutated

    def is_bool(self, v):
        return isinstance(v, (bool, SymBool))

    def map_get(self, m, k, d):
        return ite(m.contains(k), m.value(k), d)

    def namespace(self, **attrs):
        return Obj(None, dict(attrs), kind="argparse.Namespace")

    def decimal(self, v):
        """the decimal string of a non-negative integer"""
        from .strings import PieceStr, IntPiece
        return PieceStr([IntPiece(v)])

    def dict_get(self, d, k):
        try:
            return self.I.subscript(d, k)
        except PyExc:
            return None

    def lib_model(self, dotted, fn):
        """assumed contract of a library callable, supplied by the harness"""
        self.I.models[dotted] = lambda I, *a, **k: fn(*a, **k)

    def lib_model_raw(self, dotted, fn):
        self.I.models[dotted] = fn

    def same_object(self, a, b):
        if isinstance(a, (SymBool, SymInt)) and isinstance(b, (SymBool, SymInt)):
            return a.t.eq(b.t)
        return a is b

    def is_external(self, v, dotted):
        from .frontend import External
        return isinstance(v, External) and v.dotted == dotted

    def truth_fork(self, cond):
        """split the contract's own case analysis on a symbolic condition"""
        return self.I.truth(cond)

    def summary_override(self, qualname, fn):
        ctx = self
        def call(interp, *a, **k):
            try:
                return fn(ctx, *a, **k)
            except SpecRaise as r:
                raise PyExc(r.cls, "raised by the callee's contract")
        self.I.summaries[qualname] = call

    def module_global(self, module, name):
        return self.I.module(module).globals[name]

    def is_lib_obj(self, obj, kind):
        return isinstance(obj, Obj) and obj.kind == kind

    def hash_is(self, obj, name):
        """obj is an instance of the hash algorithm `name` (assumed record model of cryptography.hashes)"""
        return isinstance(obj, Obj) and obj.kind == "hash:" + name

    def external(self, dotted):
        """a library class/function as a VALUE (e.g. the hash class handed around by the code)"""
        from .frontend import External
        return External(dotted)

    def lib(self, dotted, *args, **kw):
        """call a library function through its assumed contract (native mode: the real library)"""
        from .frontend import External
        return self.I.call(External(dotted), list(args), kw)

    def libmethod(self, obj, name, *args, **kw):
        return self.I.call(self.I.getattr_(obj, name), list(args), kw)

    def concrete(self, v):
        return self.E.concretize(v) if is_sym(v) else v

    def ip_text(self, name, ipv6=False):
        """the textual IP address handed to the builders (opaque string denoting a packed address)"""
        from .models import IpStr
        return IpStr(self.bytes(name, length=16 if ipv6 else 4), 6 if ipv6 else 4)

    def token_list(self, name, min_len=0):
        """a list of symbolic length of opaque tokens (e.g. timestamps: only copied and compared)"""
        n = self.int(name + ".len", min_len, None)
        sl = SymList(name, ["v"], n, None, project=lambda x: {"v": x}, inject=lambda vals, k: vals["v"])
        self.E.declare(name, "tokens", sl)
        return sl

    def set(self, obj, name, v):
        obj.attrs[name] = v

    def appends_only(self, qualname, attr_text):
        """frame obligation (syntactic, conservative): inside `qualname` every occurrence of the expression
        `attr_text` (e.g. 'self.out') is the receiver of .append/.extend or the operand of `return`"""
        import ast
        f = self.I.resolve(qualname)
        ok = True
        parents = {}
        for n in ast.walk(f.node):
            for ch in ast.iter_child_nodes(n):
                parents[ch] = n
        for n in ast.walk(f.node):
            if isinstance(n, (ast.Attribute, ast.Name)) and ast.unparse(n) == attr_text:
                p = parents.get(n)
                if isinstance(p, ast.Attribute) and p.attr in ("append", "extend") and isinstance(parents.get(p), ast.Call) and parents[p].func is p:
                    continue
                if isinstance(p, ast.Return):
                    continue
                ok = False
        return ok

    def not_changed_in(self, qualname, name):
        """frame obligation (syntactic, conservative): inside `qualname` the local `name` is bound exactly once and the object is never
        changed through it: no subscript store / delete / augmented assignment, no call of a mutating method, no alias (so no other name
        can reach it).  Reading it (tests, lookups, iteration, f-strings) and handing it to a call as a whole argument are allowed; what
        the callees do with it is their contracts' business"""
        import ast
        READERS = {"get", "items", "keys", "values", "copy", "__contains__", "__len__"}
        f = self.I.resolve(qualname)
        parents = {}
        for n in ast.walk(f.node):
            for ch in ast.iter_child_nodes(n):
                parents[ch] = n
        stores, ok = 0, True
        for n in ast.walk(f.node):
            if isinstance(n, ast.Name) and n.id == name:
                p = parents.get(n)
                if isinstance(n.ctx, ast.Store):
                    stores += 1
                    ok = ok and isinstance(p, (ast.Assign, ast.AnnAssign))
                elif isinstance(n.ctx, ast.Del):
                    ok = False
                elif isinstance(p, ast.Subscript) and p.value is n:
                    ok = ok and isinstance(p.ctx, ast.Load) and not isinstance(parents.get(p), ast.AugAssign)
                elif isinstance(p, ast.Attribute):
                    ok = ok and p.attr in READERS
                elif isinstance(p, (ast.Assign, ast.AnnAssign, ast.NamedExpr, ast.Return, ast.Yield, ast.List, ast.Tuple, ast.Dict, ast.Set, ast.Starred)):
                    ok = False          # alias / escape through a container
                elif isinstance(p, ast.AugAssign):
                    ok = False
        return ok and stores == 1

    def fresh_choice(self, term, options):
        """constrain an integer term to one of the options (case split)"""
        k = self.E.choose(len(options))
        self.E.assume(term == options[k])
        return options[k]

    def bytes_fresh(self, name, min_len, max_len):
        n = self.fresh_int(name + ".len", min_len, max_len)
        return BBase(self.E.fresh_name(name), n)

    def concrete_bool(self, v):
        return self.I.truth(v)

    def known_finding(self, fid):
        """True iff `fid` is listed as an OPEN finding in /verif/known_findings.json: the contract then proves the
        obligation outside the finding's region, and the check re-confirms the finding's witness natively"""
        return fid in _open_findings()

    def regstr(self, name, pattern):
        """an arbitrary string of the regular language `pattern` (Python re syntax, full match)"""
        from .regex import RegStr, pattern_to_re
        from .strings import PieceStr
        return RegStr(name, pattern_to_re(pattern), pattern)

    def text(self, *pieces):
        from .strings import PieceStr
        return PieceStr(list(pieces))

    def new_set_of(self, items):
        from .interp import SetVal
        return SetVal(list(items))

    def new_set(self):
        from .interp import SetVal
        return SetVal()

    def set_add(self, s, v):
        s.add(self.I, v)

    def raise_in_code(self, cls):
        """a library call fails (used inside recorder handlers: the exception is raised into the code under contract)"""
        raise PyExc(cls, "raised by the library (assumed contract: may fail on any input)")

    def fresh_bool(self, name):
        return SymBool(core.z3.Bool(self.E.fresh_name(name)))

    def ite_(self, cond, a, b):
        return ite(cond, a, b)

    def counted_list(self, name, length, last):
        """a list of symbolic length of which only len(), [-1] and append() are used"""
        return _CountedList(name, length, last)

    def bytearray_of(self, b):
        return ByteArr(to_bytes_val(b))

    def bytes_val(self, b):
        return to_bytes_val(b)

    def truth(self, v):
        return self.I.truth_value(v)

    def bytes_of(self, items):
        return BList(list(items))

    def opaque(self, name):
        return Obj(None, {}, kind="opaque:" + name)

    def record(self, kind, **attrs):
        """an object of a library type described only by its attributes (assumed record model)"""
        o = Obj(None, dict(attrs), kind=kind)
        return o

    def obj(self, qualname, _bare=False, **attrs):
        from . import api
        mk = api.COMPLETERS.get(qualname)
        if mk is not None and not _bare and not getattr(self, "_completing", False):
            self._completing = True
            try:
                o = mk(self)
            finally:
                self._completing = False
            o.attrs.update(attrs)
            return o
        c = self.I.resolve(qualname)
        return Obj(c, dict(attrs))

    def enum(self, qualname, member):
        c = self.I.resolve(qualname)
        return c.members[member]

    def const_of(self, qualname):
        return self.I.resolve(qualname)

    # ---- assumptions / obligations
    def assume(self, cond):
        self.E.assume(cond)

    def ensure(self, name, cond, kind="post"):
        return self.E.ensure(self.harness.name + "." + name, cond, kind=kind)

    def cover(self, name):
        self.E.cover(self.harness.name + "." + name)

    def raise_(self, cls):
        raise SpecRaise(cls)

    def prove(self, cond):
        return self.E.prove(cond)

    # ---- execution of the real code
    def _run(self, thunk):
        try:
            return Outcome(value=thunk())
        except PyExc as e:
            return Outcome(exc=e.cls, msg=e.msg, lineno=e.lineno, where=getattr(e, "where", None))

    def call(self, qualname, *args, **kwargs):
        f = self.I.resolve(qualname)
        if not isinstance(f, FuncVal):
            raise Unsupported("%s is not a function" % qualname)
        return self._run(lambda: self.I.call_func(f, list(args), kwargs, force_body=True))

    def new(self, qualname, *args, **kwargs):
        c = self.I.resolve(qualname)

        def thunk():
            o = Obj(c)
            init = self.I.class_lookup(c, "__init__")
            if isinstance(init, FuncVal):
                self.I.call_func(init, [o] + list(args), kwargs, force_body=True)
                return o
            return self.I.instantiate(c, list(args), kwargs)         # generated constructors (dataclasses), classes without __init__
        return self._run(thunk)

    def method(self, obj, name, *args, **kwargs):
        f = self.I.class_lookup(obj.cls, name)
        if not isinstance(f, FuncVal):
            raise Unsupported("no method %s" % name)
        return self._run(lambda: self.I.call_func(f, [obj] + list(args), kwargs, force_body=True))

    def iterate(self, obj):
        """consume an iterable of the code under contract (runs __iter__ / the generator)"""
        return self._run(lambda: list(self.I.iterate(obj)))

    def spec(self, fn, *args, **kwargs):
        """run a spec/summary function, turning ctx.raise_ into an Outcome"""
        try:
            return Outcome(value=fn(self, *args, **kwargs))
        except SpecRaise as r:
            return Outcome(exc=r.cls)

    def get(self, obj, name, default=UNBOUND):
        try:
            v = self.I.getattr_(obj, name)
        except PyExc:
            if default is UNBOUND:
                raise Unsupported("contract reads missing attribute %s" % name)
            return default
        return v

    def has(self, obj, name):
        try:
            self.I.getattr_(obj, name)
            return True
        except PyExc:
            return False

    def isinstance(self, obj, qualname):
        return self.I.isinstance_(obj, self.I.resolve(qualname))

    def same_outcome(self, label, got, want, value_eq=eq):
        """body outcome == spec outcome (raise iff, same class, equal value)"""
        if want.exc is not None:
            self.ensure(label + ".raises", got.exc == want.exc, kind="raises")
        else:
            ok = got.exc is None
            self.ensure(label + ".no_raise", ok, kind="raises")
            if ok:
                self.ensure(label + ".value", value_eq(got.value, want.value), kind="post")


from .api import Outcome, SpecRaise  # noqa: E402


_KF = None


def _open_findings():
    global _KF
    if _KF is None:
        import json
        import os
        p = os.path.join(os.path.dirname(os.path.dirname(os.path.abspath(__file__))), "known_findings.json")
        try:
            _KF = {k["id"] for k in json.load(open(p)).get("open", [])}
        except Exception:
            _KF = set()
    return _KF


class _CountedList:
    def __init__(self, name, length, last):
        self.name, self.length, self.last, self.appended = name, length, last, 0

    def pyvc_len(self, I):
        return self.length + self.appended

    def pyvc_getitem(self, I, k):
        if isinstance(k, int) and k == -1:
            return self.last
        raise Unsupported("index %r into a counted list" % (k,))

    def pyvc_getattr(self, I, name):
        from .interp import Builtin
        if name == "append":
            def app(I, x):
                self.appended += 1
                self.last = x
            return Builtin("list.append", app)
        raise Unsupported("method %s on a counted list" % name)
