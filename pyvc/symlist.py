"""lists of symbolic length (Dafny style): a length term plus one z3 array per integer-valued field.

Elements are records; `project(value) -> {field: int}` says how an appended object is abstracted and
`inject(fields) -> value` how an element read back looks to the code.  Byte-valued fields are held
by registering the bytes object in a side table keyed by a fresh integer id (field `<name>#id`)."""
from . import core
from .core import SymInt, T, is_sym, PyExc, Unsupported


class SymList:
    def __init__(self, name, fields, length=0, arrays=None, project=None, inject=None):
        z3 = core.z3
        self.name = name
        self.fields = list(fields)
        self.length = length
        E = core.CUR
        self.arrays = arrays or {f: z3.Array(E.fresh_name("%s.%s" % (name, f)), z3.IntSort(), z3.IntSort()) for f in self.fields}
        self.project = project
        self.inject = inject

    # -- spec-side access
    def field(self, f, i):
        return SymInt(core.z3.Select(self.arrays[f], T(i)))

    def fresh(self, name=None):
        """same shape, arbitrary contents and length >= 0 (loop havoc)"""
        E = core.CUR
        n = E.fresh_int((name or self.name) + ".len")
        E.add(n >= 0)
        return SymList(name or self.name, self.fields, SymInt(n), None, self.project, self.inject)

    def pyvc_havoc(self, name):
        return self.fresh()

    def append_fields(self, vals):
        z3 = core.z3
        for f in self.fields:
            self.arrays[f] = z3.Store(self.arrays[f], T(self.length), T(vals[f]))
        self.length = self.length + 1

    # -- code-side protocol
    def pyvc_len(self, I):
        return self.length

    def pyvc_truth(self, I):
        return core.cmp_num("!=", self.length, 0)

    def pyvc_getitem(self, I, k):
        if isinstance(k, slice):
            raise Unsupported("slice of a symbolic-length list")
        from .models import _norm_index
        if I is not None:
            k = _norm_index(I, k, self.length, "list index")
        vals = {f: self.field(f, k) for f in self.fields}
        return self.inject(vals, k) if self.inject else vals

    def pyvc_getattr(self, I, name):
        from .interp import Builtin
        if name == "append":
            def app(I, x):
                self.append_fields(self.project(x))
            return Builtin("list.append", app)
        if name == "sort" and getattr(self, "sorted_input", False):
            # the contract quantifies over the list AS list.sort leaves it (assumed: sort permutes and orders by key)
            return Builtin("list.sort", lambda I, key=None, reverse=False: None)
        if name == "clear":
            def clr(I):
                self.length = 0
                self.cleared = True
            return Builtin("list.clear", clr)
        raise Unsupported("method %s on a symbolic-length list" % name)


class SpecList:
    """Dafny's  lead ++ seq(count, q => make(q)) ++ tail :  a list of symbolic length whose middle part is GIVEN BY A SPEC
    FUNCTION of the index, preceded by a concrete list `lead` and followed by the concrete elements appended since.
    Everything about it is quantifier-free: reading element k evaluates make(k); `equals_spec(cnt)` says that the whole
    list is  lead ++ seq(cnt, make)  (the appended elements match the spec at their positions, via match(x, q))."""

    def __init__(self, name, count, make, match, lead=None, params=None):
        self.name = name
        self.count = count
        self.make = make
        self.match = match
        self.lead = list(lead or [])
        self.tail = []
        self.params = dict(params or {})
        self.cleared = False
        self.sorted = False
        self.on_sort = None
        self.arrival = None      # index map of the order BEFORE list.sort ran (harness ghost), if modelled

    @property
    def total_len(self):
        return len(self.lead) + self.count + len(self.tail)

    def with_count(self, count):
        """same spec, other length, nothing appended (loop havoc: the invariant pins the count)"""
        r = SpecList(self.name, count, self.make, self.match, self.lead, self.params)
        r.sorted, r.on_sort, r.arrival = self.sorted, self.on_sort, self.arrival
        return r

    def equals_spec(self, cnt):
        r = core.cmp_num("==", self.count + len(self.tail), cnt)
        for j, x in enumerate(self.tail):
            r = core.band(r, self.match(x, self.count + j))
        return r

    def pyvc_havoc(self, name):
        raise Unsupported("loop mutates spec list %s: give the loop spec a havoc rule" % self.name)

    def pyvc_len(self, I):
        return self.total_len

    def pyvc_truth(self, I):
        return core.cmp_num("!=", self.total_len, 0)

    def pyvc_getitem(self, I, k):
        if isinstance(k, slice):
            raise Unsupported("slice of a spec list")
        from .models import _norm_index
        if I is not None:
            k = _norm_index(I, k, self.total_len, "list index")
        nl = len(self.lead)
        E = core.CUR
        if nl and (isinstance(k, int) and k < nl or (is_sym(k) and E.fork(T(k) < nl))):
            return self.lead[k if isinstance(k, int) else E.concretize(k, what="index into the concrete head of a spec list")]
        q = k - nl
        if self.tail and E.fork(T(q) >= T(self.count)):
            j = q - self.count
            return self.tail[j if isinstance(j, int) else E.concretize(j, what="index into the appended tail of a spec list")]
        if self.arrival is not None and not self.sorted:
            q = self.arrival(q)
        return self.make(q)

    def pyvc_getattr(self, I, name):
        from .interp import Builtin
        if name == "append":
            return Builtin("list.append", lambda I, x: self.tail.append(x))
        if name == "sort":
            def srt(I, key=None, reverse=False):
                if self.on_sort is None:
                    raise Unsupported("list.sort on spec list %s without a sort contract" % self.name)
                self.on_sort(I, self, key, reverse)
                self.sorted = True
            return Builtin("list.sort", srt)
        if name == "clear":
            def clr(I):
                self.lead, self.tail, self.count, self.cleared = [], [], 0, True
            return Builtin("list.clear", clr)
        raise Unsupported("method %s on a spec list" % name)


def from_list(xs, name, fields, project, inject=None):
    """abstract a concrete Python list of values"""
    s = SymList(name, fields, 0, None, project, inject)
    for x in xs:
        s.append_fields(project(x))
    return s


def forall(fn, lo, hi, name="q"):
    """forall i: lo <= i < hi -> fn(i)   (fn gets a SymInt)"""
    z3 = core.z3
    i = core.CUR.fresh_int(name)
    body = fn(SymInt(i))
    return core.mk_bool(z3.ForAll([i], z3.Implies(z3.And(i >= T(lo), i < T(hi)), core.TB(body))))


class SymMap:
    """an arbitrary finite map int -> int (e.g. any port map): membership and value are uninterpreted
    functions; every query is declared so that a counter-model can be turned back into a dict"""

    def __init__(self, name):
        z3 = core.z3
        self.name = name
        self.has = z3.Function(name + ".has", z3.IntSort(), z3.BoolSort())
        self.val = z3.Function(name + ".val", z3.IntSort(), z3.IntSort())
        self.nq = 0
        self.nonempty = core.sym_bool(name + ".nonempty")

    def pyvc_truth(self, I):
        return self.nonempty

    def pyvc_len(self, I):
        raise Unsupported("len() of an arbitrary map")

    def _declare(self, k):
        E = core.CUR
        i = self.nq
        self.nq += 1
        kk = core.sym_int("%s.q%d.key" % (self.name, i))
        hh = core.sym_bool("%s.q%d.in" % (self.name, i))
        vv = core.sym_int("%s.q%d.val" % (self.name, i))
        E.add(kk.t == T(k))
        E.add(hh.t == self.has(T(k)))
        E.add(vv.t == self.val(T(k)))
        E.add(core.z3.Implies(hh.t, self.nonempty.t))
        return hh, vv

    def pyvc_contains(self, I, k):
        hh, vv = self._declare(k)
        return hh

    def pyvc_getitem(self, I, k):
        hh, vv = self._declare(k)
        if not core.CUR.fork(hh.t):
            raise PyExc("KeyError", "key not in map")
        return vv

    def pyvc_getattr(self, I, name):
        from .interp import Builtin
        if name == "keys":
            return Builtin("dict.keys", lambda I: self)
        if name == "get":
            def get(I, k, d=None):
                hh, vv = self._declare(k)
                return vv if core.CUR.fork(hh.t) else d
            return Builtin("dict.get", get)
        if name in ("pop", "setdefault"):
            def mut(I, k, d=None):
                self.mutated = True       # frame violation, reported by the contract (map_unmodified)
                hh, vv = self._declare(k)
                return vv if core.CUR.fork(hh.t) else d
            return Builtin("dict." + name, mut)
        if name in ("update", "clear", "popitem"):
            def mut2(I, *a, **k):
                self.mutated = True
            return Builtin("dict." + name, mut2)
        raise Unsupported("method %s on a symbolic map" % name)

    mutated = False

    def pyvc_setitem(self, I, k, v):
        self.mutated = True

    def contains(self, k):
        return core.mk_bool(self.has(T(k)))

    def value(self, k):
        return SymInt(self.val(T(k)))
