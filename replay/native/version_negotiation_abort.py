import sys, os, struct
sys.path.insert(0, os.environ.get("R", "/tmp/repo_dev"))
import dpkt, socket
from tlexport import main
def udp_frame(src, dst, sport, dport, payload):
    u = dpkt.udp.UDP(sport=sport, dport=dport, data=payload); u.ulen = 8 + len(payload)
    ip = dpkt.ip.IP(src=socket.inet_aton(src), dst=socket.inet_aton(dst), p=17, data=u, ttl=64); ip.len = 20 + u.ulen
    e = dpkt.ethernet.Ethernet(src=b"\x02\0\0\0\0\x01", dst=b"\x02\0\0\0\0\x02", data=ip, type=0x0800)
    return bytes(e)
vn = bytes([0xc0]) + b"\0\0\0\0" + bytes([8]) + b"\x11"*8 + bytes([8]) + b"\x22"*8 + b"\0\0\0\x01"
with open("in.pcapng", "wb") as f:
    w = dpkt.pcapng.Writer(f)
    w.writepkt(udp_frame("10.0.0.2", "10.0.0.1", 443, 50000, vn), 1.0)
open("keys.log","w").write("")
sys.argv = ["tlexport", "-i", "in.pcapng", "-o", "out.pcapng", "-s", "keys.log", "-a"]
try:
    main.run()
    print("RUN OK")
except BaseException as e:
    import traceback; traceback.print_exc(); print("RUN ABORTED", type(e).__name__)
