#!/bin/sh
# offline set-up: tool versions + engine self-test (a canary that must be refuted, a contract that must verify)
cd "$(dirname "$0")" || exit 3
python3-vt -c "import z3; assert z3.get_version_string().startswith('5.'), z3.get_version_string()" || exit 3
/venv/bin/python -c "import dpkt, scapy, cryptography" || exit 3
python3-vt -m compileall -q pyvc contracts >/dev/null || exit 3
python3-vt -m pyvc.selftest || exit 3
echo setup ok
