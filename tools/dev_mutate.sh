#!/bin/sh
# mutrun2.sh <tag> <file> <old> <new> <modules> <only>
D=$(mktemp -d /tmp/tlx-mut-XXXXXX)
cp -r /repo/tlexport "$D"/
python3 - "$D/$2" "$3" "$4" <<'PY'
import sys
p,a,b=sys.argv[1:4]
s=open(p).read()
assert a in s, "pattern not found"
open(p,'w').write(s.replace(a,b,1))
PY
TLEXPORT_REPO="$D" NBAD=3 timeout 1500 python3-vt /verif/tools/dev_run_harness_parallel.py "$5" "$6" 2>&1 | grep -v auto_activate | grep -v "^{" > /tmp/mut_$1.out
rm -rf "$D"
