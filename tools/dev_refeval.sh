#!/bin/sh
# dev_refeval.sh <patch.diff> <tag> [properties...] : quick checks against a scratch copy of /repo HEAD with a (behaviour-preserving) patch applied; prints rc per property
PATCH=$1; R=$2; shift; shift
PROPS=${*:-C01 C02 C03 C04 C05 C06 C07 C08 C09 C10 C11 C12 C13 C14 C15 C16 C17 C18}
D=$(mktemp -d /tmp/tlx-ref-XXXXXX)
git -C /repo archive HEAD | tar -x -C "$D"
( cd "$D" && patch -p1 -s < "$PATCH" ) || { echo "$R patch failed"; rm -rf "$D"; exit 3; }
cd /verif
for p in $PROPS; do
  TLEXPORT_REPO="$D" timeout 700 ./check $p --no-evidence > /tmp/refeval_${R}_$p.log 2>&1; rc=$?
  echo "$R $p rc=$rc $(grep -v auto_activate /tmp/refeval_${R}_$p.log | grep '^property' | sed 's/.*: //' | cut -c1-90)"
  grep -v auto_activate /tmp/refeval_${R}_$p.log | grep "^VIOLATION\|^UNDECIDED\|^CHECKER" | cut -c1-260 | sort | uniq -c | head -6
done
rm -rf "$D"
