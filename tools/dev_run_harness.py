import sys, os, json, time
sys.path.insert(0, "/verif")
os.environ.setdefault("PYVC_TIER", "quick")
from pyvc import runner, api
mods = sys.argv[1].split(",")
only = sys.argv[2]
runner.load_contracts(mods)
sys.setrecursionlimit(10000)
for h in api.REGISTRY["harness"]:
    if only in h.name:
        for ci, case in enumerate(h.cases):
            if len(sys.argv) > 3 and str(ci) != sys.argv[3]: continue
            t=time.time()
            r = runner.run_case(h, case, timeout_ms=h.timeout or 10000)
            print(h.name, case, "paths", r["paths"], "obl", len(r["obligations"]), "wall %.1f" % (time.time()-t))
            from collections import Counter
            print(Counter((o["name"], o["verdict"]) for o in r["obligations"] if o["verdict"]!="discharged"))
            print("disch", sum(o["verdict"]=="discharged" for o in r["obligations"]))
            print("undecided", r["undecided"][:5]); print("errors", "\n".join(r["errors"][:3])); print("covers", r["covers"])
            if os.environ.get("SHOWREF"):
                for o in r["obligations"]:
                    if o["verdict"] != "discharged":
                        print("--", o["name"], o["verdict"], "line", o.get("lineno"), "path", o.get("path")); print(json.dumps(o.get("model"), default=str)[:1500])
