import sys, os, json, time
sys.path.insert(0, "/verif")
os.environ.setdefault("PYVC_TIER", "quick")
from pyvc import runner, api
from collections import Counter
mods = sys.argv[1].split(","); only = sys.argv[2]
runner.load_contracts(mods)
import multiprocessing as mp
hs=[(i,h) for i,h in enumerate(api.REGISTRY["harness"]) if only in h.name]
tasks=[(i,c,{"timeout_ms": h.timeout or 10000}) for i,h in hs for c in range(len(h.cases))]
t=time.time()
with mp.get_context("fork").Pool(16) as pool:
    res=list(pool.imap_unordered(runner._job, tasks, chunksize=1))
tot=Counter(); bad=Counter(); und=[]; err=[]; cov=Counter(); paths=0
for hi,ci,r in res:
    paths+=r["paths"]
    for o in r["obligations"]:
        tot[o["verdict"]]+=1
        if o["verdict"]!="discharged": bad[(o["name"],o["verdict"],r["case"])]+=1
    und+= [(r["case"],u["reason"]) for u in r["undecided"]]; err+=[(r["case"],e) for e in r["errors"]]
    for k,v in r["covers"].items(): cov[k]+=v
print("cases",len(tasks),"paths",paths,dict(tot),"wall %.1f"%(time.time()-t))
for k,v in list(bad.items())[:int(os.environ.get("NBAD","12"))]: print("  BAD",k,v)
for u in und[:6]: print("  UND",u)
for e in err[:3]: print("  ERR",e[0], e[1][-1500:])
print({k:v for k,v in cov.items() if ".loop[" not in k})
