#!/bin/sh
# seedrun.sh <seed-dir> <property> [extra check args]: run check against a scratch copy (of the DEV copy of HEAD) with the seed's patch applied
S=$1; P=$2; shift; shift
D=$(mktemp -d /tmp/tlx-seedrun-XXXXXX)
cp -r /tmp/repo_dev/tlexport "$D"/
( cd "$D" && patch -p1 -s < /verif/seeded/$S/patch.diff ) || { echo "patch failed"; rm -rf "$D"; exit 3; }
cd /verif
TLEXPORT_REPO="$D" timeout 1500 ./check "$P" --no-evidence "$@" 2>&1 | grep -v auto_activate | cut -c1-300 | tail -12
rm -rf "$D"
