#!/usr/bin/env python3
"""regenerates MANIFEST.json from contracts.PROPERTIES (claimed) and contracts.NOT_APPLICABLE"""
import json, os, sys
HERE = os.path.dirname(os.path.dirname(os.path.abspath(__file__)))
sys.path.insert(0, HERE)
os.environ["PYVC_NATIVE"] = "1"
import contracts
props = [json.loads(l)["id"] for l in open(os.path.join(HERE, "properties.jsonl"))]
checks = []
for pid in props:
    cfg = contracts.PROPERTIES.get(pid)
    if not cfg:
        continue
    checks.append({
        "property_id": pid,
        "quick_cmd": "./check %s --tier quick" % pid,
        "thorough_cmd": "./check %s --tier thorough" % pid,
        "evidence_file": "evidence/%s.json" % pid,
        "replay_cmd_template": "./check --replay {path}",
        "engine": "pyvc",
        "level_claimed": {"category": cfg["level"], "text": cfg["level_text"], "design_ref": cfg.get("design_ref", "DESIGN.md section 4")},
        "level_note": cfg["level_note"],
        "technique": cfg.get("technique", "contract-based deductive verification: VCs generated from the real AST by pyvc, discharged by z3"),
    })
na = [{"property_id": p, "reason": contracts.NOT_APPLICABLE.get(p, "check not built yet (build in progress)")} for p in props if p not in contracts.PROPERTIES]
m = {
    "version": 1,
    "setup_cmd": "./setup.sh",
    "hooks": {"guard": "TLEXPORT_VERIF", "enable": "no hooks: sidecar contracts parse /repo sources with ast on every run; nothing in /repo is instrumented",
              "baseline_off_cmd": "cd /repo && /venv/bin/python -m pytest -ra -q -p no:cacheprovider --timeout=900 --continue-on-collection-errors",
              "source_commits": [], "add_only": True},
    "engines": [{"name": "pyvc", "path": "pyvc/", "serves_properties": [c["property_id"] for c in checks],
                 "kind_free_text": "self-written VC generator: ast -> symbolic execution of the real function bodies against sidecar contracts (pre/post, loop invariants, variants, callee contracts at call sites) -> z3 5.1.0; counter-models replayed on the real code under /venv/bin/python"}],
    "checks": checks,
    "not_applicable": na,
    "notes": "exit 0 held / 1 violation (+replay) / 2 undecided (unknown, timeout, unsupported syntax) / 3 checker error. See DESIGN.md.",
}
json.dump(m, open(os.path.join(HERE, "MANIFEST.json"), "w"), indent=1)
print("claimed:", [c["property_id"] for c in checks])


def check_module_lists():
    """every harness must be loaded for every property it names (a harness in a module that a property does not list is silently
    skipped for that property)"""
    import glob
    import contracts as _c
    from pyvc import runner, api
    mods = [os.path.basename(p)[:-3] for p in glob.glob(os.path.join(HERE, "contracts", "*.py")) if not p.endswith("__init__.py") and not p.endswith("_native.py")]
    runner.load_contracts(mods)
    bad = []
    for h in api.REGISTRY["harness"]:
        m = h.fn.__module__.split(".")[-1]
        for p in h.prop:
            if m not in _c.PROPERTIES[p]["modules"]:
                bad.append((p, m, h.name))
    if bad:
        print("MODULE LIST MISMATCH:", bad)
        sys.exit(3)


check_module_lists()
