#!/bin/sh
# tools/mut.sh <file-relative-to-repo> <old> <new> <property> [only]  : run a check against a scratch copy with one textual edit
set -e
D=$(mktemp -d /tmp/tlx-mut-XXXXXX)
cp -r /repo/tlexport "$D"/
python3 - "$D/$1" "$2" "$3" <<'PY'
import sys
p,a,b=sys.argv[1:4]
s=open(p).read()
assert a in s, "pattern not found"
open(p,'w').write(s.replace(a,b,1))
PY
cd /verif
if [ -n "$5" ]; then ONLY="--only $5"; fi
TLEXPORT_REPO="$D" timeout 900 ./check "$4" --no-evidence $ONLY 2>&1 | grep -v auto_activate | cut -c1-400 | tail -6 || true
rm -rf "$D"
