#!/bin/sh
# tools/native_fuzz.sh <contract modules, comma separated> <harness name substring> <trials>
cd /verif && PYVC_NATIVE=1 PYTHONPATH=/verif timeout 900 /venv/bin/python -m pyvc.replay --fuzz "$1" "$2" "${3:-200}" 2>&1 | grep -v -i "warning\|auto_act\|from crypt\|modes\.\|  \"" | tail -3
