#!/bin/sh
# runs the repository's pinned suite (baseline: 60 passed, test_all::testrun always fails offline)
cd /repo && timeout 900 /venv/bin/python -m pytest -q -p no:cacheprovider --timeout=900 --continue-on-collection-errors 2>&1 | tail -3
