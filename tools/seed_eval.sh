#!/bin/sh
# tools/seed_eval.sh <seed-dir> <property>  : (1) confirm the seeded change in a scratch worktree (tests pass, demo fails with / passes without),
# (2) apply it to /repo, run the property's quick check, undo it straight afterwards.
S=$(readlink -f "$1"); P=$2
W=$(mktemp -d /tmp/tlx-seed-XXXXXX)
git -C /repo worktree add -q --detach "$W" HEAD >/dev/null 2>&1 || { echo "worktree failed"; exit 3; }
cp -r "$S" "$W/$(basename $S)"
cd "$W"
D=$(basename $S)
timeout 300 /venv/bin/python $D/demo.py >/dev/null 2>&1; echo "demo_without_patch=$?"
if git apply --check "$S/patch.diff" 2>/dev/null; then
  git apply "$S/patch.diff"
  timeout 600 /venv/bin/python -m pytest -q -p no:cacheprovider test 2>&1 | tail -1
  timeout 300 /venv/bin/python $D/demo.py >/dev/null 2>&1; echo "demo_with_patch=$?"
  APPLIES=1
else
  echo "patch does not apply to current HEAD"; APPLIES=0
fi
cd /verif
git -C /repo worktree remove --force "$W"
if [ "$APPLIES" = 1 ]; then
  git -C /repo apply "$S/patch.diff" && { timeout 1200 ./check $P --no-evidence 2>&1 | grep -v auto_activate | cut -c1-260 | tail -${3:-4}; echo "check_rc=$?"; }
  git -C /repo checkout -- . 
fi
